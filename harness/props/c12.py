"""C12 — runs are independent: definitions and configuration are shared state a run never modifies.

Streams, implementation = the real pypyr of $PYPYR_REPO run in this process.  Every stream starts a run
either through `pipelinerunner.run` (a new `pypyr.pipeline.Pipeline` object inside) or - `via: object` -
on ONE Pipeline object per entry point, made through the public constructors on the entry's first run
and RUN AGAIN (`Pipeline.run(context)`) with a new `Context` for every later run, sequentially and
concurrently on threads: a run of a re-used object must be the run of a fresh object.

(a) ALIASING CORRESPONDENCE.  Generated pipelines of real steps (`in` arguments that are nested
    lists / dicts / sets, pypyr.steps.append / add / contextmerge / set / contextsetf / default /
    contextcopy / py mutating in place / configvars; `foreach` over items that are containers and hold
    containers, changed in place through `i` by py / contextmerge / append / add; a swallowed failure
    whose `onError` value lands under runErrors and is changed in place afterwards; retry / while inputs
    that are containers; pype with args (parent context and own context + out); runs entered through
    config.shortcuts with args / parser_args).  Containers are EMPTY now and then at every nesting level
    (an empty container is a mutable object like any other, and falsy: append / add / onError / foreach
    treat it differently).  The pipelines are loaded through the real file loader and caches.  After
    every step body (`Step.invoke_step` wrapped from outside, i.e. while the step's `in` arguments are
    still in context) the harness records the deep value of the context and the set of SHARED objects
    (cached definition, config.vars, config.shortcuts; immutable atoms excepted) reachable from it by
    id().  The same history of calls is executed by the Lean heap model AT STEP GRANULARITY
    (`heap.runSteps` with `calls`): the harness sends the STEPS (kind + configuration, `RunHeap.Instr`),
    the model READS the operations each step performs from the state in which the step starts
    (`RunHeap.opsOf`: append / add test truthiness, merge / default walk the current value, save_error
    looks for runErrors), performs them (`RunHeap.exec`; an operation without effect RAISES and ends its
    run) and returns both.  The operations must equal, one by one, the harness's own reading of the step
    (Emit below), and `deepVal` / `foreignReach` / "the run is over" after the corresponding operation
    must agree with the implementation.  A step that raises unswallowed (`fail`) ends the run on both
    sides: the steps after it never run, the next run is unaffected.
    Monitors on the implementation alone: no MUTABLE shared object is reachable from a context of a case
    that has a step kind writing in place (objects immutable all the way down are not reported; a mutable
    one held by a case that only rebinds keys is counted, as is what the Pipeline objects hold, e.g.
    `shortcut['groups']`); a re-run equals the first run; the context of a run that is over never
    changes afterwards.

(b) HISTORY MONITOR (from the property text, no model involved).  Histories of 2-6 runs of 1-3
    pipelines (direct and through shortcuts, equal initial contexts) in one process with all caches
    on.  Before the first run and after every run every cached `PipelineDefinition.pipeline`
    (through the loader and straight from loader_cache / file_cache) and config.vars /
    config.shortcuts are deep-snapshotted and must equal what the loader produces for the file
    (`load_pipeline_from_file`, uncached) / what config was; run k of an entry must reproduce run 1:
    probe trace (context at every `vobs` probe step), outcome, final context; the live Context object
    of every earlier run must still deep-equal the snapshot taken when that run ended.

(b2) ORDER INDEPENDENCE OVER DIRECTORY LAYOUTS (part of the history stream, no model).  2-4 root
    pipelines in different directories pype children by relative names that contain sub-directories,
    '+', '..'; the child file exists next to the parent, in the cwd, in cwd/pipelines or nowhere
    (cwd pointed at the scratch tree by the harness).  Every root runs solo in a fresh cache, then the
    roots run in permutations and in a history with repeats, caches on: each run must equal its solo
    (trace, outcome, final context); after every history the definition the loader cache returns for
    every (parent, name) request equals a fresh load of the file pypyr's search order prescribes.

(b3) THE LOADERS THEMSELVES (no driver; the model's assumption `Loader.TextOnly`, lean/PypyrModel/LoadHist.lean).
    "Held by process-global state" extended from objects of a context to STATE that changes what a later load
    returns: 2-5 pipeline texts carrying yaml directives, tags, anchors and plain scalars whose reading depends
    on parser state are loaded and run alone in a pristine process (impl_c12.Pristine) and then in several orders,
    with repeats and cache clears, in the harness process; every cached definition, every direct loader call and
    every run after a history must equal the pristine one (deep equality including node classes and yaml tags).

(c) THREADS.  2-3 runs on real threads, each with its own context, hand-off at the probe steps AND INSIDE
    steps: inside the formatting of a large mapping (`contextSetf` whose 5-12 values are `!py` expressions
    calling vobs.tick) and inside a foreach (the probe step under a foreach decorator), still
    deterministic (threading.Event scheduler of harness/impl_c13.py, no sleeps), several interleavings per pipeline
    set, cold and warm caches; with `via: object` the threads that run the same entry call run() on the
    SAME Pipeline object: every run must reproduce its solo trace / outcome / final context (solo =
    `pipelinerunner.run`), the definitions must stay deep-equal, the solo runs' contexts unchanged.

Robustness: every case has a wall-clock limit (SIGALRM); a case that does not come back, a thread that
never reaches its next probe, or an exception out of the code under test outside a run is reported as
a broken correspondence with that case as input (the sandbox is rebuilt), never a hang or a crash.
"""
from __future__ import annotations

import copy
import json
import os
import re
import shutil
import sys

from .. import common
from .. import impl_c12 as I
from ..common import canon

# Props.C11Heap: the object-level pype theorems (C11); listed here until harness/props/c11.py lists them
LEAN_MODULES = ['Props.C12', 'Props.C11Heap']
TRUSTED = ['harness/props/c12.py + harness/impl_c12.py (pipeline generator, id()-graph walker, deep snapshots, monitors; its '
           'object-level reading of each step kind is compared, operation for operation, with RunHeap.opsOf of the model)',
           'harness/impl_c13.py (threading.Event hand-off scheduler)',
           'CPython object identity (id), copy.deepcopy, ruamel.yaml round-trip loader']
ASSUMPTIONS = [
    'one model operation = one effect of a step on objects; a step reads the context once, when it starts (so one '
    'default / contextmerge step does not address the same object under two aliased keys: not generated); '
    'interleavings at arbitrary bytecode boundaries (GIL switches) are not modelled; threads are switched at probe steps, '
    'at every value of a large contextSetf mapping while it is formatted and at every iteration of a foreach probe',
    'an operation that raises ends its run (no on_failure group in the generated pipelines); the context is then what '
    'it was at the raise, with the failure recorded under runErrors',
    'atoms (None, bool, int, float, str, bytes, dates) are immutable: sharing them is not aliasing',
    'shared state = cached PipelineDefinition.pipeline graphs, config.vars, config.shortcuts; module-level state of '
    'logging and third-party libraries is not observed',
    'the caller\'s own dict_in / args_in objects belong to the caller: every run gets a fresh deep copy (equal initial context)',
    'inputs handed to a Pipeline object belong to the caller too; every run gets equal inputs: before a re-run of a '
    're-used Pipeline object the harness assigns its context_args afresh (pypyr.parser.list hands that very list to the '
    'context as argList, so a run that changes argList in place changes the object\'s own argument list); counted as '
    'reuse:args-refreshed',
    'threads that run the same entry share ONE Pipeline object unless the entry hands context_args to the object '
    '(one mutable input for two runs) or uses pypyr.steps.call (the called group runs through the runner the object '
    'holds when the step runs; with two calls of run() in flight that is the last one\'s - reported as a suspect, a '
    'Pipeline object being documented as one running instance): those get an object per thread',
    'what a Pipeline object keeps between two calls of run() is its steps_runner (PipeObj.runner in the model); its '
    'pipeline_definition is fetched from the loader cache on every call',
    'formatting of definition objects: brace-free values only (a formatter then changes no leaf); a leaf the formatter '
    'returns as it is is an immutable atom and is modelled as a leaf cell of the copy (as for deepcopy)',
    'no yaml anchors shared between two `in` values or two foreach items; dict keys are strings; values without '
    'formatting expressions (formatting is C08/C09)',
    'special tag objects (!py, !sic, !jsonify) are leaves of a definition in the model-compared streams; as arguments they are '
    'judged by the monitors of stream (a2) (id() walk through object attributes, definition deep-equality, re-runs) and, in '
    'the heap model, stand as obj cells with a payload reference (Props.C12 section 11)',
    'THE LOADER IS A FUNCTION OF THE FILE TEXT ALONE (Loader.TextOnly in lean/PypyrModel/LoadHist.lean): an assumption of '
    'the model, not a theorem - the yaml library is not modelled. Props/C12.lean section 11 proves what follows from it; '
    'the stream `loads` checks the assumption itself on the real file and string loaders: a definition obtained after a '
    'history of loads, cache clears and runs in the harness process must be deep-equal (classes and yaml tags of every '
    'node included) to the definition obtained for that text alone in a pristine process, over texts with %YAML / %TAG '
    'directives, document markers, anchors, merge keys, tags and version-dependent plain scalars. Limits: the texts come '
    'from a fixed vocabulary; custom loaders are not exercised; state that only changes log output is not observed',
]

PARSER_ARGS_SIG = {'site': 'shortcut.parser_args', 'parser': 'pypyr.parser.list'}
# step kinds that only (re)bind keys of the context object: no operation of theirs has another object as its target
READ_ONLY_KINDS = {'set', 'setf', 'set_ff', 'contextcopy', 'py_alias', 'configvars', 'call', 'pype_parent', 'pype_child',
                   'ticks', 'foreach_probe', 'fail'}


# ---------------------------------------------------------------------------------------------
# small helpers
# ---------------------------------------------------------------------------------------------

def diff_path(a, b, path=()):
    """First path at which two wire values differ (order-insensitive on dict keys), or None."""
    a, b = I.norm(a), I.norm(b)
    if canon(a) == canon(b):
        return None
    if isinstance(a, dict) and isinstance(b, dict) and 'd' in a and 'd' in b:
        da, db = {canon(k): (k, v) for k, v in a['d']}, {canon(k): (k, v) for k, v in b['d']}
        for ck in sorted(set(da) | set(db)):
            if ck not in da or ck not in db:
                return list(path) + [(da.get(ck) or db.get(ck))[0]]
            d = diff_path(da[ck][1], db[ck][1], path + (da[ck][0],))
            if d is not None:
                return d
    if isinstance(a, list) and isinstance(b, list) and len(a) == len(b):
        for i, (x, y) in enumerate(zip(a, b)):
            d = diff_path(x, y, path + (i,))
            if d is not None:
                return d
    return list(path)


def signature_for_labels(labels, stream):
    for lb in labels:
        if lb['what'] == 'config.shortcuts' and 'parser_args' in lb['path']:
            return dict(PARSER_ARGS_SIG)
    what = labels[0]['what'].split(' ')[0] if labels else '?'
    return {'site': what, 'stream': stream, 'monitor': 'shared-object-reachable-from-context'}


def signature_for_config(path):
    if path and path[0] == 'shortcuts' and 'parser_args' in path:
        return dict(PARSER_ARGS_SIG)
    return {'monitor': 'config-changed', 'site': 'config.' + str(path[0] if path else '?')}


def config_wire(sb):
    return {'d': [['vars', I.wire(sb.config.vars)], ['shortcuts', I.wire(sb.config.shortcuts)]]}


def stem(key):
    name = key.split(':', 1)[1]
    return name[:-5] if name.endswith('.yaml') else name


def check_shared_unchanged(sb, names, baseline, cfg0, when):
    """The property's first sentence, judged on the implementation: returns a list of
    (detail, signature)."""
    out = []
    for key, body in sb.cached_bodies(names).items():
        want = baseline.get(stem(key))
        if want is None:
            continue
        d = diff_path(want, body)
        if d is not None:
            out.append((f'{when}: cached definition {key} differs from what the loader produces for the file, at {d}',
                        {'monitor': 'definition-changed', 'site': 'definition'}))
            break
    d = diff_path(cfg0, config_wire(sb))
    if d is not None:
        out.append((f'{when}: configuration changed at config.{".".join(str(x) for x in d)}', signature_for_config(d)))
    return out


class Finished:
    """"A run never alters other runs", judged on the implementation: the live Context object of every
    run that is over, with the deep snapshot taken when that run ended; `check` compares them again."""

    def __init__(self):
        self.items = []

    def add(self, label, ctx):
        if ctx is not None:
            self.items.append([label, ctx, I.norm(I.wire(dict(ctx)))])

    def check(self, when):
        out = []
        for it in self.items:
            now = I.norm(I.wire(dict(it[1])))
            if canon(now) != canon(it[2]):
                out.append((f'{when}: the context of {it[0]}, which was over, changed afterwards at {diff_path(it[2], now)}',
                            {'monitor': 'finished-run-context-changed'}))
                it[2] = now
        return out


def check_process_state(fin, when, sb=None):
    """"A run never alters other runs", the precondition judged on the implementation: no MUTABLE object of a
    run that is over is still held by the package's process-global state (module-level names, class attributes,
    functools caches, closures of its functions) - a later run could be handed that very object."""
    out = []
    nested = [('a run on a context of its own (a child pipeline of pypyr.steps.pype, or an earlier run)', c)
              for c in (sb.run_contexts if sb is not None else [])]
    for label, why in I.held_by_process([(it[0], it[1]) for it in fin.items] + nested):
        out.append((f'{when}: a mutable object of the context of {label} is kept alive by process-global state of '
                    f'pypyr, where later runs can get at it: {why}',
                    {'monitor': 'run-object-held-by-process-global-state'}))
        break
    return out


def run_kwargs(case, ei):
    """How run number … of entry `ei` is started: through pipelinerunner.run, or on that entry's
    re-used Pipeline object."""
    return {'via': case.get('via', 'runner'), 'key': ei}


# ---------------------------------------------------------------------------------------------
# case generation
# ---------------------------------------------------------------------------------------------

def gen_config(rng, pipe_names, force_shortcut=False):
    cfg = {'vars': {}, 'shortcuts': {}}
    if rng.random() < 0.6:
        # every container kind a config value can be: mappings, lists, SETS (yaml `!!set`), tuples (set from code),
        # nested in each other; through a real config file (ruamel round-trip objects) or assigned from code
        tuples = False
        for j in range(rng.randint(1, 3)):
            kind = rng.choice(['list', 'dict', 'atom', 'list', 'set', 'dict', 'tuple'])
            v = I.gen_val(rng, 2, kind)
            tuples = tuples or kind == 'tuple'
            if isinstance(v, dict) and rng.random() < 0.4:
                v[f's{j}'] = I.gen_val(rng, 1, 'set')
            elif isinstance(v, list) and rng.random() < 0.3:
                v.append(I.gen_val(rng, 1, 'set'))
            cfg['vars'][f'cv{j}'] = v
        if not tuples and rng.random() < 0.5:
            cfg['via'] = 'yaml'
    if force_shortcut or rng.random() < 0.4:
        sc = {'pipeline_name': rng.choice(pipe_names)}
        c = rng.random()
        if c < 0.7:
            sc['args'] = {f'sa{j}': I.gen_val(rng, 2, rng.choice(['list', 'dict', 'atom'])) for j in range(rng.randint(1, 3))}
        if c > 0.5:
            sc['parser_args'] = [rng.choice(['a', 'b', 'k=v', 'x y']) for _ in range(rng.randint(1, 3))]
        if rng.random() < 0.35:
            sc['groups'] = ['steps']       # Pipeline.new_pipe_and_args keeps THIS list on the Pipeline object (read-only)
        cfg['shortcuts']['sc0'] = sc
    return cfg


def gen_dict_in(rng):
    if rng.random() < 0.15:
        return None
    out = {}
    for j in range(rng.randint(0, 3)):
        out[f'd{j}'] = I.gen_val(rng, 2, rng.choice(['list', 'dict', 'set', 'atom', 'list']))
    return out


def make_entries(rng, nentries, directed=None):
    """Pipelines + config + entry points. Returns (gen, entries)."""
    names = [f'p{j}' for j in range(nentries)]
    if directed:
        cfg = copy.deepcopy(directed.get('config') or {'vars': {}, 'shortcuts': {}})
        cfg.setdefault('vars', {})
        cfg.setdefault('shortcuts', {})
    else:
        cfg = gen_config(rng, names)
    gen = I.ProgGen(rng, cfg)
    entries = []
    by_pipe = {sc['pipeline_name']: name for name, sc in cfg['shortcuts'].items()}
    for n in names:
        if directed:
            e = gen.entry(n, dict_in=copy.deepcopy(directed.get('dict_in')), shortcut=by_pipe.get(n),
                          args_in=directed.get('args_in'), parser=directed.get('parser'),
                          script=copy.deepcopy(directed['script']))
        else:
            shortcut = by_pipe.get(n)
            parser = 'pypyr.parser.list' if rng.random() < (0.7 if shortcut and 'parser_args' in cfg['shortcuts'][shortcut]
                                                             else 0.2) else None
            args_in = [rng.choice(['u', 'v', 'w=1'])] if parser and rng.random() < 0.4 else None
            e = gen.entry(n, dict_in=gen_dict_in(rng), shortcut=shortcut, args_in=args_in, parser=parser,
                          nsteps=rng.randint(2, 6))
        entries.append(e)
    return gen, entries


DIRECTED = [
    # the F4 shape: `in` containers mutated in place (append / py / add on a yaml set)
    {'name': 'in-append', 'script': ['append_in', 'py_in', 'add_in', 'append_in'], 'dict_in': {}},
    # config.vars written into context, then mutated in place
    {'name': 'configvars', 'script': ['configvars', 'py_append', 'py_dictset', 'py_append', 'merge'],
     'config': {'vars': {'cv': {'n': 1, 'l': [1]}, 'cl': [0, [1]]}}},
    # shortcut args initialise the context, then are mutated in place
    {'name': 'shortcut-args', 'script': ['py_append', 'py_dictset', 'append_ctx', 'py_append'],
     'config': {'shortcuts': {'sc': {'pipeline_name': 'p0', 'args': {'lst': [0], 'd': {'x': [1]}}}}}},
    # shortcut parser_args handed to pypyr.parser.list, argList appended to
    {'name': 'shortcut-parser-args', 'script': ['py_append', 'append_ctx'], 'parser': 'pypyr.parser.list',
     'config': {'shortcuts': {'sc': {'pipeline_name': 'p0', 'parser_args': ['a', 'b']}}}},
    {'name': 'shortcut-parser-args+args', 'script': ['py_append', 'py_append'], 'parser': 'pypyr.parser.list',
     'config': {'shortcuts': {'sc': {'pipeline_name': 'p0', 'parser_args': ['a'], 'args': {'l0': [[1]]}}}},
     'dict_in': {'d': [2]}},
    # foreach over container items, the body mutates the current item
    {'name': 'foreach', 'script': ['foreach', 'foreach', 'py_append'], 'dict_in': {'acc': [0]}},
    {'name': 'retry-while', 'script': ['retry', 'while', 'retry'], 'dict_in': {'acc': [0], 'b': [[1]]}},
    {'name': 'pype-parent', 'script': ['pype_parent', 'py_append', 'pype_parent'], 'dict_in': {'acc': [0]}},
    {'name': 'pype-child', 'script': ['pype_child', 'py_append', 'pype_child'], 'dict_in': {'acc': [0]}},
    {'name': 'merge-default', 'script': ['merge', 'default', 'merge', 'default', 'contextcopy', 'merge'],
     'dict_in': {'a': {'m0': 1, 'n': {'m1': [1]}}, 'l': [1, [2]], 's': 'x'}},
    {'name': 'set-alias', 'script': ['set', 'set_ff', 'py_append', 'setf', 'py_alias', 'py_extend'],
     'dict_in': {'l': [1, [2]], 'd': {'x': [0]}}},
    {'name': 'sets', 'script': ['add', 'add', 'py_add', 'add_in', 'add'], 'dict_in': {'s0': {1, 2}}},
    # decorator inputs are copied by formatting: foreach items holding EMPTY nested containers, filled in place
    # through `i` (contextmerge extends lists in place; py; append / add replace a falsy container)
    {'name': 'foreach-empty-nested-merge', 'dict_in': {'who': 'ops'}, 'script': [
        ['foreach_dict', {'items': [{'name': 'web', 'done': [], 'meta': {}}, {'name': 'db', 'done': [], 'meta': {}}],
                          'how': 'merge'}], 'py_append']},
    {'name': 'foreach-empty-nested-py', 'dict_in': {}, 'script': [
        ['foreach_dict', {'items': [{'name': 'web', 'done': [], 'meta': {}}], 'how': 'py_list'}],
        ['foreach_dict', {'items': [{'name': 'web', 'done': [1], 'meta': {}}, {'name': 0, 'done': [], 'meta': {'a': {}}}],
                          'how': 'py_dict'}]]},
    {'name': 'foreach-empty-items', 'dict_in': {}, 'script': [
        ['foreach_list', {'items': [[], [[]], [1]], 'how': 'py'}], ['foreach_list', {'items': [[], [2]], 'how': 'merge'}],
        ['foreach_list', {'items': [[], [3]], 'how': 'append'}], ['foreach_set', {'items': [set(), {1}], 'how': 'py'}],
        ['foreach_set', {'items': [set(), {2}], 'how': 'add'}]]},
    {'name': 'foreach-random', 'script': ['foreach_dict', 'foreach_list', 'foreach', 'merge', 'foreach_set'],
     'dict_in': {'acc': []}},
    # a swallowed failure keeps the formatted onError value of the definition under runErrors
    {'name': 'onerror-empty', 'dict_in': {}, 'script': [['onerror', {'onError': {'why': [], 'ctx': {}}}],
                                                         ['onerror', {'onError': [[], {}]}], 'onerror', 'py_append']},
    # EMPTY containers under `in`, in the initial context, as set / pype / retry inputs
    {'name': 'empties-everywhere', 'dict_in': {'l': [], 'd': {}, 'n': {'x': [], 'y': {}}},
     'script': ['append_in', 'append_ctx', 'py_append', 'py_dictset', 'merge', 'default', 'set', 'set_ff', 'py_append',
                'retry', 'while', 'pype_parent', 'pype_child']},
]
DIRECTED.append(
    # pypyr.steps.call: the called group runs through the runner the Pipeline object holds
    {'name': 'call-groups', 'dict_in': {'acc': [], 'd': {'x': []}},
     'script': ['call', 'py_append', 'call', 'foreach_dict', 'call', 'append_in']})
DIRECTED += [
    # a step that raises and is not swallowed ends the run there: the later steps never run, the next run is unaffected
    {'name': 'fail-midrun', 'dict_in': {'acc': [0]}, 'script': ['append_in', 'py_append', 'fail', 'py_append', 'set']},
    {'name': 'fail-first', 'dict_in': {}, 'script': ['fail', 'set']},
    # hand-off points inside the formatting of a large mapping and inside a foreach
    {'name': 'ticks', 'dict_in': {'acc': [0]}, 'script': ['ticks', 'py_append', 'foreach_probe', 'ticks', 'append_in']},
    # a shortcut whose `groups` list the Pipeline object holds by reference
    {'name': 'shortcut-groups', 'script': ['py_append', 'append_in', 'set'],
     'config': {'shortcuts': {'sc': {'pipeline_name': 'p0', 'groups': ['steps'], 'args': {'lst': [0]}}}}},
]
DIRECTED += [
    # 23: pype with a pipeArg string, the child (pypyr.parser.list) changes its argList in place; the same string again
    {'name': 'pype-arglist', 'dict_in': {'acc': [0]},
     'script': [['pype_arglist', {'toks': ['lint', 'src', '--strict']}], 'py_append',
                ['pype_arglist', {'toks': ['lint', 'src', '--strict']}], ['pype_arglist', {'toks': ['test', 'src dir']}]]},
    {'name': 'pype-arglist-random', 'dict_in': {}, 'script': ['pype_arglist', 'pype_arglist', 'set', 'pype_arglist']},
    # 25: config vars of every container kind (a yaml `!!set` at the top and nested), pulled in by configvars and changed
    # in place in the run's own context
    {'name': 'configvars-sets-yaml', 'script': ['configvars', ['add', {'K': 'regions'}], 'py_add', 'py_append', 'merge',
                                                 'py_add', 'configvars', ['add', {'K': 'regions'}]],
     'dict_in': {'region': 'ap'},
     'config': {'via': 'yaml', 'vars': {'regions': {'eu', 'us'}, 'owners': ['ops'], 'limits': {'cpu': 2, 'zones': {1, 2}},
                                         'nested': [{'s': {7}}, [{3}]]}}},
    {'name': 'configvars-sets-code', 'script': ['configvars', ['add', {'K': 'cs'}], 'py_add', 'py_append', 'py_add'],
     'dict_in': {},
     'config': {'vars': {'cs': {1, 'a'}, 'ct': (1, [2], {'k': [3]}), 'cd': {'s': set(), 'l': [{5}]}}}},
]
OBJECT_DIRECTED = (0, 2, 3, 5, 6, 8, 12, 15, 17, 18, 19, 21, 22, 23, 25)     # the directed shapes that are also run on a re-used Pipeline object


def json_config(cfg):
    """The configuration of a case, JSON-able: vars (which may hold sets / tuples) in wire form."""
    out = dict(cfg)
    if not (isinstance(cfg.get('vars'), dict) and '__wire__' in cfg['vars']):
        out['vars'] = {'__wire__': I.wire(cfg.get('vars') or {})}
    return out


def case_from(gen, entries, kind, order, probes, via='runner'):
    return {'kind': kind,
            'via': via,
            'pipes': {n: I.render_pipe(p, probes=probes) for n, p in gen.pipes.items()},
            'config': json_config(gen.config),
            'entries': entries,
            'kinds': sorted(set(gen.kinds)),
            'order': order}


def pick_via(rng):
    return 'object' if rng.random() < 0.4 else 'runner'


def alias_cases(env):
    rng = env.rng
    for j, d in enumerate(DIRECTED):
        gen, entries = make_entries(rng, 1, directed=d)
        yield case_from(gen, entries, 'alias', [0, 0], probes=False), 'directed:' + d['name']
        if j in OBJECT_DIRECTED:
            yield case_from(gen, entries, 'alias', [0, 0, 0], probes=False, via='object'), 'directed:' + d['name']
    for _ in range(env.n(260, 9000)):
        via = pick_via(rng)
        ne = 1 if via == 'runner' or rng.random() < 0.6 else 2
        gen, entries = make_entries(rng, ne)
        if via == 'object':         # one Pipeline object per entry, run again and again with new contexts
            order = [rng.randrange(ne) for _ in range(rng.randint(2, 3))]
        else:
            order = [0, 0] if rng.random() < 0.5 else [0]
        yield case_from(gen, entries, 'alias', order, probes=False, via=via), 'random'


def history_cases(env):
    rng = env.rng
    for j, d in enumerate(DIRECTED):
        gen, entries = make_entries(rng, 1, directed=d)
        for e in entries:
            e.pop('prog', None)
        yield case_from(gen, entries, 'history', [0, 0, 0], probes=True,
                        via='object' if j in OBJECT_DIRECTED else 'runner'), 'directed:' + d['name']
    for _ in range(env.n(90, 2500)):
        ne = rng.randint(1, 3)
        gen, entries = make_entries(rng, ne)
        for e in entries:
            e.pop('prog', None)
        order = [rng.randrange(ne) for _ in range(rng.randint(2, 6))]
        if ne > 1 and len(set(order)) == len(order):     # make sure something runs twice
            order.append(order[0])
        yield case_from(gen, entries, 'history', order, probes=True, via=pick_via(rng)), 'random'


def thread_cases(env):
    rng = env.rng
    sets = []
    for j in (0, 1, 2, 3, 5, 8, 12, 14, 16, 18, 19, 21, 21, 22, 23, 25):
        d = DIRECTED[j]
        gen, entries = make_entries(rng, 1, directed=d)
        # the hand-off shape twice: two threads, then three
        three = j == 21 and bool(sets) and sets[-1][3] == 'directed:ticks'
        sets.append((gen, entries, [0, 0, 0] if three else [0, 0], 'directed:' + d['name'],
                     'object' if j in (0, 2, 5, 12, 16, 18, 22) else 'runner'))
    for _ in range(env.n(8, 150)):
        ne = rng.randint(1, 3)
        gen, entries = make_entries(rng, ne)
        nt = rng.randint(2, 3)
        sets.append((gen, entries, [rng.randrange(ne) for _ in range(nt)], 'random', pick_via(rng)))
    for gen, entries, threads, tag, via in sets:
        for e in entries:
            e.pop('prog', None)
        nt = len(threads)
        # schedules are over-long on purpose: turns for finished threads are skipped
        scheds = [[t for _ in range(40) for t in range(nt)],                      # round robin
                  [t for t in range(nt) for _ in range(40)],                      # one after the other
                  [t for t in reversed(range(nt)) for _ in range(40)],            # …in reverse
                  [t for _ in range(40) for t in reversed(range(nt))]]
        for _ in range(env.n(2, 8)):
            scheds.append([rng.randrange(nt) for _ in range(60)])
        for k, s in enumerate(scheds):
            c = case_from(gen, entries, 'threads', threads, probes=True, via=via)
            c['schedule'] = s
            c['cold'] = bool(k % 2)
            yield c, tag


# ---------------------------------------------------------------------------------------------
# (a) aliasing correspondence
# ---------------------------------------------------------------------------------------------

def check_alias(env, res, sb, case, tag='replay'):
    names = list(case['pipes'])
    sb.install(case['pipes'], case['config'])
    baseline = {n: I.wire(sb.fresh(n)) for n in names}
    bodies = sb.load(names)
    cfg0 = config_wire(sb)
    shared = I.SharedIndex(names, bodies, sb.config)
    via = case.get('via', 'runner')
    calls, flat, points, impl_runs = [], [], [], []
    hooked = True
    found = []
    fin = Finished()
    reused0, refreshed0 = sb.reused, sb.refreshed
    for k, ei in enumerate(case['order']):
        entry = case['entries'][ei]
        # the model's history of calls: a re-used object is the same object number, pipelinerunner.run a new one
        call, ops, pts = I.instantiate(entry['prog'], k + 1, shared, obj=ei + 1 if via == 'object' else 1000 + k)
        base = len(flat)
        calls.append(call)
        flat += ops
        points.append([(base + i, r) for i, r in pts])
        with I.StepObserver(shared) as so:
            hooked = so.active
            outcome, ctx = sb.run(entry['run'], dict_in=I.unwire(entry['dict_in']) if entry['dict_in'] is not None else None,
                                  args_in=entry['args_in'], **run_kwargs(case, ei))
            if ctx is not None:
                so.record(ctx, '<final>')
            elif so.first_ctx is not None:
                # a run that ended with an exception hands no context back: the Context object it worked on
                so.record(so.first_ctx, '<final>')
        impl_runs.append({'outcome': outcome, 'events': so.events})
        found += check_shared_unchanged(sb, names, baseline, cfg0, f'after run {k + 1}')
        found += fin.check(f'after run {k + 1}')
        fin.add(f'run {k + 1}', sb.last_live)
        found += check_process_state(fin, f'after run {k + 1}', sb)
    # what the re-used Pipeline objects hold by reference (`shortcut['groups']`: the configuration's own list): a
    # slot of a Pipeline object is no operation's target (PipeObj.held, `held_reference_reads_same`); that the
    # configuration did not change is judged by the snapshots above
    for pobj in sb.objs.values():
        names = list(getattr(type(pobj), '__slots__', ())) + list(getattr(pobj, '__dict__', {}))
        held = [i for i in I.reach([getattr(pobj, a, None) for a in names]) if i in shared.ref_of]
        res.count('reuse:shared-object-held-by-a-Pipeline-object (read-only, not reported)', len(held))
    res.case(case)
    res.count('alias:' + tag)
    res.count('alias:via-' + via)
    res.count('alias:runs', len(case['order']))
    res.count('reuse:runs-on-a-reused-object', sb.reused - reused0)
    res.count('reuse:args-refreshed', sb.refreshed - refreshed0)
    for kd in case.get('kinds', []):
        res.count('step:' + kd)
    # ---- monitors on the implementation alone
    # A shared object a context holds BY REFERENCE: immutable all the way down (atom-only tuples, frozensets) is
    # harmless and not reported; a mutable one is reported when some step kind of this case writes in place
    # (the object could be the target); held by a case that only rebinds keys it is counted (held, never
    # written - `defs_unchanged_shared_readonly`); whether anything shared actually CHANGED is judged by the
    # deep snapshots after every run in any case.
    writers = [kd for kd in case.get('kinds', []) if kd not in READ_ONLY_KINDS]
    for k, run in enumerate(impl_runs):
        for j, ev in enumerate(run['events']):
            res.count('alias:shared-immutable-object-held (not reported)', len(ev.get('frozen', ())))
            if ev['labels'] and not writers:
                res.count('alias:shared-mutable-object-held-never-written (no in-place step kind in the case)')
            elif ev['labels']:
                found.append((f"run {k + 1}, after step #{j} ({ev['step']}): the context reaches shared object(s) "
                              f"{ev['labels'][:3]} by reference, and the case has step kinds that write in place "
                              f"({sorted(set(writers))[:4]})", signature_for_labels(ev['labels'], 'alias')))
                break
    first = {}
    for k, ei in enumerate(case['order']):
        if ei in first:
            a, b = impl_runs[first[ei]], impl_runs[k]
            if a['outcome'] != b['outcome'] or canon([I.norm(e['ctx']) for e in a['events']]) != canon(
                    [I.norm(e['ctx']) for e in b['events']]):
                found.append((f'run {k + 1} of the same pipeline with an equal initial context differs from run '
                              f'{first[ei] + 1} (step trace / outcome / final context)'
                              + (' - both on the same Pipeline object, each with a new Context' if via == 'object' else ''),
                              {'monitor': 'rerun-differs'}))
        else:
            first[ei] = k
    seen = set()
    for detail, sig in found:
        if canon(sig) in seen:
            continue
        seen.add(canon(sig))
        res.violation(case, detail, signature=sig,
                      impl={'runs': [{'outcome': r['outcome'], 'final': r['events'][-1]['ctx'] if r['events'] else None,
                                      'foreign': [e['labels'] for e in r['events'] if e['labels']][:2]} for r in impl_runs]})
    # ---- model
    # the model is given the STEPS (kind + configuration); it reads the operations itself (`RunHeap.opsOf`)
    model = env.driver.ask('heap.runSteps', defs=shared.defs, cfg=shared.cfg, calls=calls)
    problems = []
    res.count('alias:step-level-units', len(model['nops']))
    res.count('alias:operations-read', len(model['ops']))
    if canon(model['ops']) != canon(flat):
        # the object-level reading of a step kind in this harness and in lean/PypyrModel/Heap.lean differ
        at = next((i for i, (a, b) in enumerate(zip(model['ops'], flat)) if canon(a) != canon(b)), min(len(flat), len(model['ops'])))
        res.mismatch(case, {'reading': model['ops'][at:at + 2]}, {'reading': flat[at:at + 2]},
                     note=f'the model reads other operations from the steps than the harness does, from operation {at}')
        return impl_runs, model
    if not model['plain']:
        problems.append('definitions / configuration hold an opaque object: outside the domain of the theorems')
    if not model['sharedSame']:
        problems.append('model: shared arenas changed')
    na = [i for i, st in enumerate(model['steps']) if not st['applied'] and flat[i][1]['o'] != 'fail']
    if na:
        problems.append(f'model: operation {na[0]} {flat[na[0]]} does not apply (the code would raise / do nothing)')
    for k, run in enumerate(impl_runs):
        pts = points[k]
        fails = bool(case['entries'][case['order'][k]].get('fails'))
        mdead = bool(pts and model['steps'][pts[-1][0]]['dead'])
        if (run['outcome'] != 'ok') != fails or mdead != fails:
            problems.append(f"run {k + 1}: implementation outcome {run['outcome']}, the model's run ends "
                            + ('with an exception' if mdead else 'normally'))
            continue
        res.count('alias:run-ended-by-an-exception', 1 if fails else 0)
        evs = run['events']
        if not hooked:
            pts, evs = pts[-1:], evs[-1:]
        if len(pts) != len(evs):
            problems.append(f'run {k + 1}: {len(evs)} step observations on the implementation, {len(pts)} in the model')
            continue
        for j, ((i, r), ev) in enumerate(zip(pts, evs)):
            ms = model['steps'][i]
            if ms['r'] != r:
                # the operation before this observation acted on another run's context (a nested run that
                # just ended): the observed context is run r's as it is now = after its own last operation
                own = [q for q in range(i, -1, -1) if model['steps'][q]['r'] == r]
                ms = model['steps'][own[0]] if own else ms
            if not I.same(ms['ctx'], ev['ctx']):
                problems.append(f"run {k + 1} observation {j} ({ev['step']}): context values differ at "
                                f"{diff_path(ms['ctx'], ev['ctx'])}")
                break
            mf = sorted(ms['foreign'], key=canon)
            if canon(mf) != canon(ev['foreign']):
                problems.append(f"run {k + 1} observation {j} ({ev['step']}): reachable shared objects differ: "
                                f"model {mf} implementation {ev['foreign']}")
                break
    if problems:
        res.mismatch(case, {'problems': problems[:4], 'model_final': [model['steps'][p[-1][0]]['ctx'] for p in points if p]},
                     {'runs': [{'outcome': r['outcome'], 'final': r['events'][-1]['ctx'] if r['events'] else None}
                               for r in impl_runs]}, note=problems[0])
    if not hooked:
        res.count('alias:no-invoke_step-hook')
    return impl_runs, model


# ---------------------------------------------------------------------------------------------
# (b) history monitor
# ---------------------------------------------------------------------------------------------

def solo_run(sb, entry, **how):
    tr = I.SoloTrace()
    sb.vobs.HOOK = tr.hook
    try:
        outcome, ctx = sb.run(entry['run'], dict_in=I.unwire(entry['dict_in']) if entry['dict_in'] is not None else None,
                              args_in=entry['args_in'], **how)
    finally:
        sb.vobs.HOOK = None
    return {'trace': [I.norm(x) for x in tr.trace], 'outcome': outcome,
            'final': I.norm(I.wire(dict(ctx))) if ctx is not None else None}


def check_history(env, res, sb, case, tag='replay'):
    names = list(case['pipes'])
    sb.install(case['pipes'], case['config'])
    baseline = {n: I.wire(sb.fresh(n)) for n in names}
    sb.load(names)
    cfg0 = config_wire(sb)
    found = check_shared_unchanged(sb, names, baseline, cfg0, 'after loading, before the first run')
    first, obs = {}, []
    via = case.get('via', 'runner')
    fin = Finished()
    reused0, refreshed0 = sb.reused, sb.refreshed
    for k, ei in enumerate(case['order']):
        o = solo_run(sb, case['entries'][ei], **run_kwargs(case, ei))
        obs.append(o)
        found += check_shared_unchanged(sb, names, baseline, cfg0, f'after run {k + 1} (entry {ei})')
        found += fin.check(f'after run {k + 1} (entry {ei})')
        fin.add(f'run {k + 1} (entry {ei})', sb.last_live)
        found += check_process_state(fin, f'after run {k + 1} (entry {ei})', sb)
        if ei in first:
            ref = obs[first[ei]]
            for what in ('trace', 'outcome', 'final'):
                if canon(ref[what]) != canon(o[what]):
                    found.append((f'run {k + 1} (entry {ei}, equal initial context'
                                  + (', the same Pipeline object run again with a new Context' if via == 'object' else '')
                                  + f') differs from run {first[ei] + 1} in its {what}' + (f' at {diff_path(ref[what], o[what])}' if what != 'outcome' else
                                               f': {ref[what]} vs {o[what]}'), {'monitor': 'rerun-differs', 'what': what}))
                    break
        else:
            first[ei] = k
    res.case(case)
    res.count('history:' + tag)
    res.count('history:via-' + via)
    res.count('reuse:runs-on-a-reused-object', sb.reused - reused0)
    res.count('reuse:args-refreshed', sb.refreshed - refreshed0)
    res.count('history:runs', len(case['order']))
    res.count('history:probe-events', sum(len(o['trace']) for o in obs))
    for o in obs:
        res.count('history:outcome:' + ('ok' if o['outcome'] == 'ok' else 'error'))
    seen = set()
    for detail, sig in found:
        if canon(sig) in seen:
            continue
        seen.add(canon(sig))
        res.violation(case, detail, signature=sig, impl={'runs': [{'outcome': o['outcome'], 'final': o['final']} for o in obs]})
    return obs


# ---------------------------------------------------------------------------------------------
# (c) threads
# ---------------------------------------------------------------------------------------------

def check_threads(env, res, sb, case, tag='replay'):
    names = list(case['pipes'])
    sb.install(case['pipes'], case['config'])
    baseline = {n: I.wire(sb.fresh(n)) for n in names}
    sb.load(names)
    cfg0 = config_wire(sb)
    via = case.get('via', 'runner')
    fin = Finished()
    # the reference: every entry on its own, through pipelinerunner.run (a Pipeline object of its own)
    solo = {}
    for ei in sorted(set(case['order'])):
        solo[ei] = solo_run(sb, case['entries'][ei])
        fin.add(f'the solo run of entry {ei}', sb.last_live)
    found = check_shared_unchanged(sb, names, baseline, cfg0, 'after the solo runs')
    if case.get('cold'):
        sb.admin.clear_all()
    lives = {}
    shared_args = []

    def prog(t, ei):
        entry = case['entries'][ei]
        dict_in = I.unwire(entry['dict_in']) if entry['dict_in'] is not None else None
        if via == 'object':
            # the threads that run entry ei share ONE Pipeline object (made here, before they start) and call
            # run() on it concurrently, each with a Context of its own
            from pypyr.context import Context
            pipeline, args = sb.pipeline_object(ei, entry['run'], dict_in, entry['args_in'])
            if pipeline.context_args is not None or 'call' in case.get('kinds', ()):
                # (1) the object's argument list is an input the caller owns, and pypyr.parser.list hands that
                # very list to the context: concurrent runs on this object would be given ONE mutable input;
                # every run gets inputs of its own.  (2) `pypyr.steps.call` runs the called group through
                # `context.current_pipeline.steps_runner`, read when the step runs: with two calls of run()
                # in flight on ONE object that is the runner of whichever call came last (reported as a
                # suspect; a Pipeline object is documented as one running instance).  Such an entry is run
                # on an object per thread, and again and again on that object.
                shared_args.append(t)
                pipeline, args = sb.pipeline_object((ei, t), entry['run'], dict_in, entry['args_in'])
            ctx = lives[t] = Context(args) if args else Context()

            def op(t, i):
                try:
                    pipeline.run(ctx)
                    return 'ok', ctx
                except Exception as e:   # noqa: BLE001 - the run's own outcome
                    return {'err': common.exc_name(e), 'msg': str(e).replace(str(sb.dir), '<dir>')}, None
        else:
            def op(t, i):
                r = sb.run(entry['run'], dict_in=dict_in, args_in=entry['args_in'])
                lives[t] = r[1]
                return r
        return [op]
    reused0, refreshed0 = sb.reused, sb.refreshed
    sched = I.ProbeSched([prog(t, ei) for t, ei in enumerate(case['order'])])
    sb.vobs.HOOK = sched.hook
    try:
        try:
            sched.start()
            state = sched.run(case['schedule'], finish=True)
        finally:
            sb.vobs.HOOK = None
    except common.Infra as e:
        # a thread that does not come back to a probe step (or ends) within the watchdog time: the runs on
        # threads do not behave like their solo runs, which did
        res.case(case)
        res.mismatch(case, {'solo': {str(k): v['outcome'] for k, v in solo.items()}}, {'threads': str(e)[:300]},
                     note=f'runs on threads did not finish although each run finishes on its own: {str(e)[:200]}')
        return
    if state != 'done':
        res.case(case)
        res.mismatch(case, None, {'scheduler': state}, note=f'the runs on threads ended in scheduler state {state}')
        return
    for t, ei in enumerate(case['order']):
        kind, val = sched.results[t][0] if sched.results[t] else ('exc', 'no result')
        if kind == 'exc':
            val = ({'err': type(val).__name__, 'msg': str(val)[:200]}, None)
        outcome, ctx = val
        o = {'trace': [I.norm(x) for x in sched.traces[t]], 'outcome': outcome,
             'final': I.norm(I.wire(dict(ctx))) if ctx is not None else None}
        for what in ('trace', 'outcome', 'final'):
            if canon(solo[ei][what]) != canon(o[what]):
                found.append((f'thread {t} (entry {ei}) interleaved with {len(case["order"]) - 1} other run(s) differs from its '
                              f'solo run in its {what}' + (f' at {diff_path(solo[ei][what], o[what])}' if what != 'outcome' else ''),
                              {'monitor': 'thread-differs', 'what': what}))
                break
    found += check_shared_unchanged(sb, names, baseline, cfg0, 'after the threaded runs')
    found += fin.check('after the threaded runs')
    for t, ctx in sorted(lives.items()):
        fin.add(f'thread {t}', ctx)
    found += check_process_state(fin, 'after the threaded runs', sb)
    res.case(case)
    res.count('threads:' + tag)
    res.count('threads:via-' + via)
    res.count('reuse:threads-with-an-object-of-their-own (context_args / call)', len(shared_args))
    res.count('reuse:runs-on-a-reused-object', sb.reused - reused0)
    res.count('reuse:args-refreshed', sb.refreshed - refreshed0)
    res.count('threads:turns', sched.turns)
    res.count('threads:n=' + str(len(case['order'])))
    res.count('threads:cold' if case.get('cold') else 'threads:warm')
    seen = set()
    for detail, sig in found:
        if canon(sig) in seen:
            continue
        seen.add(canon(sig))
        res.violation(case, detail, signature=sig, impl={'solo': {str(k): v['final'] for k, v in solo.items()}})


# ---------------------------------------------------------------------------------------------
# (b2) order independence over directory layouts (history stream, from the property text)
# ---------------------------------------------------------------------------------------------
# Root pipelines in different directories pype children by RELATIVE names that may contain
# sub-directories, '+', '..'; a child file may exist next to its parent, in the cwd, in cwd/pipelines,
# or nowhere (the run then fails, which is an outcome like any other). Every root is run solo in a
# fresh cache, then all roots in several orders with the caches on: each root's (probe trace, outcome,
# final context) must be the same in every order and equal to its solo result; after every order the
# definition the loader cache hands out for each (parent, name) request must be deep-equal to a fresh
# load of the file that pypyr's own search order (`get_pipeline_path`) prescribes for that request.

ROOT_DIRS = ['proj', 'proj/sub', 'proj/a', 'proj/a+b', 'proj/shared', 'other', 'proj/sub/deep']
CHILD_NAMES = ['x', 'sub/x', 'report', 'shared/report', 'b+c', 'c', 'a+b/c', '../x', 'sub/../x', 'deep/x', 'sub/deep/x',
               'x+y', 'a/b+c', './x']
GRAND_NAMES = ['g', 'sub/g', 'g+h', '../g', 'shared/g']       # files with these names never pype further (no cycles)


def child_yaml(marker, grand=None):
    steps = ['  - ' + I.yv({'name': 'pypyr.steps.append', 'in': {'append': {'list': 'seen', 'addMe': marker}}})]
    if grand:
        steps.append('  - ' + I.yv({'name': 'pypyr.steps.pype', 'in': {'pype': {'name': grand}}}))
    steps.append('  - vobs')
    return 'steps:\n' + '\n'.join(steps) + '\n'


def root_yaml(marker, children):
    steps = ['  - ' + I.yv({'name': 'pypyr.steps.append', 'in': {'append': {'list': 'seen', 'addMe': marker}}}), '  - vobs']
    for c in children:
        steps.append('  - ' + I.yv({'name': 'pypyr.steps.pype', 'in': {'pype': {'name': c}}}))
        steps.append('  - vobs')
    return 'steps:\n' + '\n'.join(steps) + '\n'


def norm_rel(p):
    return os.path.normpath(p).replace(os.sep, '/')


def orders_case(rng, roots, files, norders):
    """roots: [(dir, name, [child names])], files: {relpath-without-.yaml: grandchild name or None}."""
    import itertools
    out_files, root_entries = {}, []
    for d, n, children in roots:
        rel = f'{d}/{n}'
        out_files[rel + '.yaml'] = root_yaml(rel, children)
        root_entries.append({'name': rel, 'dir': d, 'children': list(children), 'abs': rng.random() < 0.3})
    for rel, grand in files.items():
        out_files.setdefault(rel + '.yaml', child_yaml(rel, grand))
    perms = list(itertools.permutations(range(len(roots))))
    rng.shuffle(perms)
    orders = [list(p) for p in perms[:norders]]
    if len(roots) >= 2:       # a history with repeats
        orders.append([rng.randrange(len(roots)) for _ in range(rng.randint(3, 5))])
    return {'kind': 'orders', 'files': out_files, 'grand': {k: v for k, v in files.items() if v}, 'roots': root_entries,
            'orders': orders}


def order_cases(env):
    rng = env.rng
    # directed: the sub-directory-in-the-name shape (P pypes 'shared/report', P/shared pypes 'report', neither file
    # next to its parent), the '+' shape of F5, '..' names, a file in cwd/pipelines only
    yield orders_case(rng, [('proj', 'nightly', ['shared/report']), ('proj/shared', 'weekly', ['report'])],
                      {'report': None, 'shared/report': None}, 2), 'directed:subdir-in-name'
    yield orders_case(rng, [('proj/a', 'r1', ['b+c']), ('proj/a+b', 'r2', ['c']), ('proj', 'r3', ['a+b/c', 'a/b+c'])],
                      {'b+c': None, 'c': None, 'a+b/c': None, 'proj/a/b+c': None}, 6), 'directed:plus-in-name'
    yield orders_case(rng, [('proj/sub', 'r1', ['../x', 'x']), ('proj', 'r2', ['x', 'sub/x', 'sub/../x']), ('other', 'r3', ['x'])],
                      {'x': None, 'proj/x': 'deep/x', 'pipelines/sub/x': None, 'deep/x': None, 'proj/deep/x': None}, 6), \
        'directed:dotdot-and-pipelines-dir'
    yield orders_case(rng, [('proj', 'r1', ['sub/x']), ('proj/sub', 'r2', ['x']), ('proj/sub', 'r3', ['missing'])],
                      {'sub/x': 'g', 'x': None, 'pipelines/x': None, 'g': None, 'sub/g': None, 'pipelines/sub/g': None}, 6), 'directed:grandchild-and-missing'
    for _ in range(env.n(22, 300)):
        nroots = rng.randint(2, 4)
        roots, files = [], {}
        dirs = rng.sample(ROOT_DIRS, rng.randint(2, min(4, len(ROOT_DIRS))))
        names = rng.sample(CHILD_NAMES, rng.randint(2, 5))
        for j in range(nroots):
            d = rng.choice(dirs)
            children = [rng.choice(names) for _ in range(rng.randint(1, 3))]
            roots.append((d, f'r{j}', children))
            for c in children:
                # candidate locations of the child file: next to the parent, cwd, cwd/pipelines
                cands = [norm_rel(f'{d}/{c}'), norm_rel(c), norm_rel(f'pipelines/{c}')]
                cands = [x for x in cands if not x.startswith('..')]
                for x in cands:
                    if rng.random() < 0.4:
                        g = rng.choice(GRAND_NAMES) if rng.random() < 0.25 else None
                        files.setdefault(x, g)
                        if files[x] == g and g:
                            here = os.path.dirname(x)
                            for y in (norm_rel(f'{here}/{g}'), norm_rel(g), norm_rel(f'pipelines/{g}')):
                                if not y.startswith('..') and rng.random() < 0.45:
                                    files.setdefault(y, None)
        yield orders_case(rng, roots, files, env.n(3, 8)), "random"


def write_layout(cwd, files):
    for rel, text in files.items():
        f = cwd / rel
        f.parent.mkdir(parents=True, exist_ok=True)
        f.write_text(text)


def run_root(sb, cwd, root):
    import pypyr.pipelinerunner as pr
    tr = I.SoloTrace()
    sb.vobs.HOOK = tr.hook
    name = str(cwd / root['name']) if root.get('abs') else root['name']
    try:
        try:
            ctx = pr.run(name, dict_in={'seen': ['start'], 'who': root['name']})
            outcome = 'ok'
        except Exception as e:    # noqa: BLE001 - the run's own outcome
            ctx, outcome = None, {'err': common.exc_name(e), 'msg': str(e).replace(str(cwd), '<cwd>')}
    finally:
        sb.vobs.HOOK = None
    return {'trace': [I.norm(x) for x in tr.trace], 'outcome': outcome,
            'final': I.norm(I.wire(dict(ctx))) if ctx is not None else None}


def requests_of(cwd, case):
    """Every (parent dir, child name) request the roots make, transitively, found with pypyr's own
    search function. Returns [(parent Path, name, resolved Path or None)]."""
    from pypyr.loaders.file import get_pipeline_path
    from pypyr.errors import PipelineNotFoundError
    out, seen = [], set()
    todo = [(cwd / r['dir'], c) for r in case['roots'] for c in r['children']]
    while todo:
        parent, name = todo.pop()
        if (str(parent), name) in seen:
            continue
        seen.add((str(parent), name))
        try:
            path = get_pipeline_path(pipeline_name=name, parent=parent)
        except PipelineNotFoundError:
            path = None
        out.append((parent, name, path))
        if path is not None:
            rel = str(path.relative_to(cwd))[:-5] if str(path).startswith(str(cwd)) else None
            g = case.get('grand', {}).get(rel)
            if g:
                todo.append((path.parent, g))
    return out


def check_cached_requests(sb, cwd, case, when):
    """The definition the cache hands out for (parent, name) is what the loader produces for it."""
    from pypyr.cache.loadercache import loader_cache
    from pypyr.loaders.file import load_pipeline_from_file
    from pypyr.errors import PipelineNotFoundError
    loader = loader_cache.get_pype_loader(None)
    out = []
    for parent, name, path in requests_of(cwd, case):
        try:
            got = I.wire(loader.get_pipeline(name=name, parent=parent).pipeline)
        except PipelineNotFoundError:
            got = None
        want = I.wire(load_pipeline_from_file(path).pipeline) if path is not None else None
        if (got is None) != (want is None) or (got is not None and diff_path(want, got) is not None):
            rel = str(path.relative_to(cwd)) if path is not None else 'no file'
            out.append((f'{when}: the cached definition for (parent={parent.relative_to(cwd)}, name={name}) is not what the '
                        f'loader produces for that request ({rel})',
                        {'monitor': 'cached-definition-differs-from-loader', 'site': 'pipeline-cache'}))
            break
    return out


def check_orders(env, res, sb, case, tag='replay'):
    import pypyr.moduleloader as ml
    sb.ensure_vobs()
    cwd = sb.scratch()
    saved_path, saved_known = list(sys.path), set(getattr(ml, '_known_dirs', ()))
    found = []
    nruns = 0
    try:
        write_layout(cwd, case['files'])
        with I.CwdControl(cwd) as cc:
            if not cc.ok:
                res.count('orders:skipped-cannot-control-cwd')
                return
            solo = []
            for root in case['roots']:
                sb.admin.clear_all()
                solo.append(run_root(sb, cwd, root))
                found += check_cached_requests(sb, cwd, case, f"after the solo run of {root['name']}")
                nruns += 1
            for order in case['orders']:
                sb.admin.clear_all()
                hist = []
                for ri in order:
                    o = run_root(sb, cwd, case['roots'][ri])
                    hist.append(case['roots'][ri]['name'])
                    nruns += 1
                    for what in ('trace', 'outcome', 'final'):
                        if canon(solo[ri][what]) != canon(o[what]):
                            found.append((
                                f"{case['roots'][ri]['name']} run after {hist[:-1]} (same process, caches on) differs from its run "
                                f"in a fresh cache in its {what}" + (f' at {diff_path(solo[ri][what], o[what])}: '
                                                                     f'{json.dumps(o[what])[:160]} vs solo {json.dumps(solo[ri][what])[:160]}'
                                                                     if what != 'outcome' else f': {o[what]} vs solo {solo[ri][what]}'),
                                {'monitor': 'order-dependent', 'what': what}))
                            break
                found += check_cached_requests(sb, cwd, case, f'after the history {hist}')
            sb.admin.clear_all()
    finally:
        sys.path[:] = saved_path
        if hasattr(ml, '_known_dirs'):
            ml._known_dirs.clear()
            ml._known_dirs.update(saved_known)
        shutil.rmtree(cwd, ignore_errors=True)
    res.case(case)
    res.count('orders:' + tag)
    res.count('orders:runs', nruns)
    res.count('orders:roots=' + str(len(case['roots'])))
    for o in solo:
        res.count('orders:solo-outcome:' + ('ok' if o['outcome'] == 'ok' else o['outcome']['err']))
    seen = set()
    for detail, sig in found:
        if canon(sig) in seen:
            continue
        seen.add(canon(sig))
        res.violation(case, detail, signature=sig, impl={'solo': [{'outcome': o['outcome'], 'final': o['final']} for o in solo]})


# ---------------------------------------------------------------------------------------------
# (b3) the loaders themselves: a definition loaded after a history = the definition loaded first
# ---------------------------------------------------------------------------------------------
#
# The model takes "what the loaders produced" as given and assumes the loader is a function of the file text
# alone (`Loader.TextOnly`, lean/PypyrModel/LoadHist.lean; Props/C12.lean section 11 proves what follows from
# it). This stream checks the ASSUMPTION on the real loaders. A case is 2-5 pipeline texts (real files, some
# handed to pypyr.loaders.string as text) that carry what a yaml parser keeps state about - `%YAML` / `%TAG`
# directives, document markers, anchors / aliases / merge keys, tags - and plain scalars whose reading depends on
# that state (yes/no/on/off/y/n, sexagesimals, leading-zero / 0o / underscore numbers, timestamps, ~ …), in values,
# keys, foreach items and decorator values; some pipelines pype others. Reference: every text is loaded
# (through the loader cache, as a run does) and then run ALONE in a pristine process (impl_c12.Pristine: a helper
# that has imported the tree under test and done nothing else; one forked child per text). In the harness process
# the texts are run in several orders with repeats and cache clears in between (cache misses in varying orders on
# top of whatever the process has loaded before); after every run the definition the cache holds for every
# request made so far, and at the end of every order the loader function called past the cache for every text, must
# be deep-equal - classes and tags included - to the pristine load, and every run's outcome and final context equal to
# the pristine run.

Y_SENSITIVE = ['no', 'yes', 'on', 'off', 'y', 'n', 'Y', 'N', 'No', 'YES', 'On', 'OFF', 'true', 'False', '1:30', '190:20:30',
               '-1:30', '1:30.5', '0755', '0o17', '017', '0b101', '0x1F', '1_000', '0x_1f', '+12', '1e3', '1.5e+3',
               '685_230.15', '.inf', '-.INF', '.nan', '~', 'null', '2001-12-14', '2001-12-14 21:59:43.10 -5', '=', '1.',
               '.5', '12e03', '0o8', '08', '1__0', '0b1_1']
Y_NEUTRAL = ["'no'", '"1:30"', 'se', 'dk', '12', 'abc def', '!!str no', '!!int "12"', '!!bool "yes"', '!!float 1', "'0755'",
             '!!str 0755', '3.25', 'x1']
Y_TAGGED = ['!sic "{seen}"', '!py len(seen)', '!jsonify {a: 1}', '!!set {a, b}', '!!str 1:30', '!e!thing v', '!local v',
            '!!timestamp 2001-12-14']
Y_KEYS = ['n', 'y', 'no', 'on', '0755', '1:30', '~', '1_0', 'plain', 'k']
Y_HEADERS = [('', 50), ('%YAML 1.1\n---\n', 20), ('%YAML 1.2\n---\n', 10), ('---\n', 6),
             ('%TAG !e! tag:example.com,2000:app/\n---\n', 6), ('%YAML 1.1\n%TAG !e! tag:example.com,2000:app/\n---\n', 4),
             ('# a comment first\n%YAML 1.1\n--- # marker with a comment\n', 4)]


def y_scalar(rng, sens=0.6):
    r = rng.random()
    if r < sens:
        return rng.choice(Y_SENSITIVE)
    if r < sens + 0.08:
        return rng.choice(Y_TAGGED)
    return rng.choice(Y_NEUTRAL)


def y_flow(rng, n=None):
    return '[' + ', '.join(rng.choice(Y_SENSITIVE + ['se', 'dk']) for _ in range(n or rng.randint(1, 4))) + ']'


def load_text(rng, marker, children=(), header=None, plain=False):
    """One pipeline text. `plain` = nothing in it depends on parser state (a control)."""
    if header is None:
        header = '' if plain else rng.choices([h for h, _ in Y_HEADERS], [w for _, w in Y_HEADERS])[0]
    sens = 0.0 if plain else 0.6
    L = [header + '# ' + marker, 'steps:']
    anchored = False
    for _ in range(rng.randint(1, 3)):
        k = rng.random()
        if k < 0.45:
            L += ['  - name: pypyr.steps.set', '    in:', '      set:']
            for j in range(rng.randint(1, 4)):
                r = rng.random()
                if r < 0.5:
                    L.append(f'        v{j}: {y_scalar(rng, sens)}')
                elif r < 0.65:
                    L.append(f'        v{j}: {y_flow(rng) if not plain else "[se, dk]"}')
                elif r < 0.75 and not plain:
                    L.append(f'        v{j}: {{{rng.choice(Y_KEYS)}: {rng.choice(Y_SENSITIVE)}, z: 1}}')
                elif r < 0.85 and not plain and not anchored:
                    anchored = True
                    L += [f'        v{j}: &b{marker} {{mode: {rng.choice(Y_SENSITIVE)}, flag: {rng.choice(Y_SENSITIVE)}}}',
                          f'        w{j}: *b{marker}', f'        m{j}:', f'          <<: *b{marker}',
                          f'          extra: {rng.choice(Y_SENSITIVE)}']
                elif r < 0.9 and not plain:
                    L.append(f'        {rng.choice(Y_KEYS)}: {y_scalar(rng, sens)}')
                elif r < 0.93 and not plain:
                    L.append(f'        v{j}: *undefined{j}')
                else:
                    L += [f'        v{j}: |', f'          no', f'          1:30']
        elif k < 0.7:
            L += ['  - name: pypyr.steps.append', f'    foreach: {y_flow(rng) if not plain else "[se, dk]"}',
                  '    in: {append: {list: seen, addMe: "' + marker + ':{i}"}}']
        else:
            L += ['  - name: pypyr.steps.append', '    in: {append: {list: seen, addMe: ' + marker + '}}']
            if not plain:
                L.append(f'    {rng.choice(["run", "skip", "swallow"])}: {rng.choice(["on", "off", "yes", "no", "y", "n", "true", "1", "0"])}')
    for c in children:
        L += ['  - name: pypyr.steps.pype', '    in: {pype: {name: ' + c + '}}']
    L.append('  - name: pypyr.steps.append')
    L.append('    in: {append: {list: seen, addMe: end-' + marker + '}}')
    text = '\n'.join(L) + '\n'
    if not plain and rng.random() < 0.08:
        text += '...\n'
    return text


def loads_case(rng, texts, loaders, children, orders):
    files = [{'name': f'p{i}', 'text': t, 'loader': loaders[i], 'children': list(children.get(i, []))}
             for i, t in enumerate(texts)]
    return {'kind': 'loads', 'files': files, 'orders': orders}


LEGACY = '%YAML 1.1\n---\n# exported by older tooling\nsteps:\n  - name: pypyr.steps.set\n    in:\n      set:\n        legacyDone: true\n'
REPORT = ('steps:\n  - name: pypyr.steps.set\n    in:\n      set:\n        countries: [se, no, dk]\n        window: 1:30\n'
          '        mode: 0755\n  - name: pypyr.steps.append\n    foreach: [se, no, dk]\n    in:\n      append:\n'
          '        list: seen\n        addMe: \'{i}\'\n')
V12 = '%YAML 1.2\n---\nsteps:\n  - name: pypyr.steps.set\n    in: {set: {modern: yes, n: 0o17}}\n'
DECOS = ('steps:\n  - name: pypyr.steps.append\n    in: {append: {list: seen, addMe: a}}\n    run: on\n'
         '  - name: pypyr.steps.append\n    in: {append: {list: seen, addMe: b}}\n    skip: n\n'
         '  - name: pypyr.steps.assert\n    in: {assert: {this: false}}\n    swallow: yes\n'
         '  - name: pypyr.steps.append\n    in: {append: {list: seen, addMe: c}}\n')
KEYS = 'steps:\n  - name: pypyr.steps.set\n    in:\n      set:\n        n: 1\n        0755: x\n        k: {y: 2, 1:30: z}\n'
TAGDEF = '%TAG !e! tag:example.com,2000:app/\n---\nsteps:\n  - name: pypyr.steps.set\n    in: {set: {t: !e!thing v}}\n'
TAGUSE = 'steps:\n  - name: pypyr.steps.set\n    in: {set: {u: !e!thing w, l: !local x}}\n'
ANCDEF = 'steps:\n  - name: pypyr.steps.set\n    in:\n      set:\n        a: &shared [1, 2]\n        b: *shared\n'
ANCUSE = 'steps:\n  - name: pypyr.steps.set\n    in:\n      set:\n        c: *shared\n'
PARENT = 'steps:\n  - name: pypyr.steps.pype\n    in: {pype: {name: p1}}\n  - name: pypyr.steps.set\n    in: {set: {after: no}}\n'


def load_cases(env):
    rng = env.rng
    F, S = 'file', 'string'
    yield loads_case(rng, [LEGACY, REPORT], [F, F], {}, [[1, 0, 1], [0, 1], ['clear', 1, 0, 'clear', 1], [{'par': [0, 1, 0, 1]}, 1]]), 'directed:yaml11-then-plain'
    yield loads_case(rng, [LEGACY, REPORT], [S, F], {}, [[0, 1], [1, 0, 1]]), 'directed:yaml11-string-loader-then-file'
    yield loads_case(rng, [LEGACY, REPORT], [F, S], {}, [[0, 1], [1, 0, 1]]), 'directed:yaml11-file-then-string-loader'
    yield loads_case(rng, [PARENT, LEGACY, REPORT], [F, F, F], {0: ['p1']}, [[0, 2], [2, 0], [1, 2]]), 'directed:yaml11-pype-child'
    yield loads_case(rng, [LEGACY, V12, REPORT], [F, F, F], {}, [[0, 1, 2], [0, 2, 1], [1, 0, 2]]), 'directed:yaml12-flips-back'
    yield loads_case(rng, [LEGACY, DECOS, KEYS], [F, F, F], {}, [[0, 1, 2], [1, 2, 0], [2, 0, 1, 'clear', 1]]), 'directed:decorators-and-keys'
    yield loads_case(rng, [TAGDEF, TAGUSE], [F, F], {}, [[0, 1], [1, 0], [0, 'clear', 1]]), 'directed:tag-handles'
    yield loads_case(rng, [ANCDEF, ANCUSE], [F, F], {}, [[0, 1], [1, 0]]), 'directed:anchors'
    for _ in range(env.n(26, 400)):
        n = rng.randint(2, 5)
        children, texts, loaders = {}, [], []
        for i in range(n):
            loaders.append(S if rng.random() < 0.25 else F)
        for i in range(n):
            if loaders[i] == F and rng.random() < 0.3:
                cands = [j for j in range(i + 1, n) if loaders[j] == F]
                if cands:
                    children[i] = [f'p{j}' for j in rng.sample(cands, rng.randint(1, min(2, len(cands))))]
            texts.append(load_text(rng, f'm{i}', children.get(i, ()), plain=rng.random() < 0.15))
        orders = []
        for _ in range(env.n(3, 5)):
            o = [rng.randrange(n) for _ in range(rng.randint(2, n + 2))]
            if rng.random() < 0.4:
                o.insert(rng.randint(1, len(o)), 'clear')
            orders.append(o)
        if rng.random() < 0.5:
            par = [rng.randrange(n) for _ in range(rng.randint(2, 4))]
            orders.append([{'par': par}] + [rng.randrange(n) for _ in range(rng.randint(0, 2))])
        yield loads_case(rng, texts, loaders, children, orders), 'random'


def run_parallel(specs, root, timeout=20):
    import threading
    out = [{'err': 'run-never-returned'} for _ in specs]
    gate = threading.Barrier(len(specs))

    def work(k):
        try:
            gate.wait(5)
        except threading.BrokenBarrierError:
            pass
        out[k] = I.load_probe(specs[k], root)
    ts = [threading.Thread(target=work, args=(k,), daemon=True) for k in range(len(specs))]
    old = sys.getswitchinterval()
    sys.setswitchinterval(1e-5)
    try:
        for t in ts:
            t.start()
        for t in ts:
            t.join(timeout)
    finally:
        sys.setswitchinterval(old)
    return out


_PRISTINE = {}


def pristine():
    z = _PRISTINE.get(os.getpid())
    if z is None or z.p is None:
        for k in list(_PRISTINE):
            _PRISTINE.pop(k)          # a helper inherited through fork belongs to the parent
        z = _PRISTINE[os.getpid()] = I.Pristine()
    return z


def close_pristine():
    z = _PRISTINE.pop(os.getpid(), None)
    if z is not None:
        z.close()


LOAD_SIG = {'monitor': 'load-depends-on-history', 'site': 'pipeline-loader'}


def typed_diff(a, b, path=()):
    """First place at which two `impl_c12.typed` snapshots differ: (path, there in a, there in b)."""
    if canon(a) == canon(b):
        return None
    if isinstance(a, dict) and isinstance(b, dict) and a.get('T') == b.get('T') and a.get('tag') == b.get('tag'):
        for f in ('d', 'l', 's'):
            if f in a and f in b and len(a[f]) == len(b[f]):
                for i, (x, y) in enumerate(zip(a[f], b[f])):
                    if f == 'd':
                        if canon(x[0]) != canon(y[0]):
                            return list(path) + ['key#%d' % i], x[0], y[0]
                        d = typed_diff(x[1], y[1], path + (x[0][1] if isinstance(x[0], list) and len(x[0]) == 2 else i,))
                    else:
                        d = typed_diff(x, y, path + (i,))
                    if d is not None:
                        return d
        if 'value' in a and 'value' in b:
            d = typed_diff(a['value'], b['value'], path + ('value',))
            if d is not None:
                return d
    return list(path), a, b


def load_diff(want, got):
    """want / got: observations of impl_c12.load_probe."""
    for f in ('def', 'final'):
        if f in want and f in got:
            d = typed_diff(want[f], got[f])
            if d is not None:
                return f'at {d[0]}: {json.dumps(d[2])[:160]} here vs {json.dumps(d[1])[:160]} alone in a pristine process'
    return f'{json.dumps(got)[:200]} here vs {json.dumps(want)[:200]} alone in a pristine process'


def check_loads(env, res, sb, case, tag='replay'):
    import pypyr.moduleloader as ml
    sb.ensure_vobs()
    cwd = sb.scratch()
    root = str(cwd)
    saved_path, saved_known = list(sys.path), set(getattr(ml, '_known_dirs', ()))
    files = case['files']
    found, nruns, nloads = [], 0, 0

    def target(i):
        f = files[i]
        return f['text'] if f['loader'] == 'string' else str(cwd / f['name'])

    def spec(do, i, as_child_of=None):
        f = files[i]
        if as_child_of is not None:
            return {'do': do, 'loader': 'file', 'name': f['name'], 'parent': root}
        return {'do': do, 'loader': f['loader'], 'name': target(i), 'parent': None}

    index = {f['name']: i for i, f in enumerate(files)}

    def closure(i, acc):
        """Requests a run of file i makes: [(file index, parent-or-None)]."""
        for c in files[i]['children']:
            j = index[c]
            if (j, i) not in acc:
                acc.append((j, i))
                closure(j, acc)
        return acc

    def short(o):
        return json.dumps(o)[:200]

    try:
        for f in files:
            if f['loader'] == 'file':
                (cwd / (f['name'] + '.yaml')).write_text(f['text'])
        ref = pristine().jobs([[spec('get', i), spec('run', i)] for i in range(len(files))], root)
        for i, r in enumerate(ref):
            if not isinstance(r, list):
                raise common.Infra(f'C12 loads: the pristine process gave no result for text {i}: {r}')
        ref_def = [r[0] for r in ref]
        ref_run = [r[1] for r in ref]
        hist = []          # everything this case has done in this process so far (the orders follow one another)
        for order in case['orders']:
            sb.admin.clear_all()
            if hist:
                hist.append('clear')
            requested = []
            for item in order:
                if item == 'clear':
                    sb.admin.clear_all()
                    hist.append('clear')
                    requested = []
                    continue
                if isinstance(item, dict):
                    # the same loads at the same time: one thread per text, free-running with a very short switch
                    # interval (what a correct loader returns does not depend on the interleaving; which
                    # interleavings occur is up to the interpreter)
                    idxs = item['par']
                    got_par = run_parallel([spec('run', i) for i in idxs], root)
                    label = 'par[' + ','.join(files[i]['name'] for i in idxs) + ']'
                    nruns += len(idxs)
                    for i, g in zip(idxs, got_par):
                        if canon(g) != canon(ref_run[i]):
                            found.append((f"{files[i]['name']} run on a thread of its own at the same time as the other runs of {label}, after "
                                          f"{hist}, differs from its run alone in a pristine process, {load_diff(ref_run[i], g)}",
                                          dict(LOAD_SIG, what='run-concurrent')))
                            break
                    hist.append(label)
                    for i in idxs:
                        for q in [(i, None)] + closure(i, []):
                            if q not in requested:
                                requested.append(q)
                    continue
                got = I.load_probe(spec('run', item), root)
                nruns += 1
                hist.append(files[item]['name'])
                if canon(got) != canon(ref_run[item]):
                    what = 'outcome' if got.get('err') != ref_run[item].get('err') or 'err' in got else 'final context'
                    found.append((f"{files[item]['name']} run after {hist[:-1]} in this process differs in its {what} from its run alone "
                                  f"in a pristine process, {load_diff(ref_run[item], got)}",
                                  dict(LOAD_SIG, what='run-' + what.split()[0])))
                for q in [(item, None)] + closure(item, []):
                    if q not in requested:
                        requested.append(q)
                # every definition the cache holds for the requests made so far (cache hits: no new load)
                for j, par in requested:
                    c = I.load_probe(spec('get', j, par), root)
                    nloads += 1
                    if canon(c) != canon(ref_def[j]):
                        found.append((f"after the history {hist} the cached definition of {files[j]['name']}"
                                      + (f" (as child of {files[par]['name']})" if par is not None else '')
                                      + f" is not what its loader produces for that text alone: {load_diff(ref_def[j], c)}",
                                      dict(LOAD_SIG, what='cached-definition')))
                        break
            # the loader function past every cache, after this history
            for j in range(len(files)):
                d = I.load_probe(spec('direct', j), root)
                nloads += 1
                if canon(d) != canon(ref_def[j]):
                    found.append((f"the loader called for {files[j]['name']} after the history {hist} does not give the definition it gives "
                                  f"first: {load_diff(ref_def[j], d)}",
                                  dict(LOAD_SIG, what='direct-load')))
                    break
        sb.admin.clear_all()
    finally:
        sys.path[:] = saved_path
        if hasattr(ml, '_known_dirs'):
            ml._known_dirs.clear()
            ml._known_dirs.update(saved_known)
        shutil.rmtree(cwd, ignore_errors=True)
    res.case(case)
    res.count('loads:' + tag)
    res.count('loads:runs', nruns)
    res.count('loads:definition-comparisons', nloads)
    res.count('loads:texts=' + str(len(files)))
    for f, r, d in zip(files, ref_run, ref_def):
        res.count('loads:loader=' + f['loader'])
        res.count('loads:pristine-run:' + ('ok' if 'err' not in r else r['err']))
        res.count('loads:pristine-load:' + ('ok' if 'err' not in d else d['err']))
        for h in ('%YAML 1.1', '%YAML 1.2', '%TAG'):
            if h in f['text'].split('steps:')[0]:
                res.count('loads:directive:' + h)
    seen = set()
    for detail, sig in found:
        if canon(sig) in seen:
            continue
        seen.add(canon(sig))
        res.violation(case, detail, signature=sig, impl={'pristine': [{'load': short(d), 'run': short(r)} for d, r in zip(ref_def, ref_run)]})


# ---------------------------------------------------------------------------------------------
# entry points
# ---------------------------------------------------------------------------------------------

# ---------------------------------------------------------------------------------------------
# (a2) yaml tag objects as arguments: !jsonify over mappings / sequences (nested), !py, !sic as `in` arguments at any
# depth, decorator values, foreach items, onError, pype args, set / default values; steps that change the payload of
# a tag object in place; re-runs, a thread, definition deep-equality and the id() monitor after every step
# ---------------------------------------------------------------------------------------------

TAG_VALUES = [
    '!jsonify {kind: report, tags: [base]}', '!jsonify [1, [2, 3], {k: [v]}]', '!jsonify {a: {b: {c: [1]}}, l: []}',
    '!jsonify {inner: !sic "{raw}", l: [!py "1+1", {m: []}]}', '!jsonify []', '!jsonify {}', '!jsonify 5',
    '!jsonify "txt"', '!sic "{raw} text"', '!py "[1, [2]]"', '!py "tag"', '!jsonify [[[]]]',
    '!jsonify {k: &A [1, 2], again: *A}',
]
TAG_SCALARS = ['!py "1 + 1"', '!py "True"', '!sic "x"', '!jsonify 2']
TAG_POSITIONS = ['in_top', 'in_dict', 'in_list', 'in_deep', 'in_saved', 'in_failing', 'foreach', 'foreach_nested',
                 'onerror', 'pype_args', 'pype_args_parent', 'set', 'default', 'decorators', 'in_two_steps']


def tag_step(pos, T, rng):
    """(yaml text of the steps, child pipeline text or None)."""
    S = rng.choice(TAG_SCALARS)
    P = '  - vpoison\n'
    if pos == 'in_top':
        return f'  - name: vpoison\n    in:\n      body: {T}\n', None
    if pos == 'in_dict':
        return f'  - name: vpoison\n    in:\n      cfg:\n        x: 1\n        body: {T}\n        more: [{T}]\n', None
    if pos == 'in_list':
        return f'  - name: vpoison\n    in:\n      cfg:\n        - 0\n        - {T}\n        - - {T}\n', None
    if pos == 'in_deep':
        return f'  - name: vpoison\n    in:\n      cfg: {{a: {{b: [{{c: {T}}}]}}}}\n', None
    if pos == 'in_saved':      # the block keeps the argument object in context beyond the step
        return (f'  - name: pypyr.steps.py\n    in:\n      body: {T}\n      py: |\n        kept = body\n        save("kept")\n' + P), None
    if pos == 'in_failing':    # a failing step leaves its `in` arguments where they are
        return (f'  - name: pypyr.steps.assert\n    swallow: True\n    in:\n      body: {T}\n      assert:\n        this: False\n' + P), None
    if pos == 'foreach':
        return f'  - name: vpoison\n    foreach:\n      - {T}\n      - {T}\n', None
    if pos == 'foreach_nested':
        return f'  - name: vpoison\n    foreach:\n      - [{T}, [x]]\n      - {{k: {T}, l: []}}\n', None
    if pos == 'onerror':
        return (f'  - name: pypyr.steps.assert\n    swallow: True\n    onError:\n      info: {T}\n      l: [{T}]\n'
                f'    in:\n      assert:\n        this: False\n' + P), None
    if pos in ('pype_args', 'pype_args_parent'):
        use = 'True' if pos.endswith('parent') else 'False'
        return (f'  - name: pypyr.steps.pype\n    in:\n      pype:\n        name: tagchild\n        useParentContext: {use}\n'
                f'        args:\n          x: {T}\n          l: [{T}]\n          tag: "{{tag}}"\n' + P), 'steps:\n  - vpoison\n'
    if pos == 'set':
        return f'  - name: pypyr.steps.set\n    in:\n      set:\n        k: {T}\n        m: {{n: [{T}]}}\n' + P, None
    if pos == 'default':
        return f'  - name: pypyr.steps.default\n    in:\n      defaults:\n        k: {T}\n        m: {{n: [{T}]}}\n' + P, None
    if pos == 'decorators':
        return (f'  - name: vpoison\n    run: {S}\n    skip: !py "False"\n    retry:\n      max: {S}\n    in:\n      body: {T}\n'
                f'  - name: vpoison\n    while:\n      max: !py "1 + 1"\n    in:\n      body: {T}\n'), None
    # in_two_steps: the same anchored payload under two steps
    return (f'  - name: vpoison\n    in:\n      body: &P {T.replace("&A", "&B").replace("*A", "*B")}\n'
            f'  - name: vpoison\n    in:\n      other: *P\n'), None


def tag_cases(env):
    rng = env.rng
    out = []
    for j, pos in enumerate(TAG_POSITIONS):          # directed: every position, payloads in rotation
        for T in (TAG_VALUES[j % len(TAG_VALUES)], TAG_VALUES[(j + 3) % 4], TAG_VALUES[(3 * j + 1) % len(TAG_VALUES)]):
            out.append((pos, [T]))
    for _ in range(env.n(40, 3000)):
        out.append((rng.choice(TAG_POSITIONS), None))
    for pos, ts in out:
        nsteps = 1 if ts else rng.choice([1, 1, 2, 3])
        text, child = 'steps:\n', None
        poss = [pos] + [rng.choice(TAG_POSITIONS) for _ in range(nsteps - 1)]
        for q in poss:
            T = ts[0] if ts else rng.choice(TAG_VALUES)
            if q == 'in_two_steps' and '&' in T and len(poss) > 1:
                T = TAG_VALUES[0]
            st, ch = tag_step(q, T, rng)
            text += st
            child = child or ch
        n_anchor = [0]

        def renumber(m):
            if m.group(0) == '&A':
                n_anchor[0] += 1
            return f'{m.group(0)[0]}A{n_anchor[0]}'
        text = re.sub(r'[&*]A\b', renumber, text)
        pipes = {'tagpipe': text}
        if child:
            pipes['tagchild'] = child
        tags = ['a', 'b', 'a'] if ts else [rng.choice('abc') for _ in range(rng.choice([2, 3, 4]))]
        yield ({'kind': 'tags', 'pipes': pipes, 'positions': poss, 'tags': tags, 'thread': True,
                'via': 'runner' if ts else pick_via(rng), 'post_poison': bool(ts) or rng.random() < 0.5},
               'directed:' + pos if ts else 'random')


def check_tags(env, res, sb, case, tag='replay'):
    import threading
    names = list(case['pipes'])
    sb.install(case['pipes'], {})
    baseline = {n: I.wire(sb.fresh(n)) for n in names}
    bodies = sb.load(names)
    cfg0 = config_wire(sb)
    shared = I.SharedIndex(names, bodies, sb.config)
    via = case.get('via', 'runner')
    found, runs = [], []
    poison = sb_poison(sb)

    def one(k, t, where):
        with I.StepObserver(shared) as so:
            outcome, ctx = sb.run('tagpipe', dict_in={'tag': t, 'raw': 'r'}, via=via, key=0)
            if ctx is not None:
                so.record(ctx, '<final>')
            elif so.first_ctx is not None:
                so.record(so.first_ctx, '<final>')
        final = I.norm(so.events[-1]['ctx']) if so.events else None
        for j, ev in enumerate(so.events):
            res.count('tags:shared-immutable-object-held (not reported)', len(ev.get('frozen', ())))
            if ev['labels']:
                found.append((f"{where}, after step #{j} ({ev['step']}): the context reaches, by reference, object(s) of the "
                              f"cached definition {ev['labels'][:3]} (looking inside tag objects / object attributes); the "
                              'pipeline changes what it reaches in place',
                              dict(signature_for_labels(ev['labels'], 'tags'),
                                   inside_object=any(any(str(p).startswith('.') for p in lb['path']) for lb in ev['labels']))))
                break
        found.extend(check_shared_unchanged(sb, names, baseline, cfg0, f'after {where}'))
        if case.get('post_poison') and sb.last_live is not None:
            # the caller goes on working with the context it got back: in-place changes everywhere (the run is over)
            poison(list(dict.values(sb.last_live)), 'post')
            found.extend(check_shared_unchanged(sb, names, baseline, cfg0, f'after {where} and an in-place change of '
                                                                        'everything its final context reaches'))
        return {'tag': t, 'outcome': outcome, 'final': final, 'steps': [I.norm(e['ctx']) for e in so.events]}
    for k, t in enumerate(case['tags']):
        runs.append(one(k, t, f'run {k + 1} (tag {t})'))
    if case.get('thread'):
        box = {}
        th = threading.Thread(target=lambda: box.update(r=one(len(runs), case['tags'][0], 'the run on another thread')), daemon=True)
        th.start()
        th.join(20)
        if 'r' in box:
            runs.append(box['r'])
        else:
            found.append(('a run of the pipeline on another thread did not come back within 20 s',
                          {'monitor': 'rerun-differs', 'stream': 'tags', 'effect': 'never-returned'}))
    first = {}
    for k, r in enumerate(runs):
        if r['tag'] in first:
            a = runs[first[r['tag']]]
            if canon(a['outcome']) != canon(r['outcome']) or canon(a['steps']) != canon(r['steps']):
                d = diff_path(a['final'], r['final']) if a['final'] is not None and r['final'] is not None else None
                found.append((f"run {k + 1} of the same pipeline with an equal initial context (tag {r['tag']}) differs from run "
                              f"{first[r['tag']] + 1}" + (f' at context{list(d)}' if d else ' (outcome / step trace)')
                              + (' - on another thread' if case.get('thread') and k == len(runs) - 1 else ''),
                              {'monitor': 'rerun-differs', 'stream': 'tags'}))
        else:
            first[r['tag']] = k
    res.case(case)
    res.count('tags:' + tag.split(':')[0])
    for q in case['positions']:
        res.count('tags:position:' + q)
    res.count('tags:runs', len(runs))
    res.count('tags:runs-that-changed-something-in-place', sum(1 for r in runs if r['final'] and 'poisoned' in canon(r['final'])))
    seen = set()
    for detail, sig in found:
        if canon(sig) in seen:
            continue
        seen.add(canon(sig))
        res.violation(case, detail, signature=sig,
                      impl={'runs': [{'tag': r['tag'], 'outcome': r['outcome'], 'final': r['final']} for r in runs],
                            'pipeline': case['pipes']['tagpipe']})


def sb_poison(sb):
    import importlib
    return importlib.import_module('vpoison').poison


CHECKERS = {'alias': check_alias, 'history': check_history, 'orders': check_orders, 'loads': check_loads, 'threads': check_threads,
            'tags': check_tags}


CASE_TIMEOUT_S = float(os.environ.get('C12_CASE_TIMEOUT_S', '30'))     # a case takes well under a second
MAX_BROKEN_CASES = 12
MAX_TIMEOUTS = 2


class CaseTimeout(BaseException):
    """The time limit of one case ran out (BaseException: no `except Exception` of the code under test
    or of the harness swallows it)."""


def _alarm(signum, frame):
    raise CaseTimeout()


def _from_repo(exc):
    import traceback
    frames = traceback.extract_tb(exc.__traceback__)
    hits = [f for f in frames if str(f.filename).startswith(str(common.REPO))]
    return hits[-1] if hits else None


def _run_cases(env, res, cases):
    """Every case with a wall-clock limit. A case that does not come back, or out of which the code under
    test raises something no stream classifies (a loader that fails, a constructor that rejects its
    arguments, unbounded recursion), is a finding of the correspondence with that case as its input -
    never a hang or a crash of the check."""
    import signal
    import threading
    can_alarm = hasattr(signal, 'SIGALRM') and threading.current_thread() is threading.main_thread()
    sb = I.Sandbox()
    broken = timeouts = 0
    old = signal.signal(signal.SIGALRM, _alarm) if can_alarm else None
    todo = [(case, tag, CASE_TIMEOUT_S) for case, tag in cases]
    todo.reverse()
    try:
        while todo:
            case, tag, limit = todo.pop()
            if env.out_of_time() or broken >= MAX_BROKEN_CASES or timeouts >= MAX_TIMEOUTS:
                break
            try:
                if can_alarm:
                    signal.setitimer(signal.ITIMER_REAL, limit)
                try:
                    CHECKERS[case['kind']](env, res, sb, case, tag)
                finally:
                    if can_alarm:
                        signal.setitimer(signal.ITIMER_REAL, 0)
            except CaseTimeout:
                sb = _new_sandbox(sb, env)
                if limit == CASE_TIMEOUT_S:
                    # a loaded machine can stall a case: it gets one more try with twice the time
                    res.count('broken:timeout-retried')
                    todo.append((case, tag, 2 * CASE_TIMEOUT_S))
                    continue
                broken += 1
                timeouts += 1
                res.case(case)
                res.count('broken:timeout')
                res.mismatch(case, {'returns': True}, {'returns': False},
                             note=f"a {case['kind']} case did not finish within {CASE_TIMEOUT_S:.0f}s and, tried again, within "
                                  f"{limit:.0f}s (the model's runs all end)")
            except (common.Infra, common.Reject, KeyboardInterrupt):
                raise
            except Exception as e:      # noqa: BLE001
                at = _from_repo(e)
                if at is None:
                    raise
                broken += 1
                res.case(case)
                res.count('broken:raised')
                where = f'{os.path.relpath(at.filename, common.REPO)}:{at.lineno} in {at.name}'
                res.mismatch(case, None, {'raised': type(e).__name__, 'msg': str(e)[:300], 'at': where},
                             note=f"outside any run of a {case['kind']} case the implementation raised {type(e).__name__} "
                                  f'at {where}: {str(e)[:160]}')
                sb = _new_sandbox(sb, env)
    finally:
        if can_alarm:
            signal.setitimer(signal.ITIMER_REAL, 0)
            signal.signal(signal.SIGALRM, old)
        sb.close()
        close_pristine()


def _new_sandbox(sb, env=None):
    try:
        sb.close()
    except Exception:      # noqa: BLE001 - the state the broken case left behind
        pass
    if env is not None and env._driver is not None:
        env._driver.close()        # an answer of the model may be left unread: start a new driver
        env._driver = None
    return I.Sandbox()


def _worker(args):
    cases, tier, seed, deadline = args
    common.use_repo()
    env = common.Env('C12', tier, seed)
    env.deadline = deadline        # an escalated failing-input search is time-boxed
    res = common.Result()
    try:
        _run_cases(env, res, cases)
    finally:
        if env._driver:
            env._driver.close()
    return res.findings, res.distribution, res.evaluations, sorted(res.nontrivial), res.samples


def run(env, res):
    res.rule = ('every stream starts runs through pipelinerunner.run or (via=object, ~40%) on one Pipeline object per entry '
                'that is run again with a new Context; (a) generated pipelines of real steps (19 directed shapes, then '
                'random: 2-6 steps from 31 step kinds (incl. hand-off points inside formatting / foreach, an unswallowed failure), containers EMPTY with p=0.22 at every level, foreach items / onError / '
                'retry inputs that are nested containers changed in place through i / runErrors, random config.vars / '
                'shortcut with args and/or parser_args / list parser / dict_in), 1-3 runs, every step observation compared '
                'with the Lean heap model (calls on Pipeline objects -> operations; formatting op on definition objects): '
                'context deep value + shared objects reachable by id(); the model is sent the STEPS and reads the operations '
                'itself (opsOf), which must equal the harness reading operation by operation; runs that raise mid-way; '
                '(a2) yaml tag objects as arguments (45 directed + random: !jsonify over mappings / sequences / nested / anchored, '
                '!py, !sic as `in` arguments at any depth, kept by save, left by a failing step, foreach items, onError, pype args, '
                'set / default values, decorator values) with a step that changes in place every mutable container reachable from '
                'the context THROUGH object attributes (.value, __dict__, __slots__): 2-4 runs + a thread, id() monitor (looks inside '
                'objects) after every step, definition deep-equality after every run and after an in-place change of the final '
                'context, re-run equality - implementation only; '
                '(b) histories of 2-6 runs over 1-3 such pipelines, '
                'deep snapshots of every cached definition and of config after every run, run k vs run 1, contexts of '
                'finished runs unchanged; (b2) 2-4 root pipelines in different directories pyping children by relative '
                'names with sub-directories, plus signs and dot-dot, child files next to the parent / in cwd / in '
                'cwd/pipelines / missing, cwd set by the harness: every root solo in a fresh cache, then permutations and '
                'a history with repeats with caches on, each run vs its solo run, cached definition per (parent, name) vs '
                'a fresh load of the file the search order prescribes; (b3) the loaders themselves (assumption '
                'Loader.TextOnly): 2-5 pipeline texts with %YAML/%TAG directives, anchors, merge keys, tags and plain '
                'scalars whose reading depends on parser state (values, keys, foreach items, decorator values), file and '
                'string loader, pype children; each loaded and run alone in a PRISTINE process, then run in 2-5 orders '
                'with repeats and cache clears in this process: every cached definition after every run and every '
                'direct loader call after every order deep-equal (classes and tags included) to the pristine load, every '
                'run equal to the pristine run; half of the cases also run 2-4 of the texts at the same time on free-running '
                'threads (cold caches, short switch interval); (c) 2-3 runs on real threads (same entry: the same '
                'Pipeline object when via=object) under 6-12 schedules per pipeline set, cold and warm caches, each vs its '
                'solo run. non-trivial = distinct (pipelines, config, entries, order, via, schedule)')
    cases = list(alias_cases(env)) + list(tag_cases(env)) + list(history_cases(env)) + list(order_cases(env)) + list(load_cases(env)) + list(thread_cases(env))
    only = os.environ.get('C12_STREAMS')          # debugging / self-test: run a subset of the streams
    if only:
        cases = [c for c in cases if c[0]['kind'] in only.split(',')]
    res.extra['stream_sizes'] = {k: sum(1 for c, _ in cases if c['kind'] == k) for k in CHECKERS}
    if env.quick:
        _run_cases(env, res, cases)
        return
    import multiprocessing as mp
    nproc = min(12, os.cpu_count() or 2)
    chunks = [(cases[i::nproc * 3], env.tier, env.seed, env.deadline) for i in range(nproc * 3)]
    ctx = mp.get_context('fork')
    with ctx.Pool(nproc) as pool:
        for findings, dist, n, nontrivial, samples in pool.imap_unordered(_worker, chunks):
            res.findings += findings
            for k, v in dist.items():
                res.count(k, v)
            res.evaluations += n
            res.nontrivial.update(nontrivial)
            if len(res.samples) < 3:
                res.samples += samples[:3 - len(res.samples)]


def replay(env, res, payload):
    case = payload.get('case') or (payload.get('first_diverging_case') or {}).get('case')
    if not case or case.get('kind') not in CHECKERS:
        return run(env, res)
    _run_cases(env, res, [(case, 'replay')])
