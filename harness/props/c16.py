"""C16 — structured file steps round-trip and format every string node.

Model: lean/PypyrModel/Codec.lean (document trees, fmtDoc, the write/fetch/fileformat glue over an
abstract codec, and the JSON printer/parser written out); theorems: lean/Props/C16.lean.

Flows (each case goes through the real steps AND the model):
  writefetch  filewrite{json,yaml,toml} then fetch{json,yaml,toml} (key / root merge / plain-string
              input / whole-context payload / encodings), plus the file context parser on the same file;
              for JSON the bytes of the written file are compared with the Lean printer.
  fileformat  fileformat{json,yaml,toml} (in place or to out) on a rendered source document; the
              output is read back with the plain loader of the format.
  jsonprint   Lean printer vs json.dumps(indent=2, ensure_ascii=False), byte for byte.
  jsonparse   Lean parser vs json.loads on printed, re-spaced, escaped and corrupted texts.
  session     2-4 operations (write->fetch/parser round trip, read of a given source text, fileformat over a list of
              given source texts) in ONE process, and each operation again alone in a FRESH process; the model's
              `runSession` on the same session.
Monitors (judged on the implementation alone, pypyr's own formatter as oracle for "formatted value"):
  every operation of a session observes what it observes alone in a fresh process;
  fetched value == formatted payload (typed equality, dict order ignored);
  parse(fileformat output) == formatter applied to parse(source).
"""
from __future__ import annotations

import json
import os
import re
import shutil
import tempfile

from .. import common
from ..common import enc, dec, canon
from .. import impl_c16 as I

LEAN_MODULES = ['Props.C16']
TRUSTED = [
    'harness/impl_c16.py (step runners, plain loaders, typed/order-insensitive canonicaliser)',
    'harness/props/c16.py (payload generator, JSON text mutator, session generator)',
    'harness/impl_c16.py session helper: a pristine interpreter (`python -m harness.impl_c16`) that has only imported the '
    'tree under test; every session and every single operation runs in a forked child of it (fresh process = fork of '
    'the pristine helper), with a time limit',
    'CPython json; ruamel.yaml; tomli_w/tomllib (as loaders of the files the steps wrote)',
]
ASSUMPTIONS = [
    'YAML (ruamel.yaml) and TOML (tomli_w/tomllib) codecs are third-party: their round trip `dec (enc d) = d` is a '
    'HYPOTHESIS of write_fetch_roundtrip / fileformat_doc_spec and is validated by generation only, not proved',
    'JSON: `Json.parse (Json.print d) = d` is proved for objects with distinct string keys, arrays, strings, ints, '
    'bools and null; floats are printed/compared by correspondence but are outside the proved domain; the Lean '
    'printer/parser are tied to json.dump/json.load by correspondence (byte-for-byte / value-for-value)',
    'formatting expressions are those of the basic formatter model ({key}, {{, }}); strings with lone surrogates, '
    'non-string mapping keys merged at context root, YAML anchors/tags/dates/binary, TOML datetimes are outside '
    'the modelled domain',
    'text encodings: the model works on code points; a stored file carries the NAME of the encoding its bytes are in '
    '(`Stored`), reading with another name is an error in the model - used on the positive side only (the output of '
    'fileformat{json,yaml} is in the OUT encoding on every route); utf-8/utf-16/utf-32/latin-1 exercised where every '
    'character is encodable; toml files are binary (no encoding options)',
    'STATELESSNESS: in the model a codec is a pair of functions (`Codec.enc`/`Codec.dec`) and `runSession` threads '
    'nothing but the files from one operation to the next, so `RoundTrips` - stated per call - is meaningful. The real '
    'loaders are objects (ruamel.yaml keeps the version of the last %YAML directive on the YAML() instance): that the '
    'steps use them statelessly is an assumption about the implementation, CHECKED by sessions (2-4 operations in one '
    'process; every operation must observe what it observes alone in a fresh process, and the per-operation monitors '
    'must hold inside the session). Known failure on the tree as it is: fileFormatYaml shares one round-trip parser '
    'among the files of one `in` list',
    'YAML directives (%YAML 1.1 / 1.2, %TAG), tags and anchors appear in session SOURCE files only; such a file stands in '
    'the model for the document the plain safe loader (a fresh instance) reads from it under its own directive',
]

CTXV = {'k1': 'v1', 'k2': 42, 'k3': [1, 'two'], 'k4': {'a': 'b'}, 'k5': 'true', 'k6': ' spaced ', 'kf': 1.5,
        'kb': False, 'ku': 'ü→😀', 'kn': None}

PLAIN = ['', 'true', 'True', 'false', '1', '-1', '1.5', '1e3', 'null', 'Null', 'NULL', '~', 'None', 'yes', 'no',
         'on', 'off', ' lead', 'trail ', '  both  ', 'multi\nline', 'multi\nline\n', '\nstart', 'trailing\n\n',
         'tab\there', '\t', 'ünï', '日本語', '😀', 'é→', 'a: b', '- item', '# comment', 'k: [1, 2]', "it's",
         'say "hi"', 'back\\slash', '0x1F', '0o17', '012', '1_000', '+1', '.5', '.inf', '.nan', '2001-01-01',
         '2001-01-01T00:00:00Z', '12:30:45', '@at', '`tick', '!tag', '&anchor', '*alias', '%percent', '|', '>', '?',
         ':', '-', '[x]', 'a,b', '=', 'key = "v"', '[table]', "'''", '"""', 'cr\rhere', 'crlf\r\nline', '\x00nul',
         '\x1funit', '\x7fdel', 'nel\x85x', 'ls\u2028x', 'bom\ufeffx', 'long ' * 30, 'x' * 200, 'word',
         'two words', '<<', '0', '00', '1.0', '-0', 'Infinity', 'NaN', '\\n', '\\u0041', '/', 'a/b',
         # long text whose only break opportunities are runs of several spaces (line folding of the writers)
         'x' + ' ' * 100 + 'y', 'lead ' + 'w' * 70 + '    ' + 'tail' * 10, ('ab' * 20 + '   ') * 5 + 'end',
         'word ' * 14 + '     five spaces then more ' + 'z' * 30]
BRACE = ['{{braces}}', '{{', '}}', 'a{{b}}c', '{{k1}}', '{{}}', 'j{{"a": 1}}']
EXPR = ['x{k1}', '{k1}', '{k2}', '{k3}', '{k4}', '{k5}', '{k6}', 'n{k2}n', '{k1}{k1}', '{ku}', 'é{ku}', '{kf}',
        '{kb}', 'x{k3}', '{kn}']
KEYS = ['a', 'b', 'key', '', 'true', '1', 'null', ' spaced ', 'ü', 'a.b', 'a b', 'k{{x}}', 'k{k1}', 'dash-ed',
        'under_score', '日本', '"q"', "it's", 'multi\nline', '#h', 'x:y', '[k]', 'A', '0', 'é{ku}', '😀']
INTS = [0, 1, -1, 7, 42, -300, 2 ** 31, 2 ** 63 - 1, -2 ** 63, 10 ** 30, 123456789012345678901234567890]
FLOATS = [0.5, -2.25, 1.0, 0.0, 100.0, 1e10, 3.125, -0.0009765625, 65536.5]


# --------------------------------------------------------------------------
# generators
# --------------------------------------------------------------------------

def gen_str(rng, exprs=True):
    r = rng.random()
    if r < 0.6:
        return rng.choice(PLAIN)
    if r < 0.7:
        return rng.choice(BRACE)
    if r < 0.9 and exprs:
        return rng.choice(EXPR)
    n = rng.randrange(0, 6)
    return ''.join(rng.choice('ab Z9é→😀\n\t"\\\'#:-,') for _ in range(n))


def gen_scalar(rng, fmt):
    r = rng.random()
    if r < 0.55:
        return gen_str(rng)
    if r < 0.72:
        return rng.choice(INTS)
    if r < 0.82:
        return rng.choice(FLOATS)
    if r < 0.92 or fmt == 'toml':
        return rng.random() < 0.5
    return None


def gen_key(rng, fmt, used):
    for _ in range(20):
        k = rng.choice(KEYS)
        if fmt == 'yaml' and rng.random() < 0.08:
            k = rng.choice([1, 0, -5, 12])
        if k not in used:
            used.add(k)
            return k
    k = f'k{len(used)}'
    used.add(k)
    return k


def gen_doc(rng, fmt, depth, top=False):
    r = rng.random()
    if top and (fmt == 'toml' or r < 0.75):
        kind = 'dict'
    elif depth <= 0 or r < 0.45:
        if not top:
            return gen_scalar(rng, fmt)
        kind = 'list'
    else:
        kind = 'dict' if r < 0.75 else 'list'
    n = rng.choice([0, 1, 2, 2, 3, 3, 4, 6])
    if kind == 'list':
        return [gen_doc(rng, fmt, depth - 1) for _ in range(n)]
    used = set()
    out = {}
    for _ in range(n):
        k = gen_key(rng, fmt, used)
        if top and not isinstance(k, str):
            k = f'k{k}'
        out[k] = gen_doc(rng, fmt, depth - 1)
    return out


def has_char_outside(v, encoding):
    if isinstance(v, str):
        try:
            v.encode(encoding)
            return False
        except UnicodeEncodeError:
            return True
    if isinstance(v, dict):
        return any(has_char_outside(k, encoding) or has_char_outside(x, encoding) for k, x in v.items())
    if isinstance(v, list):
        return any(has_char_outside(x, encoding) for x in v)
    return False


def directed_payloads(fmt):
    """Every catalogue string as a value and as a key, every scalar kind, nesting, empties."""
    out = []
    none = [] if fmt == 'toml' else [None]
    for s in PLAIN + BRACE + EXPR:
        out.append({'v': s, 'l': [s, [s]], 'n': {'deep': {'er': s}}})
    for k in KEYS:
        out.append({k: 'value', 'nest': {k: [k]}})
    out.append({'ints': INTS, 'floats': FLOATS, 'bools': [True, False], 'mix': [1, 'one', True, 1.0, '1', 'true'] + none})
    out.append({'e': {}, 'l': [], 'll': [[], [[]]], 'ld': [{}, {'a': []}]})
    out.append({'a': {'b': {'c': {'d': {'e': {'f': ['deep', {'g': 'x{k1}'}]}}}}}})
    out.append({'t': [{'a': 1}, {'a': 2, 'b': 'x'}], 'u': [[1, 2], ['a', 'b']]})
    out.append({'z': 1, 'a': 2, 'm': {'z': 1, 'a': 2}})
    if fmt != 'toml':
        out.append(['top', 'level', 'list', {'k': 'v{k1}'}])
        out.append('just a string {k1}')
        out.append(42)
        out.append({'n': None, 'ln': [None, None], 'k': '{kn}'})
        out.append({'true': True, 'false': False, 'null': None, '1': 1})
    if fmt == 'yaml':
        out.append({'nested': {1: 'int key', 2: ['a'], True: 'bool key'}})
    out.append({})
    out.append({'k{k1}': 1, 'kv1': 2})          # two keys that format to the same string
    return out


# --------------------------------------------------------------------------
# cases
# --------------------------------------------------------------------------

def writefetch_case(fmt, payload, variant, encoding=None):
    return {'flow': 'writefetch', 'format': fmt, 'payload': enc(payload), 'variant': variant, 'encoding': encoding}


def fileformat_case(fmt, doc, inplace, encoding=None, encopts=None, route=None):
    c = {'flow': 'fileformat', 'format': fmt, 'doc': enc(doc), 'inplace': inplace, 'encoding': encoding}
    if encopts is not None:
        # {encoding?, encodingIn?, encodingOut?} x route inplace | out | same | empty
        c['encopts'] = encopts
        c['route'] = route or ('inplace' if inplace else 'out')
        c['inplace'] = c['route'] != 'out'
    return c


VARIANTS = ['key', 'root', 'emptykey', 'string', 'whole']
ENCOPTS = [{'encodingIn': 'utf-16', 'encodingOut': 'utf-8'}, {'encodingIn': 'utf-8', 'encodingOut': 'utf-16'},
           {'encodingIn': 'utf-16'}, {'encodingOut': 'utf-16'}, {'encoding': 'utf-16', 'encodingOut': 'utf-8'},
           {'encoding': 'utf-8', 'encodingIn': 'utf-16'}, {'encodingIn': 'latin-1', 'encodingOut': 'utf-8'},
           {'encodingIn': 'utf-8', 'encodingOut': 'latin-1'}, {'encodingIn': 'utf-32', 'encodingOut': 'utf-16'},
           {'encoding': 'utf-16'}, {'encoding': 'latin-1'}, {'encoding': 'utf-32', 'encodingIn': 'utf-8', 'encodingOut': 'utf-16'}]
ROUTES = ['inplace', 'out', 'same', 'empty']
ENC_DOCS = [{'título': 'Señor {k1}', 'k{k1}-größe': [1, 2.5, True, 'naïve {k1}', 'ünï'], 'nested': {'e': 'é', 'n': 42, 'plain': 'true'}},
            {'emoji': '😀 {ku}', '日本': ['語', {'k': 'é→{k1}'}], 'n': 1}]


def model_ctx(fmt, case):
    """(ctx for the write step, ctx2 for the fetch step) as Python dicts — both sides use these."""
    wkey, fkey = I.WRITE[fmt][1], I.FETCH[fmt][1]
    path = 'out/f.' + fmt
    variant = case['variant']
    payload = dec(case['payload'])
    ctx = dict(CTXV)
    if fmt == 'toml':
        del ctx['kn']
    cfg = {'path': path}
    if variant != 'whole':
        cfg['payload'] = payload
    else:
        ctx['data'] = payload
    if case.get('encoding') and fmt != 'toml':
        cfg['encoding'] = case['encoding']
    ctx[wkey] = cfg
    ctx2 = {'pre': 'kept', 'a': 'overwritten?'}
    if variant == 'string':
        ctx2[fkey] = path
    else:
        f = {'path': path}
        if variant in ('key', 'whole'):
            f['key'] = 'out'
        elif variant == 'emptykey':
            f['key'] = ''
        if case.get('encoding') and fmt != 'toml':
            f['encoding'] = case['encoding']
        ctx2[fkey] = f
    return ctx, ctx2, path


def err_class(name):
    if name is None:
        return None
    if name.startswith('pypyr.'):
        return name
    return 'error'          # serialiser / loader level: only "it raised" is compared


def run_writefetch(drv, case):
    fmt = case['format']
    ctx, ctx2, path = model_ctx(fmt, case)
    wkey = I.WRITE[fmt][1]
    rec = {'case': case, 'counts': ['flow:writefetch', 'fmt:' + fmt, 'variant:' + case['variant'],
                                    'enc:' + str(case.get('encoding'))]}
    # ---- model
    try:
        m = drv.ask('codec.writefetch', format=fmt, ctx=enc(ctx), ctx2=enc(ctx2))
    except common.Reject as e:
        rec['reject'] = str(e)
        rec['counts'].append('rejected')
        return rec
    if 'err' in m['write']:
        model = {'write': {'err': err_class(m['write']['err']['name'])}}
    else:
        model = {'write': 'ok', 'payload': I.sort_wire(m['write']['ok'][0][1])}
        f = m['fetch']
        model['fetch'] = {'ok': I.sort_wire(f['ok'])} if 'ok' in f else {'err': err_class(f['err']['name'])}
    # ---- implementation
    I.clean_dir()
    cfg = ctx[wkey]
    w, wctx = I.run_write(fmt, {k: v for k, v in ctx.items() if k != wkey}, cfg['path'], cfg.get('payload'),
                          'payload' in cfg, cfg.get('encoding'))
    impl = {}
    text = None
    if 'err' in w:
        impl['write'] = {'err': err_class(w['err'])}
        rec['impl_detail'] = w
    else:
        impl['write'] = 'ok'
        fkey = I.FETCH[fmt][1]
        fcfg = ctx2[fkey]
        as_string = isinstance(fcfg, str)
        r = I.run_fetch(fmt, {k: v for k, v in ctx2.items() if k != fkey}, path,
                        None if as_string else fcfg.get('key'), as_string, case.get('encoding'))
        impl['fetch'] = {'ok': I.sort_wire(r['ok'])} if 'ok' in r else {'err': err_class(r['err'])}
        if 'err' in r:
            rec['impl_detail'] = r
        # the value the fetch step stored (what the property talks about)
        try:
            with open(path, 'rb') as fh:
                raw = fh.read()
            text = raw.decode((case.get('encoding') or 'utf-8') if fmt != 'toml' else 'utf-8')
            impl['payload'] = I.sort_wire(enc(I.plain(I.load(fmt, text))))
        except Exception as e:
            impl['payload'] = {'unreadable': type(e).__name__}
    rec['model'], rec['impl'] = model, impl
    # the model's round trip rests on the hypothesis dec (enc d) = d for the third-party codec: check it directly
    hyp = True
    if fmt != 'json' and 'payload' in model:
        hyp = I.third_party_roundtrip(fmt, dec(m['write']['ok'][0][1]))
        if hyp is False:
            rec['counts'].append('codec-hypothesis-false:' + fmt)
    if model != impl and hyp is not False:
        rec['mismatch'] = 'observations differ'
    rec['counts'].append('write:' + ('ok' if impl['write'] == 'ok' else 'err'))
    # ---- JSON: bytes of the file vs the Lean printer
    if fmt == 'json' and text is not None and 'payload' in model and 'write' in m and 'ok' in m['write']:
        try:
            t = drv.ask('codec.jsonprint', doc=m['write']['ok'][0][1])['text']
            rec['counts'].append('jsonbytes')
            if t != text:
                rec['mismatch'] = (rec.get('mismatch', '') + '; Lean JSON printer differs from the file written').strip('; ')
                rec['model'] = dict(model, text=t)
                rec['impl'] = dict(impl, text=text)
            p = drv.ask('codec.jsonparse', text=text)
            if 'ok' in p and I.sort_wire(p['ok']) != impl.get('payload'):
                rec['mismatch'] = (rec.get('mismatch', '') + '; Lean JSON parser differs from json.load on the file').strip('; ')
        except common.Reject:
            rec['counts'].append('jsonbytes-rejected')
    # ---- monitor: fetched value == formatted payload (pypyr's own formatter as oracle)
    if impl['write'] == 'ok' and 'ok' in impl.get('fetch', {}):
        whole = case['variant'] == 'whole'
        src_ctx = {k: v for k, v in wctx.items()} if whole else dict(ctx)
        want = I.real_format(ctx, dict(ctx) if whole else dec(case['payload']))
        if 'ok' in want:
            want_w = I.sort_wire(want['ok'])
            got_ctx = dict((json.dumps(k), v) for k, v in impl['fetch']['ok']['d'])
            if case['variant'] in ('key', 'whole'):
                got = got_ctx.get(json.dumps('out'), {'missing': True})
                ok = got == want_w
            else:
                # merged at root: every entry of the formatted mapping is in the context
                ok = 'd' in want_w and all(got_ctx.get(json.dumps(k), {'missing': True}) == v
                                            for k, v in want_w['d'])
                got = impl['fetch']['ok']
            rec['monitor'] = {'holds': ok, 'want': want_w, 'got': got}
    elif impl['write'] == 'ok' and 'err' in impl.get('fetch', {}) and case['variant'] in ('key', 'whole'):
        # the payload was written, a destination key was given, and the fetch step raised
        want = I.real_format(ctx, dict(ctx) if case['variant'] == 'whole' else dec(case['payload']))
        if 'ok' in want:
            rec['monitor'] = {'holds': False, 'want': I.sort_wire(want['ok']),
                              'got': {'raised': rec.get('impl_detail', {}).get('err'),
                                      'msg': rec.get('impl_detail', {}).get('msg')}, 'via': 'fetch-raised'}
    # ---- file context parser on the same file
    if impl['write'] == 'ok' and (case.get('encoding') in (None, 'utf-8')) and hyp is not False:
        pr = I.run_parser(fmt, path)
        try:
            pm = drv.ask('codec.parser', format=fmt, doc=m['write']['ok'][0][1])
            pmodel = {'ok': I.sort_wire(pm['ok'])} if 'ok' in pm else {'err': 'error'}
            pimpl = {'ok': I.sort_wire(pr['ok'])} if 'ok' in pr else {'err': 'error'}
            rec['counts'].append('parser')
            if pmodel != pimpl:
                rec['mismatch'] = (rec.get('mismatch', '') + '; file context parser differs').strip('; ')
                rec['model'] = dict(rec['model'], parser=pmodel)
                rec['impl'] = dict(rec['impl'], parser=pimpl)
            if 'ok' in pr and rec.get('monitor', {}).get('holds') and case['variant'] in ('key', 'whole'):
                if I.sort_wire(pr['ok']) != rec['monitor']['want']:
                    rec['monitor'] = {'holds': False, 'want': rec['monitor']['want'], 'got': I.sort_wire(pr['ok']),
                                      'via': 'parser'}
        except common.Reject:
            rec['counts'].append('parser-rejected')
    return rec


def run_fileformat(drv, case):
    fmt = case['format']
    doc = dec(case['doc'])
    ctx = dict(CTXV)
    if fmt == 'toml':
        del ctx['kn']
    encopts, route = case.get('encopts'), case.get('route')
    rec = {'case': case, 'counts': ['flow:fileformat', 'fmt:' + fmt, 'inplace:' + str(case['inplace']),
                                    'enc:' + str(case.get('encoding'))]}
    req = {}
    if encopts is not None:
        e_in, e_out = I.enc_in_out(encopts)
        rec['counts'] += ['route:' + route, 'encopts:' + '+'.join(sorted(encopts)) + (':differ' if e_in != e_out else ':same')]
        req = {'enc': encopts, 'out': {'inplace': None, 'out': 'out/res', 'same': 'in', 'empty': ''}[route]}
    try:
        m = drv.ask('codec.fileformat', format=fmt, ctx=enc(ctx), doc=case['doc'], **req)
    except common.Reject as e:
        rec['reject'] = str(e)
        rec['counts'].append('rejected')
        return rec
    if encopts is not None and 'ok' in m:
        # the model's file-level result: stored in the OUT encoding at the target
        if m.get('enc') != I.enc_in_out(encopts)[1] or m.get('target') != ('out/res' if route == 'out' else 'in'):
            rec['mismatch'] = f"model stores the result as {m.get('enc')} at {m.get('target')}"
    model = {'ok': I.sort_wire(m['ok'])} if 'ok' in m else {'err': err_class(m['err']['name'])}
    I.clean_dir()
    try:
        src_text = I.render(fmt, doc)
        src_loaded = I.plain(I.load(fmt, src_text))
    except Exception as e:
        rec['reject'] = f'source cannot be rendered: {type(e).__name__}'
        rec['counts'].append('unrenderable')
        return rec
    if fmt == 'yaml' and I.sort_wire(enc(src_loaded)) != I.sort_wire(case['doc']):
        # ruamel's own dump of this source does not read back: write the source as JSON-style flow YAML
        try:
            alt = json.dumps(doc, ensure_ascii=True)
            alt_loaded = I.plain(I.load(fmt, alt))
            if I.sort_wire(enc(alt_loaded)) == I.sort_wire(case['doc']):
                src_text, src_loaded = alt, alt_loaded
                rec['counts'].append('yaml-source-as-json-flow')
        except Exception:
            pass
    if I.sort_wire(enc(src_loaded)) != I.sort_wire(case['doc']):
        # the third-party writer/loader pair does not round-trip this source: the codec hypothesis fails
        rec['counts'].append('codec-hypothesis-false-on-source')
        rec['hypothesis'] = {'format': fmt, 'doc': case['doc'], 'loaded': enc(src_loaded)}
        return rec
    o, out_text = I.run_fileformat(fmt, ctx, src_text, case['inplace'], case.get('encoding'), encopts, route)
    if 'err' in o:
        impl = {'err': err_class(o['err'])}
        rec['impl_detail'] = o
    elif out_text is None:
        impl = {'unreadable': o.get('undecodable')}
    else:
        try:
            impl = {'ok': I.sort_wire(enc(I.plain(I.load(fmt, out_text))))}
        except Exception as e:
            impl = {'unreadable': type(e).__name__}
    rec['model'], rec['impl'] = model, impl
    hyp = True
    if fmt != 'json' and 'ok' in m:
        hyp = I.third_party_roundtrip(fmt, dec(m['ok']))
        if hyp is False:
            rec['counts'].append('codec-hypothesis-false:' + fmt)
    if model != impl and hyp is not False:
        rec['mismatch'] = 'observations differ'
    rec['counts'].append('result:' + ('ok' if 'ok' in impl else 'err'))
    if 'ok' in impl or 'unreadable' in impl:
        want = I.real_format(ctx, src_loaded)
        if 'ok' in want:
            w = I.sort_wire(want['ok'])
            rec['monitor'] = {'holds': impl.get('ok') == w, 'want': w, 'got': impl.get('ok', impl)}
    return rec


def run_jsonprint(drv, case):
    doc = dec(case['doc'])
    rec = {'case': case, 'counts': ['flow:jsonprint']}
    try:
        t = drv.ask('codec.jsonprint', doc=case['doc'])['text']
    except common.Reject as e:
        rec['reject'] = str(e)
        return rec
    want = json.dumps(doc, indent=2, ensure_ascii=False)
    rec['model'], rec['impl'] = {'text': t}, {'text': want}
    if t != want:
        rec['mismatch'] = 'Lean JSON printer differs from json.dumps(indent=2, ensure_ascii=False)'
    p = drv.ask('codec.jsonparse', text=t)
    if 'outside' in p:
        rec['counts'].append('roundtrip-outside')
    elif p.get('ok') != case['doc']:
        rec['mismatch'] = (rec.get('mismatch', '') + '; Lean parse(print d) != d').strip('; ')
        rec['model']['reparsed'] = p
    return rec


def contains_float_or_odd(v):
    if isinstance(v, float):
        return True
    if isinstance(v, str):
        return any(0xD800 <= ord(c) <= 0xDFFF for c in v)
    if isinstance(v, dict):
        return any(contains_float_or_odd(k) or contains_float_or_odd(x) for k, x in v.items())
    if isinstance(v, list):
        return any(contains_float_or_odd(x) for x in v)
    return False


def run_jsonparse(drv, case):
    text = case['text']
    rec = {'case': case, 'counts': ['flow:jsonparse']}
    p = drv.ask('codec.jsonparse', text=text)
    try:
        v = json.loads(text)
        impl = {'outside': True} if contains_float_or_odd(v) else {'ok': enc(v)}
    except json.JSONDecodeError:
        impl = {'bad': True}
    except RecursionError:
        impl = {'outside': True}
    rec['model'], rec['impl'] = p, impl
    rec['counts'].append('parse:' + next(iter(impl)))
    if 'outside' in p:
        # model declines (float, NaN, lone surrogate): acceptable only if Python did not reject the text
        if 'bad' in impl and not case.get('maybe_float'):
            rec['counts'].append('parse:model-outside-python-bad')
        return rec
    if p != impl:
        rec['mismatch'] = 'Lean JSON parser differs from json.loads'
    return rec


# --------------------------------------------------------------------------
# sessions: 2-4 file operations in ONE process (the property is stated per round trip; the model's codec is a
# pure function of the text — this checks that the real steps use their loaders statelessly)
# --------------------------------------------------------------------------

RAW_YAML = {
    'legacy11': '%YAML 1.1\n---\nname: legacy-settings\nretries: 3\n',
    'v11-lookalikes': '%YAML 1.1\n---\nflag: yes\nswitch: off\nat: 12:30:00\noct: 0777\n',
    'v12': '%YAML 1.2\n---\nname: modern\nflag: yes\nat: 12:30:00\n',
    'v12-then-plain': '%YAML 1.2\n---\nn: 0o17\nflag: on\n',
    'tags': 'a: !!str 123\nb: !!int "7"\nc: !!float 1\nd: !!bool "true"\n',
    'tag-directive': '%TAG !e! tag:example.com,2000:app/\n---\nk: v\nn: 1\n',
    'both-directives': '%YAML 1.1\n%TAG !e! tag:example.com,2000:app/\n---\nk: no\n',
    'anchors': 'base: &b {x: 1, y: [a, b]}\nuse: *b\nmerged:\n  <<: *b\n  z: 3\n',
    'plain-lookalikes': 'k: x{k1}\nlist: [yes, no, 12:30:00, 0777, on]\nflag: yes\ny: n\n',
    'plain': 'a: 1\nb: [x, y]\nc:\n  d: e{k1}\n',
    'two-docs-marker': '---\nonly: doc\n...\n',
}
RAW_JSON = {'obj': '{"a": "x{k1}", "yes": "no", "n": [1, 2.5, true, null]}', 'nested': '{"k": {"yes": ["on", "off"]}}'}
RAW_TOML = {'tbl': 'a = "x{k1}"\nyes = "no"\n[t]\non = "off"\nn = 1\n'}
LOOKALIKES = ['yes', 'no', 'on', 'off', 'y', 'n', 'Yes', 'NO', 'On', 'OFF', 'Y', 'N', 'true', 'false', '12:30:00', '1:00',
              '0777', '0o17', '1_000', '0b101', '0x1F', '+.inf', '.NaN', '~', 'null', '1e3', '2001-01-01', '<<', '=']
SESSION_CTX = {'k1': 'v1', 'k2': 42}


def lookalike_payload(rng=None):
    if rng is None:
        return {'answer': 'yes', 'switch': 'on', 'other': 'off', 'short': 'n', 'at': '12:30:00', 'oct': '0777',
                'greeting': 'hello {k1}', 'no': [1, 2.5, True, None], 'nested': ['y', {'flag': 'Yes', 'count': 3}]}
    vals = rng.sample(LOOKALIKES, 6)
    keys = rng.sample(LOOKALIKES, 3)
    return {'v': vals[:3], keys[0]: vals[3], keys[1]: {keys[2]: [vals[4], {'deep': vals[5]}]}, 'f': 'x{k1}', 'i': 7}


def op_roundtrip(fmt, payload, reader):
    if fmt == 'toml':
        payload = _no_none(payload)
    return {'kind': 'roundtrip', 'format': fmt, 'payload': enc(payload), 'ctx': enc(SESSION_CTX), 'reader': reader,
            'name': 'o.' + fmt}


def _no_none(v):
    if isinstance(v, dict):
        return {k: _no_none(x) for k, x in v.items() if x is not None}
    if isinstance(v, list):
        return [_no_none(x) for x in v if x is not None]
    return v


def op_fetchraw(fmt, text, reader):
    return {'kind': 'fetchraw', 'format': fmt, 'text': text, 'reader': reader, 'name': 'r.' + fmt}


def op_formatraw(fmt, texts, route='inplace'):
    return {'kind': 'formatraw', 'format': fmt, 'files': [[f'f{i}.{fmt}', t] for i, t in enumerate(texts)],
            'ctx': enc(SESSION_CTX), 'route': route, 'aslist': True}


def session_case(ops, tag):
    return {'flow': 'session', 'format': ops[-1]['format'], 'ops': ops, 'tag': tag}


def directed_sessions():
    out = []
    look = lookalike_payload()
    for name, text in RAW_YAML.items():
        for reader in ('fetch', 'parser'):
            # a file with directives / tags / anchors is read, then look-alikes are round-tripped
            out.append(session_case([op_fetchraw('yaml', text, reader), op_roundtrip('yaml', look, 'fetch'),
                                     op_roundtrip('yaml', look, 'parser')], f'read-{name}-then-roundtrip'))
        out.append(session_case([op_formatraw('yaml', [text]), op_roundtrip('yaml', look, 'fetch'),
                                 op_fetchraw('yaml', RAW_YAML['plain-lookalikes'], 'fetch')], f'format-{name}-then-roundtrip'))
        # several in files in one fileformat step: a directive/tag file first, look-alikes after — and reversed
        out.append(session_case([op_formatraw('yaml', [text, RAW_YAML['plain-lookalikes'], RAW_YAML['plain']])],
                                f'format-list-{name}-first'))
        out.append(session_case([op_formatraw('yaml', [RAW_YAML['plain-lookalikes'], text], 'outdir'),
                                 op_formatraw('yaml', [RAW_YAML['plain-lookalikes']])], f'format-list-{name}-last'))
    out.append(session_case([op_roundtrip('yaml', look, 'fetch'), op_fetchraw('yaml', RAW_YAML['legacy11'], 'fetch'),
                             op_roundtrip('yaml', look, 'fetch'), op_roundtrip('yaml', look, 'parser')], 'rt-11-rt-rt'))
    out.append(session_case([op_fetchraw('yaml', RAW_YAML['legacy11'], 'parser'), op_fetchraw('yaml', RAW_YAML['v12'], 'fetch'),
                             op_roundtrip('yaml', look, 'fetch')], '11-12-rt'))
    out.append(session_case([op_fetchraw('yaml', RAW_YAML['v12'], 'fetch'), op_fetchraw('yaml', RAW_YAML['legacy11'], 'fetch'),
                             op_fetchraw('yaml', RAW_YAML['plain-lookalikes'], 'parser'), op_roundtrip('yaml', look, 'parser')],
                            '12-11-plain-rt'))
    for name, text in RAW_JSON.items():
        out.append(session_case([op_fetchraw('json', text, 'fetch'), op_formatraw('json', [text, RAW_JSON['obj']]),
                                 op_roundtrip('json', look, 'fetch'), op_roundtrip('json', look, 'parser')], f'json-{name}'))
    for name, text in RAW_TOML.items():
        out.append(session_case([op_fetchraw('toml', text, 'fetch'), op_formatraw('toml', [text, text]),
                                 op_roundtrip('toml', look, 'fetch'), op_roundtrip('toml', look, 'parser')], f'toml-{name}'))
    # formats interleaved
    out.append(session_case([op_fetchraw('yaml', RAW_YAML['v11-lookalikes'], 'fetch'), op_roundtrip('json', look, 'fetch'),
                             op_roundtrip('toml', look, 'fetch'), op_roundtrip('yaml', look, 'fetch')], 'mixed-formats'))
    return out


def random_session(rng):
    n = rng.choice([2, 3, 3, 4])
    ops = []
    for i in range(n):
        fmt = rng.choice(['yaml', 'yaml', 'yaml', 'json', 'toml'])
        raws = {'yaml': RAW_YAML, 'json': RAW_JSON, 'toml': RAW_TOML}[fmt]
        r = rng.random()
        if i == n - 1 or r < 0.4:
            ops.append(op_roundtrip(fmt, lookalike_payload(rng), rng.choice(['fetch', 'parser'])))
        elif r < 0.75:
            ops.append(op_fetchraw(fmt, rng.choice(list(raws.values())), rng.choice(['fetch', 'parser'])))
        else:
            k = rng.choice([1, 2, 3])
            ops.append(op_formatraw(fmt, [rng.choice(list(raws.values())) for _ in range(k)],
                                    rng.choice(['inplace', 'outdir'])))
    return session_case(ops, 'random')


_YAML_DIRECTIVE = re.compile(r'^%YAML\s+(\d+\.\d+)', re.M)


def yaml_version(text):
    m = _YAML_DIRECTIVE.search(text.split('\n---', 1)[0]) if text.lstrip().startswith('%') else None
    return m.group(1) if m else None


def session_model(drv, ops):
    """The session through the model's `runSession` (ideal codecs): per op the expected observation in the
    harness's terms, or None where the op is outside the model (file context parser as reader, documents that
    are not plain trees). Raises Reject when the driver declines."""
    files, mops, where = [], [], []
    for i, op in enumerate(ops):
        fmt, pre = op['format'], f's{i}/'
        fk, wk = I.FETCH[fmt][1], I.WRITE[fmt][1]
        if op['kind'] == 'roundtrip':
            ctx = dict(dec(op['ctx']))
            ctx[wk] = {'path': pre + op['name'], 'payload': dec(op['payload'])}
            mops.append({'op': 'write', 'format': fmt, 'ctx': enc(ctx)})
            mops.append({'op': 'fetch', 'format': fmt, 'ctx': enc({fk: {'path': pre + op['name'], 'key': 'out'}})})
            where.append(('roundtrip', len(mops) - 2))
        elif op['kind'] == 'fetchraw':
            files.append([pre + op['name'], enc(I.plain(I.load(fmt, op['text'])))])
            mops.append({'op': 'fetch', 'format': fmt, 'ctx': enc({fk: {'path': pre + op['name'], 'key': 'out'}})})
            where.append(('fetchraw', len(mops) - 1))
        else:
            first = len(mops)
            for name, text in op['files']:
                files.append([pre + name, enc(I.plain(I.load(fmt, text)))])
                mops.append({'op': 'format', 'format': fmt, 'ctx': op['ctx'], 'in': pre + name,
                             'out': (pre + 'res/' + name) if op.get('route') == 'outdir' else None})
            where.append(('formatraw', first))
    m = drv.ask('codec.session', files=files, ops=mops)
    mfiles = dict((k, v) for k, v in m['files'])
    out = []
    for (kind, at), (i, op) in zip(where, enumerate(ops)):
        pre = f's{i}/'
        if kind in ('roundtrip', 'fetchraw'):
            f = m['obs'][at + 1] if kind == 'roundtrip' else m['obs'][at]
            if kind == 'roundtrip' and m['obs'][at] != 'wrote':
                out.append({'write': 'err'})
                continue
            if isinstance(f, dict) and 'fetched' in f:
                got = dict((json.dumps(k), v) for k, v in f['fetched']['d']).get('"out"', {'missing': True})
                out.append({'read': {'ok': I.sort_wire(got)}})
            else:
                out.append({'read': 'err'})
        else:
            docs = []
            for k, (name, _t) in enumerate(op['files']):
                if m['obs'][at + k] != 'formatted':
                    docs = 'err'
                    break
                tgt = (pre + 'res/' + name) if op.get('route') == 'outdir' else pre + name
                docs.append([name, I.sort_wire(mfiles[tgt])])
            out.append({'format': docs})
    return out


def impl_view(op, obs):
    """The implementation's observation of one op in the terms of `session_model` (documents parsed with the
    plain loader of the format)."""
    if not isinstance(obs, dict) or 'crashed' in obs or 'timeout' in obs:
        return {'abnormal': obs}
    fmt = op['format']
    if op['kind'] in ('roundtrip', 'fetchraw'):
        if op['kind'] == 'roundtrip' and obs.get('write') != 'ok':
            return {'write': 'err'}
        r = obs.get('read', {})
        return {'read': {'ok': I.sort_wire(r['ok'])}} if 'ok' in r else {'read': 'err'}
    if obs.get('format') != 'ok':
        return {'format': 'err'}
    docs = []
    for name, text in obs['outs']:
        try:
            docs.append([name, I.sort_wire(enc(I.plain(I.load(fmt, text))))])
        except Exception as e:
            docs.append([name, {'unreadable': type(e).__name__}])
    return {'format': docs}


def run_session(drv, case):
    ops = case['ops']
    rec = {'case': case, 'counts': ['flow:session', 'session-len:%d' % len(ops), 'session:' + case.get('tag', '').split('-')[0]]}
    z = _worker.get('zygote')
    if z is None:
        z = _worker['zygote'] = I.Zygote()
    global _timeouts
    r = z.session(ops, timeout=20 if _timeouts < 2 else 5)
    if 'timeout' in json.dumps(r)[:100000] and any(isinstance(o, dict) and 'timeout' in o
                                                  for o in ([r['insession']] if isinstance(r.get('insession'), dict) else r.get('insession', [])) + r.get('fresh', [])):
        _timeouts += 1
    if 'zygote-error' in r:
        raise common.Infra('C16 session helper: ' + r['zygote-error'])
    ins, fresh = r['insession'], r['fresh']
    if not isinstance(ins, list):          # the whole session crashed / timed out
        ins = [ins] * len(ops)
    problems = []
    # ---- M1: every operation observes in the session what it observes in a fresh process
    for i, op in enumerate(ops):
        rec['counts'].append('sop:' + op['kind'] + ':' + op['format'])
        if ins[i] != fresh[i]:
            a, b = impl_view(op, fresh[i]), impl_view(op, ins[i])
            problems.append({'clause': 'history-dependent', 'op': i, 'kind': op['kind'], 'format': op['format'],
                             'reader': op.get('reader'), 'want': a, 'got': b,
                             'earlier': [f"{o['kind']}:{o['format']}:yaml-version={yaml_version(o.get('text', '') or '')}"
                                         for o in ops[:i]]})
    # ---- M2 / M3: the property itself, op by op, on the in-session observations
    leak_ops = set()
    for i, op in enumerate(ops):
        fmt, v = op['format'], impl_view(op, ins[i])
        if 'abnormal' in v:
            problems.append({'clause': 'abnormal-end', 'op': i, 'kind': op['kind'], 'format': fmt, 'got': v['abnormal']})
            continue
        if op['kind'] == 'roundtrip':
            want = I.real_format(dec(op['ctx']), dec(op['payload']))
            if 'ok' not in want:
                continue
            w = I.sort_wire(want['ok'])
            if v != {'read': {'ok': w}}:
                problems.append({'clause': 'roundtrip', 'op': i, 'kind': 'roundtrip', 'format': fmt,
                                 'reader': op['reader'], 'want': w, 'got': v})
        elif op['kind'] == 'formatraw':
            if v.get('format') == 'err':
                problems.append({'clause': 'format-raised', 'op': i, 'kind': 'formatraw', 'format': fmt,
                                 'got': ins[i].get('format')})
                continue
            seen_versions = []
            for (name, text), (_n, got) in zip(op['files'], v['format']):
                src = I.plain(I.load(fmt, text))
                want = I.real_format(dec(op['ctx']), src)
                ver = yaml_version(text) if fmt == 'yaml' else None
                if 'ok' in want and got != I.sort_wire(want['ok']):
                    # a %YAML directive in an EARLIER file of the same `in` list, another version than this file's
                    leak = fmt == 'yaml' and any(x is not None and x != (ver or '1.2') for x in seen_versions)
                    if leak:
                        leak_ops.add(i)
                    problems.append({'clause': 'fileformat', 'op': i, 'kind': 'formatraw', 'format': fmt, 'file': name,
                                     'want': I.sort_wire(want['ok']), 'got': got,
                                     'cause': 'yaml-version-directive-of-earlier-in-file-applied' if leak else None})
                seen_versions.append(ver)
    rec['session_problems'] = problems
    # ---- the model's runSession on the same session
    try:
        mv = session_model(drv, ops)
        iv = []
        for op, o in zip(ops, ins):
            x = impl_view(op, o)
            iv.append(None if op.get('reader') == 'parser' else x)
        mv = [None if op.get('reader') == 'parser' else x for op, x in zip(ops, mv)]
        # ops whose difference is the (separately reported) directive leak are not a modelling difference
        for i in leak_ops:
            mv[i] = iv[i] = 'known-directive-leak'
        rec['model'], rec['impl'] = {'session': mv}, {'session': iv}
        hyp_ok = True
        for op in ops:
            if op['kind'] == 'roundtrip' and op['format'] != 'json':
                want = I.real_format(dec(op['ctx']), dec(op['payload']))
                if 'ok' in want and I.third_party_roundtrip(op['format'], dec(want['ok'])) is False:
                    hyp_ok = False
        if mv != iv and hyp_ok:
            rec['mismatch'] = 'session observations differ from runSession'
        rec['counts'].append('session-modelled')
    except common.Reject as e:
        rec['counts'].append('session-model-rejected')
        rec['session_reject'] = str(e)
    except Exception as e:       # a raw document the plain loader cannot read etc.: monitors only
        rec['counts'].append('session-model-skipped:' + type(e).__name__)
    return rec


RUNNERS = {'writefetch': run_writefetch, 'fileformat': run_fileformat, 'jsonprint': run_jsonprint,
           'jsonparse': run_jsonparse, 'session': run_session}


def run_case(drv, case):
    return RUNNERS[case['flow']](drv, case)


CASE_TIMEOUT = 30
_timeouts = 0       # per harness process: after 2 the limit drops to 5 s, after 5 the remaining cases are skipped


class CaseTimeout(BaseException):
    """Raised by SIGALRM in the process running a case: not an `Exception`, so no handler of the tree under
    test can swallow it."""


import contextlib
import signal


@contextlib.contextmanager
def time_limit(sec):
    def on_alarm(_sig, _frm):
        raise CaseTimeout(f'no result within {sec} s')
    try:
        old = signal.signal(signal.SIGALRM, on_alarm)
    except ValueError:
        yield
        return
    signal.alarm(sec)
    try:
        yield
    finally:
        signal.alarm(0)
        signal.signal(signal.SIGALRM, old)


def guarded_case(drv, case):
    global _timeouts
    if _timeouts >= 5:
        return {'case': case, 'counts': ['skipped-after-timeouts'], 'skipped': True}
    try:
        with time_limit((CASE_TIMEOUT if _timeouts < 2 else 5) * (8 if case.get('flow') == 'session' else 1)):
            return run_case(drv, case)
    except (common.Infra, KeyboardInterrupt):
        raise
    except CaseTimeout as e:
        _timeouts += 1
        try:                     # a request may be in flight: start the model driver afresh
            drv.close()
            drv.__init__()
        except Exception:
            pass
        return {'case': case, 'counts': ['case-timeout'], 'timeout': str(e)}
    except BaseException as e:   # noqa: BLE001
        import traceback
        return {'case': case, 'counts': ['harness-error'], 'model': None, 'impl': None,
                'mismatch': f'harness error: {type(e).__name__}: {e} @ ' + traceback.format_exc()[-700:]}


# --------------------------------------------------------------------------
# JSON texts for the parser correspondence
# --------------------------------------------------------------------------

def json_texts(rng, docs, n):
    out = []
    ws = [' ', '\n', '\t', '\r', '  ', '']
    for d in docs:
        for t in (json.dumps(d, indent=2, ensure_ascii=False), json.dumps(d), json.dumps(d, separators=(',', ':')),
                  json.dumps(d, indent='\t', ensure_ascii=True), json.dumps(d, sort_keys=False, indent=0)):
            out.append(t)
        t = json.dumps(d, ensure_ascii=True)
        # re-space: whitespace is only legal between tokens; insert around structural characters outside strings
        res, instr, esc = [], False, False
        for ch in t:
            if instr:
                res.append(ch)
                if esc:
                    esc = False
                elif ch == '\\':
                    esc = True
                elif ch == '"':
                    instr = False
            else:
                if ch == '"':
                    instr = True
                    res.append(ch)
                elif ch in '{}[],:':
                    res.append(rng.choice(ws) + ch + rng.choice(ws))
                else:
                    res.append(ch)
        out.append(rng.choice(ws) + ''.join(res) + rng.choice(ws))
        # corrupt
        for _ in range(3):
            if not t:
                break
            i = rng.randrange(len(t))
            kind = rng.randrange(4)
            if kind == 0:
                out.append(t[:i])
            elif kind == 1:
                out.append(t[:i] + t[i + 1:])
            elif kind == 2:
                out.append(t[:i] + rng.choice('{}[],:"\\0-1 etnu.x\n\x01') + t[i:])
            else:
                out.append(t + rng.choice([',', ']', '}', ' x', '1', 'null', '[]']))
    out += ['', ' ', 'nul', 'null', ' true ', 'false', 'tru', '0', '-0', '-', '01', '1 2', '1.', '1.5', '1e5', '1E+2',
            '1e', '-1', '[1,]', '[,1]', '[1 2]', '{"a":1,}', '{,}', '{"a" 1}', '{"a":}', '{a:1}', "{'a':1}", '"\\u00e9"',
            '"\\ud83d\\ude00"', '"\\ud83d"', '"\\ude00"', '"\\uD83D\\uDE00"', '"\\u12"', '"\\u12G4"', '"\\x41"',
            '"\\/"', '"\\b\\f\\n\\r\\t\\"\\\\"', '"tab\there"', '"nl\nx"', '"\x7f"', '"unterminated', '[[[[]]]]',
            '[[[[', '{"a":{"a":{"a":{}}}}', '{"a":1,"a":2,"b":3,"a":4}', 'NaN', 'Infinity', '-Infinity', '[NaN]',
            '\ufeff1', '1\x00', ' \n\t\r[ \n\t\r] \n\t\r', '"\\u+123"', '"\\u 123"', '"\\u0x12"', '1_0', '+1', '.5',
            '00', '-01', '[-]', '"a" "b"', '[1]]', '{}{}', '123456789012345678901234567890', '-9223372036854775809']
    rng.shuffle(out)
    return out[:n] if n else out


# --------------------------------------------------------------------------
# orchestration
# --------------------------------------------------------------------------

_worker = {}


def _init_worker():
    common.use_repo()
    _worker['drv'] = common.Driver()
    _worker['dir'] = tempfile.mkdtemp(prefix='verif-c16-')
    os.chdir(_worker['dir'])


def _run_worker(case):
    if 'drv' not in _worker:
        _init_worker()
    return guarded_case(_worker['drv'], case)


def _close_zygote():
    z = _worker.pop('zygote', None)
    if z is not None:
        z.close()


def _cleanup_worker(_):
    _close_zygote()
    d = _worker.get('dir')
    if d:
        os.chdir('/')
        shutil.rmtree(d, ignore_errors=True)
    return True


def run_all(env, cases, workers):
    if workers <= 1:
        cwd = os.getcwd()
        d = tempfile.mkdtemp(prefix='verif-c16-')
        os.chdir(d)
        try:
            out = [guarded_case(env.driver, c) for c in cases]
            return out
        finally:
            _close_zygote()
            os.chdir(cwd)
            shutil.rmtree(d, ignore_errors=True)
    import multiprocessing as mp
    mpc = mp.get_context('fork')
    with mpc.Pool(workers) as pool:
        out = pool.map(_run_worker, cases, chunksize=16)
        pool.map(_cleanup_worker, range(workers * 4), chunksize=1)
    return out


SPECIAL = {'\x85': 'U+0085', '\u2028': 'U+2028', '\u2029': 'U+2029', '\r': 'CR', '\ufeff': 'BOM', '\x00': 'NUL',
           '\x7f': 'DEL', '\t': 'TAB', '\n': 'LF'}


def kind_of(w):
    if w is None:
        return 'none'
    if isinstance(w, bool):
        return 'bool'
    if isinstance(w, int):
        return 'int'
    if isinstance(w, str):
        return 'str'
    if isinstance(w, list):
        return 'list'
    if isinstance(w, dict):
        return {'d': 'dict', 'f': 'float'}.get(next(iter(w), ''), 'obj')
    return 'other'


def first_diff(want, got):
    """First differing node of two canonical wire values: (what, wanted node, node got)."""
    if kind_of(want) != kind_of(got):
        return f'{kind_of(want)}->{kind_of(got)}', want, got
    if isinstance(want, list):
        if len(want) != len(got):
            return 'list-length', want, got
        for a, b in zip(want, got):
            if a != b:
                return first_diff(a, b)
    if isinstance(want, dict) and 'd' in want:
        gd = {json.dumps(k): v for k, v in got['d']}
        for k, v in want['d']:
            kk = json.dumps(k)
            if kk not in gd:
                return 'key', k, [g for g, _ in got['d'] if json.dumps(g) not in {json.dumps(x) for x, _ in want['d']}][:1]
            if gd[kk] != v:
                return first_diff(v, gd[kk])
        if len(want['d']) != len(got['d']):
            return 'dict-size', want, got
    return kind_of(want), want, got


def cause_of(what, a):
    if isinstance(a, str):
        sp = sorted({name for ch, name in SPECIAL.items() if ch in a and name not in ('TAB', 'LF')})
        if sp:
            return 'str-with-' + '+'.join(sp)
        if len(a) > 80 and '  ' in a and '\n' not in a:
            return 'long-str-with-space-run'
    return what


def absorb(res, rec):
    case = rec['case']
    for c in rec.get('counts', []):
        res.count(c)
    if rec.get('skipped'):
        return
    if rec.get('hypothesis'):
        res.count('third-party-codec-non-roundtrip:' + case['format'])
        res.extra.setdefault('codec_hypothesis_failures', [])
        if len(res.extra['codec_hypothesis_failures']) < 10:
            res.extra['codec_hypothesis_failures'].append(rec['hypothesis'])
        return
    if 'reject' in rec:
        return
    res.case(case)
    if rec.get('timeout'):
        res.violation(case, f"{case['flow']} {case.get('format')}: the steps did not return: {rec['timeout']}",
                      signature={'flow': case['flow'], 'format': case.get('format'), 'cause': 'does-not-terminate'},
                      impl={'end': 'timeout'})
        return
    if 'mismatch' in rec:
        res.mismatch(case, rec.get('model'), rec.get('impl'), rec['mismatch'])
    for pr in (rec.get('session_problems') or [])[:3]:
        tags = [f"{o['kind']}:{o['format']}" + (':' + o['reader'] if o.get('reader') else '') for o in case['ops']]
        where = f"session {tags}, operation {pr['op']} ({pr['kind']} {pr['format']}" + \
                (f", read by the {'file context parser' if pr.get('reader') == 'parser' else 'fetch step'}" if pr.get('reader') else '') + ')'
        if pr['clause'] == 'history-dependent':
            detail = (f"{where}: in the session it observed {json.dumps(pr['got'])[:300]}, the same operation in a fresh "
                      f"process observes {json.dumps(pr['want'])[:300]}; earlier operations: {pr['earlier']}")
            sig = {'flow': 'session', 'format': pr['format'], 'cause': 'result-depends-on-earlier-operations',
                   'op': pr['kind'] + ('/' + pr['reader'] if pr.get('reader') else '')}
        elif pr['clause'] in ('abnormal-end', 'format-raised'):
            detail = f"{where}: ended abnormally: {json.dumps(pr['got'])[:300]}"
            sig = {'flow': 'session', 'format': pr['format'], 'cause': pr['clause'], 'op': pr['kind']}
        else:
            want = pr['want']
            got = pr['got']['read'].get('ok') if pr['clause'] == 'roundtrip' and isinstance(pr['got'].get('read'), dict) else pr['got']
            if pr['clause'] == 'roundtrip' and not isinstance(pr['got'].get('read'), dict):
                what, a, b = 'read-raised', want, pr['got']
            else:
                what, a, b = first_diff(want, got)
            cause = pr.get('cause') or cause_of(what, a)
            detail = (f"{where}" + (f", file {pr['file']}" if pr.get('file') else '') + ': ' +
                      ('value read back differs from the formatted payload' if pr['clause'] == 'roundtrip'
                       else 'output document differs from the source with every string node formatted') +
                      f" at a {what} node: wanted {json.dumps(a)[:160]}, got {json.dumps(b)[:160]}")
            sig = {'flow': 'session', 'format': pr['format'], 'cause': cause, 'op': pr['kind']}
        res.violation(case, detail, signature=sig, impl={'problem': pr})
    mon = rec.get('monitor')
    if mon is not None and not mon['holds']:
        flow = case['flow']
        if mon.get('via') == 'fetch-raised':
            top = kind_of(mon['want'])
            cause = 'fetch-raised-on-top-level-' + top
            detail = (f"writefetch {case['format']}: the payload was written but the fetch step raised "
                      f"{mon['got'].get('raised')}: {mon['got'].get('msg')} (top-level {top}, destination key given)")
            a = mon['want']
        else:
            if isinstance(mon['got'], dict) and 'unreadable' in mon['got']:
                what, a, b = 'unreadable', mon['want'], mon['got']
            else:
                what, a, b = first_diff(mon['want'], mon['got'])
            cause = cause_of(what, a)
            detail = (f"{flow} {case['format']}: " +
                      ('value read back differs from the formatted payload' if flow == 'writefetch'
                       else 'output document differs from the source with every string node formatted') +
                      f" at a {what} node: wanted {json.dumps(a)[:160]}, got {json.dumps(b)[:160]}")
        sig = {'flow': flow, 'format': case['format'], 'cause': cause}
        if case.get('encopts') is not None:
            e_in, e_out = I.enc_in_out(case['encopts'])
            sig.update(route=case['route'], encodings=f'in={e_in},out={e_out}')
            detail += f" [route {case['route']}, options {case['encopts']}: read as {e_in}, to be written as {e_out}]"
        res.violation(case, detail, signature=sig,
                      impl={'want': mon['want'], 'got': mon['got'], 'via': mon.get('via')})


def build_cases(env):
    rng = env.rng
    cases = []
    # ---- directed
    for fmt in ('json', 'yaml', 'toml'):
        dps = directed_payloads(fmt)
        for i, p in enumerate(dps):
            if fmt == 'toml' and not isinstance(p, dict):
                continue
            cases.append(writefetch_case(fmt, p, VARIANTS[i % 2] if isinstance(p, dict) else 'key'))
            cases.append(fileformat_case(fmt, p, inplace=(i % 2 == 0)))
        # every variant on a few payloads
        for v in VARIANTS:
            for p in dps[:3] + dps[-6:]:
                if (fmt == 'toml' or v in ('root', 'emptykey', 'string')) and not isinstance(p, dict):
                    continue
                cases.append(writefetch_case(fmt, p, v))
        # negatives: not representable
        if fmt == 'toml':
            cases.append(writefetch_case(fmt, {'a': None}, 'key'))
            cases.append(writefetch_case(fmt, {}, 'key'))
        cases.append(writefetch_case(fmt, [1, 2], 'root'))
        # encodings
        if fmt != 'toml':
            for e in ('utf-8', 'utf-16', 'latin-1'):
                for p in dps:
                    if isinstance(p, dict) and not has_char_outside(p, e) and not has_char_outside(CTXV['ku'], e):
                        cases.append(writefetch_case(fmt, p, 'key', e))
                for p in dps[:40]:
                    if e == 'latin-1' and (has_char_outside(p, e)):
                        continue
                    # ku formats to non-latin-1 characters: skip payloads referencing it there
                    if e == 'latin-1' and 'ku' in json.dumps(enc(p)):
                        continue
                    cases.append(writefetch_case(fmt, p, 'key', e))
                    cases.append(fileformat_case(fmt, p, True, e))
    # ---- encoding options x route, for the ObjectRewriter steps that take encodings (json, yaml)
    for fmt in ('json', 'yaml'):
        for eo in ENCOPTS:
            for route in ROUTES:
                for d in ENC_DOCS:
                    if all(not has_char_outside(d, e) for e in I.enc_in_out(eo)):
                        cases.append(fileformat_case(fmt, d, route != 'out', None, eo, route))
    # ---- sessions
    cases += directed_sessions()
    n_directed = len(cases)
    for _ in range(env.n(40, 1500)):
        cases.append(random_session(rng))
    for i in range(env.n(30, 3000)):
        fmt = ('json', 'yaml')[i % 2]
        eo = rng.choice(ENCOPTS)
        d = gen_doc(rng, fmt, rng.choice([1, 2, 3]), top=True)
        ei, eo_ = I.enc_in_out(eo)
        if any(has_char_outside(d, e) or has_char_outside(CTXV['ku'], e) for e in (ei, eo_)):
            d = rng.choice(ENC_DOCS[:1])
        cases.append(fileformat_case(fmt, d, True, None, eo, rng.choice(ROUTES)))
    # ---- random
    n_rand = env.n(260, 26000)
    for i in range(n_rand):
        fmt = ('json', 'yaml', 'toml')[i % 3]
        p = gen_doc(rng, fmt, rng.choice([1, 2, 2, 3, 4]), top=True)
        if i % 2 == 0:
            v = rng.choice(VARIANTS)
            if v in ('root', 'emptykey', 'string') and not isinstance(p, dict):
                v = 'key'
            cases.append(writefetch_case(fmt, p, v))
        else:
            cases.append(fileformat_case(fmt, p, rng.random() < 0.5))
    # ---- JSON printer / parser
    jdocs = [p for p in directed_payloads('json')]
    for _ in range(env.n(60, 2500)):
        jdocs.append(gen_doc(rng, 'json', rng.choice([1, 2, 3, 5]), top=rng.random() < 0.7))
    # printer/parser see documents as they are (no formatting): any string is fine
    for d in jdocs:
        cases.append({'flow': 'jsonprint', 'doc': enc(d)})
    for t in json_texts(rng, [d for d in jdocs if not contains_float_or_odd(d)][:env.n(40, 1500)], env.n(400, 0)):
        cases.append({'flow': 'jsonparse', 'text': t, 'maybe_float': any(c in t for c in '.eE')})
    return cases, n_directed


def run(env, res):
    res.rule = ('directed: every catalogue string (type look-alikes, spaces, multi-line, non-ASCII, control chars, braces, '
                'formatting expressions) as value and as key, all scalar kinds, empties, deep nesting, colliding keys, '
                'each through write->fetch (key/root/empty key/string input/whole context), the file context parser and '
                'fileformat (in place / out), x json|yaml|toml x encodings; random: nested payloads of depth <= 4; '
                'JSON printer vs json.dumps byte-for-byte and parser vs json.loads on printed/re-spaced/escaped/'
                'corrupted texts. Encoding family: fileformat{json,yaml} x 12 combinations of encoding/encodingIn/'
                "encodingOut x route {no out, out another file, out equal to in, out ''} x non-ASCII documents: the target "
                'must decode with the OUT encoding and parse to the formatted source. Sessions (one process each): directed - '
                'every source file with %YAML 1.1 / %YAML 1.2 / %TAG directives, tags, anchors read by fetchyaml / the yamlfile '
                'parser / fileformatyaml (alone, first or last of an `in` list, in place / to an out dir), followed by write->'
                'fetch and write->parser round trips of YAML-1.1 look-alike strings (yes/no/on/off/y/n, 12:30:00, 0777, ...) '
                'as values and keys; 1.1/1.2 interleavings; json and toml sessions; formats interleaved; random sessions of '
                '2-4 operations. Every operation is also run alone in a fresh process. non-trivial = every case (distinct '
                'canonical input)')
    cases, n_directed = build_cases(env)
    res.extra['directed_cases'] = n_directed
    recs = run_all(env, cases, env.n(6, 14))
    for r in recs:
        absorb(res, r)


def replay(env, res, payload):
    case = payload.get('case')
    if case is None and payload.get('first_diverging_case'):
        case = payload['first_diverging_case'].get('case')
    if case is None:
        case = payload
    cwd = os.getcwd()
    d = tempfile.mkdtemp(prefix='verif-c16-')
    os.chdir(d)
    try:
        absorb(res, guarded_case(env.driver, case))
    finally:
        _close_zygote()
        os.chdir(cwd)
        shutil.rmtree(d, ignore_errors=True)
