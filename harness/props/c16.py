"""C16 — structured file steps round-trip and format every string node.

Model: lean/PypyrModel/Codec.lean (document trees, fmtDoc, the write/fetch/fileformat glue over an
abstract codec, and the JSON printer/parser written out); theorems: lean/Props/C16.lean.

Flows (each case goes through the real steps AND the model):
  writefetch  filewrite{json,yaml,toml} then fetch{json,yaml,toml} (key / root merge / plain-string
              input / whole-context payload / encodings: the same `encoding` entry on both steps, ANOTHER one
              on the fetch step, a config.default_encoding), plus the file context parser on the same file
              (whatever the write encoding: the model says whether it reads the file back);
              for JSON the bytes of the written file are compared with the Lean printer. A write the
              serialiser refuses is compared on the exact exception class (per format and cause).
  parser      filewriteX under config.default_encoding D with an `encoding` entry (absent / None / a name),
              then get_parsed_context(args) of the Xfile parser under config.default_encoding D'; args =
              [path] / the path split at its spaces / [] / None / a file that is not there; mapping and
              non-mapping top levels. Model: `fileWriteStored` + `fileParserArgs` (op codec.parser).
  fileformat  fileformat{json,yaml,toml} (in place or to out) on a rendered source document; the
              output is read back with the plain loader of the format.
  jsonprint   Lean printer vs pypyr's JsonRepresenter.dump under config.json_indent in {0,1,2,4,None,-1} x
              config.json_ascii in {False,True} (and vs json.dumps with the same arguments), byte for byte; documents with
              int/bool/None/float keys, floats, non-BMP characters and DEL; parse(print d) vs json.loads(json.dumps d).
  jsonparse   Lean parser vs json.loads on printed, re-spaced, escaped and corrupted texts (ints AND floats compared).
  session     2-4 operations (write->fetch/parser round trip, read of a given source text, fileformat over a list of
              given source texts) in ONE process, and each operation again alone in a FRESH process; the model's
              `runSession` on the same session.
  ctxsession  steps on ONE Context object: files put on disk / written by filewriteX, then fetchX to the context root
              (no key, empty key, plain path string) or into a key, several times; model `runC` (op codec.ctxsession).
  wholectx    filewriteX WITHOUT payload (whole context) with expressions in top-level key names, x 3 formats, read
              back by fetchX and the Xfile parser; vs the explicit-payload path on the same mapping; model `writePayload`.
Monitors (judged on the implementation alone, pypyr's own formatter as oracle for "formatted value"):
  a mapping written by filewriteX and read by the Xfile parser - whose arguments spell the path and whose
  encoding (config default; toml utf-8) is the one the file is in - comes back equal to the formatted payload
  (signature flow=parser). A file written in ANOTHER encoding than the parser reads with is not held against the
  parser (it accepts no encoding option): expected per the model, counted `parser:other-encoding`;
  every operation of a session observes what it observes alone in a fresh process;
  fetch to the root is a top-level update: context[k] == file[k] for every top-level key of the file (whatever the
  context held there; no node of what was read is formatted), every other key unchanged, the step does not raise;
  whole-context write == formatted context (keys included) == explicit payload of the same mapping, in all three formats;
  fetched value == formatted payload (typed equality, dict order ignored);
  parse(fileformat output) == formatter applied to parse(source);
  fileformat, read node by node from the property text (`fileformat_spec_monitors`, primitive: the formatter on ONE string):
  the step must not raise when every string node formats and the formatted document is representable in the format
  (keys that are single expressions resolving to int / bool / None / float next to string keys, any depth); the mapping
  entries of the output are in the ORDER of the source entries (json, yaml entirely; toml within plain entries / within
  tables) - also compared with the model document, ordered; a step that raised leaves the source byte for byte intact and no
  other file behind; the `out` file after a failure (absent / empty / partial) is an observation held against the code's
  order of events (opened before formatting and dumping).
"""
from __future__ import annotations

import json
import os
import re
import shutil
import tempfile

from .. import common
from ..common import enc, dec, canon
from .. import impl_c16 as I

LEAN_MODULES = ['Props.C16']
TRUSTED = [
    'harness/impl_c16.py (step runners, plain loaders, typed/order-insensitive canonicaliser)',
    'harness/props/c16.py (payload generator, JSON text mutator, session generator)',
    'harness/impl_c16.py session helper: a pristine interpreter (`python -m harness.impl_c16`) that has only imported the '
    'tree under test; every session and every single operation runs in a forked child of it (fresh process = fork of '
    'the pristine helper), with a time limit',
    'CPython json; ruamel.yaml; tomli_w/tomllib (as loaders of the files the steps wrote)',
]
ASSUMPTIONS = [
    'YAML (ruamel.yaml) and TOML (tomli_w/tomllib) codecs are third-party: their round trip `dec (enc d) = d` is a '
    'HYPOTHESIS of write_fetch_roundtrip / fileformat_doc_spec and is validated by generation only, not proved',
    'JSON: `Json.parse (Json.print o d) = coerceKeys d` is proved for every indent (int or None) / ensure_ascii setting and '
    'every document json.dump accepts: str/int/float/bool/None keys (written as strings: what comes back is the COERCED '
    'key, so a formatted payload with a non-string key does not read back equal - the monitors expect the coerced '
    'document there), arrays, strings, ints, bools, null and the floats whose repr is their exact decimal expansion '
    '(dyadic n/2^k, at most 15 digits, no exponent form); other floats (0.1, 1e16, 1e-5) go through the real steps and the '
    'value-level model only; -0.0/NaN/Infinity/lone surrogates/indent given as a string are outside. The Lean '
    'printer/parser are tied to json.dump/json.load by correspondence (byte-for-byte / value-for-value)',
    'formatting expressions are those of the basic formatter model ({key}, {{, }}); strings with lone surrogates, '
    'non-string mapping keys merged at context root, YAML anchors/tags/dates/binary, TOML datetimes are outside '
    'the modelled domain',
    'text encodings: the model works on code points; a stored file carries the NAME of the encoding its bytes are in '
    '(`Stored`), reading with another name is an error in the model - used on the positive side only (the output of '
    'fileformat{json,yaml} is in the OUT encoding on every route); utf-8/utf-16/utf-32/latin-1 exercised where every '
    'character is encodable; toml files are binary (no encoding options)',
    'write step / fetch step / file context parser at file level (`fileWriteStored`, `fetchStored`, `fileParserArgs`): '
    'here `Stored.readAs` is used on BOTH sides - same encoding name = the text, another name = UnicodeDecodeError. Real '
    'codecs may decode to garbage instead (latin-1 reads any bytes), read the same text (ASCII-only text in utf-8 / '
    'latin-1; utf-8-sig reads plain utf-8) or differ by a byte-order mark only: the harness decodes the written bytes '
    'with the other encoding and compares "raises or returns something else than what was written" when the difference is '
    'visible, the positive side when the text is the same, nothing when only a BOM differs. `open(encoding=None)` = '
    'platform default, ASSUMED utf-8 (checked at run time: cases are rejected otherwise); encoding names are compared as '
    'strings in the model (canonical names generated); UnicodeEncodeError on write (character outside the encoding) is '
    'not modelled (not generated)',
    'a failed write leaves the target file truncated / partly written on disk; the model leaves the file system as it was '
    '(not observed by the harness)',
    'error class of a refused payload: json TypeError, yaml RepresenterError, toml AttributeError (top level not a '
    'mapping) / TypeError (node inside); payloads with tuples, sets, bytes (which json/ruamel/tomli_w write as something '
    'else) and json mappings with non-string keys (coerced by json.dump) are outside the modelled domain and not generated',
    'STATELESSNESS: in the model a codec is a pair of functions (`Codec.enc`/`Codec.dec`) and `runSession` threads '
    'nothing but the files from one operation to the next, so `RoundTrips` - stated per call - is meaningful. The real '
    'loaders are objects (ruamel.yaml keeps the version of the last %YAML directive on the YAML() instance): that the '
    'steps use them statelessly is an assumption about the implementation, CHECKED by sessions (2-4 operations in one '
    'process; every operation must observe what it observes alone in a fresh process, and the per-operation monitors '
    'must hold inside the session). Known failure on the tree as it is: fileFormatYaml shares one round-trip parser '
    'among the files of one `in` list',
    'steps on ONE context (`runC`, flow ctxsession): the harness calls run_step on one Context object the way '
    'Step.run_pipeline_steps does (the `in` arguments put into the context before the step, popped after it); decorators, '
    'foreach/retry loops themselves are not run (the same fetch is repeated instead). The monitor reads the file with the '
    'plain loader of the format (not pypyr code): "the value in the file" is what that loader returns. Top-level keys '
    'that are not strings (YAML) are outside the modelled context and not generated for root fetches',
    'whole-context write (no `payload`): the expected document is pypyr\'s own formatter applied to a deep copy of the '
    'context as the step sees it (its own input entry included), independently the model\'s `writePayload`; contexts '
    'with TOML-representable values and string keys only (so that the three formats can be compared); key names that '
    'format to non-strings are not generated there',
    'YAML mapping keys whose end falls beyond column 80 (with blanks, < 128 characters) are generated in ONE directed '
    'family only: on the tree as it is the file written is unreadable (open finding long-key-with-spaces-folded-unreadable)',
    'YAML directives (%YAML 1.1 / 1.2, %TAG), tags and anchors appear in session SOURCE files only; such a file stands in '
    'the model for the document the plain safe loader (a fresh instance) reads from it under its own directive',
]

CTXV = {'k1': 'v1', 'k2': 42, 'k3': [1, 'two'], 'k4': {'a': 'b'}, 'k5': 'true', 'k6': ' spaced ', 'kf': 1.5,
        'kb': False, 'ku': 'ü→😀', 'kn': None}

PLAIN = ['', 'true', 'True', 'false', '1', '-1', '1.5', '1e3', 'null', 'Null', 'NULL', '~', 'None', 'yes', 'no',
         'on', 'off', ' lead', 'trail ', '  both  ', 'multi\nline', 'multi\nline\n', '\nstart', 'trailing\n\n',
         'tab\there', '\t', 'ünï', '日本語', '😀', 'é→', 'a: b', '- item', '# comment', 'k: [1, 2]', "it's",
         'say "hi"', 'back\\slash', '0x1F', '0o17', '012', '1_000', '+1', '.5', '.inf', '.nan', '2001-01-01',
         '2001-01-01T00:00:00Z', '12:30:45', '@at', '`tick', '!tag', '&anchor', '*alias', '%percent', '|', '>', '?',
         ':', '-', '[x]', 'a,b', '=', 'key = "v"', '[table]', "'''", '"""', 'cr\rhere', 'crlf\r\nline', '\x00nul',
         '\x1funit', '\x7fdel', 'nel\x85x', 'ls\u2028x', 'bom\ufeffx', 'long ' * 30, 'x' * 200, 'word',
         'two words', '<<', '0', '00', '1.0', '-0', 'Infinity', 'NaN', '\\n', '\\u0041', '/', 'a/b',
         # long text whose only break opportunities are runs of several spaces (line folding of the writers)
         'x' + ' ' * 100 + 'y', 'lead ' + 'w' * 70 + '    ' + 'tail' * 10, ('ab' * 20 + '   ') * 5 + 'end',
         'word ' * 14 + '     five spaces then more ' + 'z' * 30]
# mapping keys longer than the YAML writer's line width with break opportunities (directed families only: see
# `cause_of_unreadable`); 128 characters and more are written as explicit keys
LONG_KEYS = [('word ' * 40)[:79] + 'x', ('word ' * 40)[:80] + 'x', ('word ' * 40)[:99] + 'x', ('lorem ipsum ' * 20)[:119] + 'x', 'é ' + ('word ' * 40)[:97] + 'x']
LONG_KEYS_FINE = [('word ' * 40)[:59] + 'x', 'k' * 100, ('word ' * 40)[:127] + 'x', ('word ' * 60)[:199] + 'x']
BRACE = ['{{braces}}', '{{', '}}', 'a{{b}}c', '{{k1}}', '{{}}', 'j{{"a": 1}}']
EXPR = ['x{k1}', '{k1}', '{k2}', '{k3}', '{k4}', '{k5}', '{k6}', 'n{k2}n', '{k1}{k1}', '{ku}', 'é{ku}', '{kf}',
        '{kb}', 'x{k3}', '{kn}']
KEYS = ['a', 'b', 'key', '', 'true', '1', 'null', ' spaced ', 'ü', 'a.b', 'a b', 'k{{x}}', 'k{k1}', 'dash-ed',
        'under_score', '日本', '"q"', "it's", 'multi\nline', '#h', 'x:y', '[k]', 'A', '0', 'é{ku}', '😀']
INTS = [0, 1, -1, 7, 42, -300, 2 ** 31, 2 ** 63 - 1, -2 ** 63, 10 ** 30, 123456789012345678901234567890]
FLOATS = [0.5, -2.25, 1.0, 0.0, 100.0, 1e10, 3.125, -0.0009765625, 65536.5]
# JSON only ------------------------------------------------------------------------------------------------------
# floats whose repr is NOT their exact short decimal expansion (outside `fltOk`): real steps + value-level model only
FLOATS_OUT = [0.1, 1e16, 1e-05, 2.0 ** -14, 1 / 3, 123456789.12345679, 5e-324, 1.7976931348623157e308]
FLOATS_IN = FLOATS + [-1.0, 1.5, 0.0001220703125, 99999999999999.5, 999999999999999.0, 0.75, -1024.0625, 4503599627370496.0 / 2 ** 13]
# non-BMP, DEL, the code points around the surrogate block, the last code point
JSON_STR = ['𝄞', 'a\U0001F600b\x7f', '\U0010ffff', '\ud7ff\ue000', '\uffff', '\x7f', '\x80\x9f', '~\x7f\x80',
            '😀𝄞\x7f{k1}', '\U00010000', 'é\u2028"\\/\b\f']
# keys json.dump coerces to strings; key expressions that FORMAT to such keys (k2 = 42, kb = False, kn = None, kf = 1.5)
JSON_KEYS_NONSTR = [42, -5, 0, True, False, None, 1.5, -0.25, 10 ** 20]
JSON_KEY_EXPR = ['{k2}', '{kb}', '{kn}', '{kf}']
KEY_FORMATS_TO = {'{k2}': 42, '{kb}': False, '{kn}': None, '{kf}': 1.5}
# (config.json_indent, config.json_ascii); 'none' = json_indent None; -1 prints like 0
JSON_CFG = [(2, False), (0, False), (1, True), (4, True), (2, True), (0, True), ('none', False), ('none', True),
            (-1, False), (4, False), (1, False)]


# --------------------------------------------------------------------------
# generators
# --------------------------------------------------------------------------

def gen_str(rng, exprs=True):
    r = rng.random()
    if r < 0.6:
        return rng.choice(PLAIN)
    if r < 0.7:
        return rng.choice(BRACE)
    if r < 0.9 and exprs:
        return rng.choice(EXPR)
    n = rng.randrange(0, 6)
    return ''.join(rng.choice('ab Z9é→😀\n\t"\\\'#:-,') for _ in range(n))


def gen_scalar(rng, fmt):
    r = rng.random()
    if r < 0.55:
        if fmt == 'json' and r < 0.05:
            return rng.choice(JSON_STR)
        return gen_str(rng)
    if r < 0.72:
        return rng.choice(INTS)
    if r < 0.82:
        if fmt == 'json':
            return rng.choice(FLOATS_OUT) if r < 0.735 else rng.choice(FLOATS_IN)
        return rng.choice(FLOATS)
    if r < 0.92 or fmt == 'toml':
        return rng.random() < 0.5
    return None


def gen_key(rng, fmt, used, nonstr=False, keyexpr=False):
    for _ in range(20):
        k = rng.choice(KEYS)
        if fmt == 'yaml' and rng.random() < 0.08:
            k = rng.choice([1, 0, -5, 12])
        if fmt == 'json':
            r = rng.random()
            if r < 0.03:
                k = rng.choice(JSON_STR)
            elif r < 0.06 and keyexpr:
                k = rng.choice(JSON_KEY_EXPR)                # expressions formatting to int/bool/None/float keys
            elif r < 0.12 and nonstr:
                k = rng.choice(JSON_KEYS_NONSTR)
        # Python compares keys across types (0 == False, 1 == True == 1.0): a mapping whose FORMATTED keys collide that
        # way is one entry in Python and two in the shared formatter model (Val equality) - not generated
        fk = KEY_FORMATS_TO.get(k, k) if isinstance(k, str) else k
        if k not in used and fk not in used:
            used.add(k)
            used.add(fk)
            return k
    k = f'k{len(used)}'
    used.add(k)
    return k


def gen_doc(rng, fmt, depth, top=False, nonstr=False, keyexpr=False):
    r = rng.random()
    if top and (fmt == 'toml' or r < 0.75):
        kind = 'dict'
    elif depth <= 0 or r < 0.45:
        if not top:
            return gen_scalar(rng, fmt)
        kind = 'list'
    else:
        kind = 'dict' if r < 0.75 else 'list'
    n = rng.choice([0, 1, 2, 2, 3, 3, 4, 6])
    if kind == 'list':
        return [gen_doc(rng, fmt, depth - 1, nonstr=nonstr, keyexpr=keyexpr) for _ in range(n)]
    used = set()
    out = {}
    for _ in range(n):
        k = gen_key(rng, fmt, used, nonstr, keyexpr)
        if top and not isinstance(k, str) and fmt != 'json':
            k = f'k{k}'
        out[k] = gen_doc(rng, fmt, depth - 1, nonstr=nonstr, keyexpr=keyexpr)
    return out


def json_directed_payloads():
    """JSON only: keys json.dump coerces (raw, and as expressions that format to them), colliding after coercion,
    floats, non-BMP characters / DEL as values and keys. (payload, raw non-string keys inside?)"""
    out = []
    for s in JSON_STR:
        out.append(({'v': s, s: [s, {s: 'x{k1}'}]}, False))
    out.append(({'floats': FLOATS_IN, 'neg': [-0.5, -100.0], 'f': {'x': 0.5}}, False))
    out.append(({'floats-out': FLOATS_OUT}, False))
    # expressions as keys: fileformat sources can carry them (the source keys are strings)
    out.append(({'{k2}': 'int key', 'n': {'{kb}': 1, '{kn}': [2], '{kf}': 'f', 'plain': '{k2}'}}, False))
    out.append(({'{k2}': 'a', '42': 'b'}, False))                 # collide after coercion: first position, last value
    out.append(({'42': 'b', '{k2}': 'a', 'l': [{'{kn}': 1, 'null': 2, 'z': 3}]}, False))
    out.append(({'{kb}': {'{kb}': {'{kb}': 'deep'}}, 'False': 'py spelling', 'false': 'json spelling'}, False))
    out.append(({'{kf}': 1.5, '1.5': '{kf}'}, False))
    # raw non-string keys (writefetch only)
    out.append(({'m': {42: 'x', True: 'y', None: 'z', 1.5: 'w', -5: [{0: 0}]}}, True))
    out.append(({'m': {1: 'a', '1': 'b'}, 'r': {'1': 'b', 1: 'a'}, 'big': {10 ** 20: 1, -0.25: 2}}, True))
    out.append(({'m': {False: 'py False', 'false': 'str', 'False': 'other', None: 1, 'null': 2, 'None': 3}}, True))
    out.append(({7: 'top-level int key', 'k': 'v{k1}'}, True))
    out.append(([{1: [{2: [{3: 'deep {k1}'}]}]}], True))
    return out


def keyexpr_docs(fmt):
    """Source documents whose keys include single expressions that resolve to non-strings ({k2} -> 42, {kb} -> False,
    {kn} -> None, {kf} -> 1.5) next to ordinary string keys - first, last and in the middle of UNSORTED entries, at the
    top level, at depth 1-3 and inside a list."""
    out = []
    exprs = [e for e in JSON_KEY_EXPR if not (fmt == 'toml' and e == '{kn}')]
    for e in exprs:
        out.append({e: 'v', 'plain': 'x{k1}'})
        out.append({'plain': 1, e: [1, 'two {k1}']})
        out.append({'z': 1, e: 2, 'a': 3, 'm': {'z': 'x{k1}', 'a': 2}})
        out.append({'top': 'hello {k1}', 'lvl1': {'lvl2': {'lvl3': {'name': 'n {k1}', e: 'deep', 'list': ['{k2}', 'x{k2}', 1.5, True]}}}})
        out.append({'l': [{'s': 1, e: 2}, {'b': 'x', 'a': 'y'}], 'after': '{k1}'})
    out.append({'{k2}': 1, 'b': 2, '{kb}': 3, 'a': 4, '{kf}': 5})
    out.append({'zeta': 1, 'alpha': {'zz': 1, 'aa': 2, 'mm': [{'z': 1, 'a': 2}]}, 'mid': 'x{k1}', 'beta': 2})      # order only
    out.append({'k{k1}': 'z', 'b': 1, 'a': 2, 'kv1': 'same key after formatting: first position, last value'})
    return out


def has_char_outside(v, encoding):
    if isinstance(v, str):
        try:
            v.encode(encoding)
            return False
        except UnicodeEncodeError:
            return True
    if isinstance(v, dict):
        return any(has_char_outside(k, encoding) or has_char_outside(x, encoding) for k, x in v.items())
    if isinstance(v, list):
        return any(has_char_outside(x, encoding) for x in v)
    return False


def directed_payloads(fmt):
    """Every catalogue string as a value and as a key, every scalar kind, nesting, empties."""
    out = []
    none = [] if fmt == 'toml' else [None]
    for s in PLAIN + BRACE + EXPR:
        out.append({'v': s, 'l': [s, [s]], 'n': {'deep': {'er': s}}})
    for k in KEYS:
        out.append({k: 'value', 'nest': {k: [k]}})
    out.append({'ints': INTS, 'floats': FLOATS, 'bools': [True, False], 'mix': [1, 'one', True, 1.0, '1', 'true'] + none})
    out.append({'e': {}, 'l': [], 'll': [[], [[]]], 'ld': [{}, {'a': []}]})
    out.append({'a': {'b': {'c': {'d': {'e': {'f': ['deep', {'g': 'x{k1}'}]}}}}}})
    out.append({'t': [{'a': 1}, {'a': 2, 'b': 'x'}], 'u': [[1, 2], ['a', 'b']]})
    out.append({'z': 1, 'a': 2, 'm': {'z': 1, 'a': 2}})
    if fmt != 'toml':
        out.append(['top', 'level', 'list', {'k': 'v{k1}'}])
        out.append('just a string {k1}')
        out.append(42)
        out.append({'n': None, 'ln': [None, None], 'k': '{kn}'})
        out.append({'true': True, 'false': False, 'null': None, '1': 1})
    if fmt == 'yaml':
        out.append({'nested': {1: 'int key', 2: ['a'], True: 'bool key'}})
    out.append({})
    out.append({'k{k1}': 1, 'kv1': 2})          # two keys that format to the same string
    return out


# --------------------------------------------------------------------------
# cases
# --------------------------------------------------------------------------

def writefetch_case(fmt, payload, variant, encoding=None, jcfg=None):
    c = {'flow': 'writefetch', 'format': fmt, 'payload': enc(payload), 'variant': variant, 'encoding': encoding}
    if jcfg is not None and fmt == 'json':
        c['jcfg'] = list(jcfg)          # [config.json_indent | 'none', config.json_ascii] for the real steps and the model
    return c


def jcfg_of(case):
    j = case.get('jcfg')
    return (j[0], j[1]) if j else (None, None)


def fileformat_case(fmt, doc, inplace, encoding=None, encopts=None, route=None, jcfg=None):
    c = {'flow': 'fileformat', 'format': fmt, 'doc': enc(doc), 'inplace': inplace, 'encoding': encoding}
    if jcfg is not None and fmt == 'json':
        c['jcfg'] = list(jcfg)
    if encopts is not None:
        # {encoding?, encodingIn?, encodingOut?} x route inplace | out | same | empty
        c['encopts'] = encopts
        c['route'] = route or ('inplace' if inplace else 'out')
        c['inplace'] = c['route'] != 'out'
    return c


VARIANTS = ['key', 'root', 'emptykey', 'string', 'whole']
ENCOPTS = [{'encodingIn': 'utf-16', 'encodingOut': 'utf-8'}, {'encodingIn': 'utf-8', 'encodingOut': 'utf-16'},
           {'encodingIn': 'utf-16'}, {'encodingOut': 'utf-16'}, {'encoding': 'utf-16', 'encodingOut': 'utf-8'},
           {'encoding': 'utf-8', 'encodingIn': 'utf-16'}, {'encodingIn': 'latin-1', 'encodingOut': 'utf-8'},
           {'encodingIn': 'utf-8', 'encodingOut': 'latin-1'}, {'encodingIn': 'utf-32', 'encodingOut': 'utf-16'},
           {'encoding': 'utf-16'}, {'encoding': 'latin-1'}, {'encoding': 'utf-32', 'encodingIn': 'utf-8', 'encodingOut': 'utf-16'}]
ROUTES = ['inplace', 'out', 'same', 'empty']
# non-ASCII content every encoding below can hold (latin-1 included), so that reading with another encoding shows
PARSER_DOCS = [{'título': 'Señor {k1}', 'größe': [1, 2.5, True, 'naïve {k1}', 'ünï'], 'nested': {'e': 'é', 'n': 42, 'plain': 'true'}},
               {'a': 'é', 'k{k1}': {'ü': ['ñ', 1, 'x y']}, '1': 'ß'}]
W_ENCS = ['<absent>', None, 'utf-8', 'utf-16', 'latin-1', 'utf-8-sig']     # the write step's `encoding` entry
D_ENCS = [None, 'utf-8', 'utf-16', 'latin-1']                               # config.default_encoding
ENC_DOCS = [{'título': 'Señor {k1}', 'k{k1}-größe': [1, 2.5, True, 'naïve {k1}', 'ünï'], 'nested': {'e': 'é', 'n': 42, 'plain': 'true'}},
            {'emoji': '😀 {ku}', '日本': ['語', {'k': 'é→{k1}'}], 'n': 1}]


def model_ctx(fmt, case):
    """(ctx for the write step, ctx2 for the fetch step) as Python dicts — both sides use these."""
    wkey, fkey = I.WRITE[fmt][1], I.FETCH[fmt][1]
    path = 'out/f.' + fmt
    variant = case['variant']
    payload = dec(case['payload'])
    ctx = dict(CTXV)
    if fmt == 'toml':
        del ctx['kn']
    cfg = {'path': path}
    if variant != 'whole':
        cfg['payload'] = payload
    else:
        ctx['data'] = payload
    if case.get('encoding') and fmt != 'toml':
        cfg['encoding'] = case['encoding']
    ctx[wkey] = cfg
    ctx2 = {'pre': 'kept', 'a': 'overwritten?'}
    if variant == 'string':
        ctx2[fkey] = path
    else:
        f = {'path': path}
        if variant in ('key', 'whole'):
            f['key'] = 'out'
        elif variant == 'emptykey':
            f['key'] = ''
        fe = case.get('fenc', case.get('encoding'))      # `fenc`: the fetch step is given ANOTHER encoding
        if fe and fmt != 'toml':
            f['encoding'] = fe
        ctx2[fkey] = f
    return ctx, ctx2, path


EXACT_ERRORS = {'TypeError', 'AttributeError', 'AssertionError', 'FileNotFoundError',
                'ruamel.yaml.representer.RepresenterError'}


def err_class(name, exact=False):
    """The class of an error as compared between model and implementation. pypyr's own errors: always the exact
    class. `exact`: also the classes the model distinguishes by cause — the serialiser's refusal of a payload
    (json TypeError / ruamel RepresenterError / tomli_w AttributeError for a non-mapping top level, TypeError for a
    node inside), the parsers' AssertionError / TypeError / FileNotFoundError. Loader-level errors (JSONDecodeError,
    ruamel's scanner/reader errors, TOMLDecodeError, UnicodeDecodeError): only "it raised"."""
    if name is None:
        return None
    if name.startswith('pypyr.'):
        return name
    if exact and name in EXACT_ERRORS:
        return name
    return 'error'          # loader level: only "it raised" is compared


def visible_difference(raw, text, other_enc):
    """How reading the bytes `raw` (which hold `text`) with `other_enc` compares with reading them with the encoding
    they were written in: 'visible' — the decode raises or gives another text; 'same' — the very same text (ASCII-only
    text in utf-8 / latin-1, utf-8-sig reading plain utf-8, ...); 'bom' — the same text but for a byte-order mark at
    the start (a utf-8-sig file read as utf-8: json.load refuses the mark, ruamel skips it). The model's
    `Stored.readAs` is idealised (another encoding NAME = UnicodeDecodeError): 'visible' pairs are compared on the
    negative side ("raises, or returns something else than what was written"), 'same' pairs on the positive side,
    'bom' pairs not at all."""
    try:
        other = raw.decode(other_enc)
    except (UnicodeError, LookupError):
        return 'visible'
    if other == text:
        return 'same'
    return 'bom' if other.lstrip('\ufeff') == text.lstrip('\ufeff') else 'visible'


def compare_parser(rec, pm, pr, raw, text, penc, written):
    """Model (`codec.parser`, file level) vs the real file context parser. `pm`: the model's answer {'parser': …,
    'parserEnc': …, 'write': …}; `pr`: the implementation's {'ok'|'none'|'err'}; `written`: the canonical wire
    document the write step serialised (None when there was no write). Fills rec['mismatch'] on a difference."""
    mp = pm['parser']
    if 'ok' in pr:
        pimpl = {'ok': I.sort_wire(pr['ok'])}
    elif 'none' in pr:
        pimpl = {'none': True}
    else:
        pimpl = {'err': err_class(pr['err'], exact=True)}
    if 'ok' in mp:
        pmodel = {'ok': I.sort_wire(mp['ok'])}
    elif 'none' in mp:
        pmodel = {'none': True}
    elif mp['err']['name'] == 'UnicodeDecodeError':
        # the file is stored in another encoding than the parser reads with: the negative side of
        # parser_roundtrip_iff_encoding = "raises, or returns something else than what was written"
        rec['counts'].append('parser:other-encoding')
        vis = visible_difference(raw, text, penc) if raw is not None and text is not None else 'visible'
        if vis == 'same':
            rec['counts'].append('parser:other-encoding-same-text')
            pmodel = {'ok': written}
        elif vis == 'bom':
            rec['counts'].append('parser:other-encoding-bom-only')
            pmodel = pimpl
        else:
            pmodel = {'not-read-back': True}
            if 'err' in pr or 'none' in pr or pimpl.get('ok') != written:
                pimpl = {'not-read-back': True}
    else:
        pmodel = {'err': err_class(mp['err']['name'], exact=True)}
    rec['counts'].append('parser:' + next(iter(pmodel)))
    if pmodel != pimpl:
        rec['mismatch'] = (rec.get('mismatch', '') + '; file context parser differs').strip('; ')
        rec['model'] = dict(rec.get('model') or {}, parser=pmodel)
        rec['impl'] = dict(rec.get('impl') or {}, parser=pimpl, parser_detail=pr if 'err' in pr else None)
    return pmodel, pimpl


def run_writefetch(drv, case):
    fmt = case['format']
    ctx, ctx2, path = model_ctx(fmt, case)
    wkey, fkey = I.WRITE[fmt][1], I.FETCH[fmt][1]
    dflt = case.get('dflt')                 # config.default_encoding while the case runs (None = not set)
    wenc = 'utf-8' if fmt == 'toml' else (case.get('encoding') or dflt or 'utf-8')
    fenc = 'utf-8' if fmt == 'toml' else (case.get('fenc', case.get('encoding')) or dflt or 'utf-8')
    rec = {'case': case, 'counts': ['flow:writefetch', 'fmt:' + fmt, 'variant:' + case['variant'],
                                    'enc:' + str(case.get('encoding'))]}
    if 'fenc' in case or dflt:
        rec['counts'].append(f'wf-enc:write={wenc},fetch={fenc},default={dflt}')
    jind, jasc = jcfg_of(case)
    if case.get('jcfg'):
        rec['counts'].append(f'jcfg:indent={jind},ascii={jasc}')
    # ---- model
    try:
        m = drv.ask('codec.writefetch', format=fmt, ctx=enc(ctx), ctx2=enc(ctx2), dflt=dflt)
    except common.Reject as e:
        rec['reject'] = str(e)
        rec['counts'].append('rejected')
        return rec
    fetch_other = False
    if 'err' in m['write']:
        model = {'write': {'err': err_class(m['write']['err']['name'], exact=True)}}
    else:
        model = {'write': 'ok', 'payload': I.sort_wire(m['write']['ok'][0][1])}
        f = m['fetch']
        if 'ok' in f:
            model['fetch'] = {'ok': I.sort_wire(f['ok'])}
        elif f['err']['name'] == 'UnicodeDecodeError':
            fetch_other = True              # the fetch step was given another encoding than the write step
            model['fetch'] = {'not-read-back': True}
        else:
            model['fetch'] = {'err': err_class(f['err']['name'], exact=True)}
    # ---- implementation
    I.clean_dir()
    with I.json_config(jind, jasc):
        w = I.run_write_cfg(fmt, {k: v for k, v in ctx.items() if k != wkey}, ctx[wkey], dflt)
    impl = {}
    text = raw = None
    if 'err' in w:
        impl['write'] = {'err': err_class(w['err'], exact=True)}
        rec['impl_detail'] = w
        rec['counts'].append('write-error:' + fmt + ':' + w['err'])
    else:
        impl['write'] = 'ok'
        r = I.run_fetch_cfg(fmt, {k: v for k, v in ctx2.items() if k != fkey}, ctx2[fkey], dflt)
        impl['fetch'] = {'ok': I.sort_wire(r['ok'])} if 'ok' in r else {'err': err_class(r['err'], exact=True)}
        if 'err' in r:
            rec['impl_detail'] = r
        # the value the fetch step stored (what the property talks about)
        try:
            with open(path, 'rb') as fh:
                raw = fh.read()
            text = raw.decode(wenc)
            impl['payload'] = I.sort_wire(enc(I.plain(I.load(fmt, text))))
        except Exception as e:
            impl['payload'] = {'unreadable': type(e).__name__}
        if fetch_other:
            if text is not None and visible_difference(raw, text, fenc) != 'visible':
                # the same bytes under both encoding names (ASCII-only text in utf-8 / latin-1, ...): outside the
                # idealisation of `readAs`; the fetch side is not compared on this case
                rec['counts'].append('fetch:other-encoding-same-bytes')
                model['fetch'] = impl['fetch']
            else:
                rec['counts'].append('fetch:other-encoding')
                if 'err' in r or not _fetched_equals(impl['fetch'].get('ok'), case, model['payload']):
                    impl['fetch'] = {'not-read-back': True}
    rec['model'], rec['impl'] = model, impl
    # the model's round trip rests on the hypothesis dec (enc d) = d for the third-party codec: check it directly
    hyp = True
    if fmt != 'json' and 'payload' in model:
        hyp = I.third_party_roundtrip(fmt, dec(m['write']['ok'][0][1]))
        if hyp is False:
            rec['counts'].append('codec-hypothesis-false:' + fmt)
    if model != impl and hyp is not False:
        rec['mismatch'] = 'observations differ'
    rec['counts'].append('write:' + ('ok' if impl['write'] == 'ok' else 'err'))
    # ---- JSON: bytes of the file vs the Lean printer (on the payload the model's write step hands to the serialiser,
    #      keys NOT yet coerced, under the same indent / ensure_ascii), the Lean parser on the file, and the codec
    #      identity parse(print d) = coerceKeys d against what the model's fetch stored
    if fmt == 'json' and text is not None and 'payload' in model and 'write' in m and 'ok' in m['write']:
        try:
            wp = drv.ask('codec.write', format=fmt, ctx=enc(ctx)).get('ok', {}).get('payload')
            if wp is None:
                raise common.Reject('write op gave no payload')
            jp = drv.ask('codec.jsonprint', doc=wp, **I.model_json_opts(jind, jasc))
            t = jp['text']
            rec['counts'].append('jsonbytes')
            if t != text:
                rec['mismatch'] = (rec.get('mismatch', '') + '; Lean JSON printer differs from the file written').strip('; ')
                rec['model'] = dict(model, text=t)
                rec['impl'] = dict(impl, text=text)
            if I.sort_wire(jp['coerced']) != model['payload']:
                rec['mismatch'] = (rec.get('mismatch', '') + '; coerceKeys differs from what the model stored').strip('; ')
            p = drv.ask('codec.jsonparse', text=text)
            if 'ok' in p:
                rec['counts'].append('jsonbytes-parsed')
                if I.sort_wire(p['ok']) != impl.get('payload'):
                    rec['mismatch'] = (rec.get('mismatch', '') + '; Lean JSON parser differs from json.load on the file').strip('; ')
                if p['ok'] != jp['coerced']:
                    rec['mismatch'] = (rec.get('mismatch', '') + '; Lean parse(file) != coerceKeys(payload)').strip('; ')
            else:
                rec['mismatch'] = (rec.get('mismatch', '') + '; Lean JSON parser declines the file written: ' + next(iter(p))).strip('; ')
        except common.Reject:
            rec['counts'].append('jsonbytes-rejected')
    # ---- monitor: fetched value == formatted payload (pypyr's own formatter as oracle); it speaks of a fetch step
    #      that reads with the encoding the write step wrote in
    agree = I.canonical_encoding(wenc) == I.canonical_encoding(fenc)
    if not agree:
        pass
    elif impl['write'] == 'ok' and 'ok' in impl.get('fetch', {}):
        whole = case['variant'] == 'whole'
        want = I.real_format(ctx, dict(ctx) if whole else dec(case['payload']), fmt)
        if fmt == 'json' and 'ok' in want:
            plain_want = I.real_format(ctx, dict(ctx) if whole else dec(case['payload']))
            if plain_want != want:
                rec['counts'].append('json-keys-coerced')
        if 'ok' in want:
            want_w = I.sort_wire(want['ok'])
            got_ctx = dict((json.dumps(k), v) for k, v in impl['fetch']['ok']['d'])
            if case['variant'] in ('key', 'whole'):
                got = got_ctx.get(json.dumps('out'), {'missing': True})
                ok = got == want_w
            else:
                # merged at root: every entry of the formatted mapping is in the context
                ok = 'd' in want_w and all(got_ctx.get(json.dumps(k), {'missing': True}) == v
                                            for k, v in want_w['d'])
                got = impl['fetch']['ok']
            rec['monitor'] = {'holds': ok, 'want': want_w, 'got': got}
    elif impl['write'] == 'ok' and 'err' in impl.get('fetch', {}):
        # the payload was written and the fetch step raised: with a destination key whatever the top level is; without
        # one when the formatted payload is a mapping with string keys (that is what can be merged at the root)
        want = I.real_format(ctx, dict(ctx) if case['variant'] == 'whole' else dec(case['payload']), fmt)
        wv = dec(want['ok']) if 'ok' in want else None
        if 'ok' in want and (case['variant'] in ('key', 'whole') or
                             (isinstance(wv, dict) and all(isinstance(k, str) for k in wv))):
            rec['monitor'] = {'holds': False, 'want': I.sort_wire(want['ok']),
                              'got': {'raised': rec.get('impl_detail', {}).get('err'),
                                      'msg': rec.get('impl_detail', {}).get('msg')}, 'via': 'fetch-raised'}
    # ---- file context parser on the same file (it reads with config.default_encoding, whatever the write step's
    #      `encoding` was: the model says which of the two sides of parser_roundtrip_iff_encoding this is)
    if impl['write'] == 'ok' and hyp is not False and text is not None:
        pr = I.run_parser_args(fmt, [path], dflt)
        penc = 'utf-8' if fmt == 'toml' else (dflt or 'utf-8')
        try:
            pm = drv.ask('codec.parser', format=fmt, ctx=enc(ctx), args=[path], dflt=dflt)
            compare_parser(rec, pm, pr, raw, text, penc, model.get('payload'))
            if 'ok' in pr and rec.get('monitor', {}).get('holds') and case['variant'] in ('key', 'whole') \
                    and I.canonical_encoding(wenc) == I.canonical_encoding(penc) \
                    and isinstance(rec['monitor']['want'], dict) and 'd' in rec['monitor']['want']:
                if I.sort_wire(pr['ok']) != rec['monitor']['want']:
                    rec['monitor'] = {'holds': False, 'want': rec['monitor']['want'], 'got': I.sort_wire(pr['ok']),
                                      'via': 'parser'}
        except common.Reject:
            rec['counts'].append('parser-rejected')
    return rec


def _fetched_equals(fetched_ctx, case, payload_w):
    """Whether the context after the fetch step holds the written payload (at the key, or merged at root)."""
    if fetched_ctx is None:
        return False
    got = dict((json.dumps(k), v) for k, v in fetched_ctx['d'])
    if case['variant'] in ('key', 'whole'):
        return got.get(json.dumps('out')) == payload_w
    return 'd' in payload_w and all(got.get(json.dumps(k)) == v for k, v in payload_w['d'])


# --------------------------------------------------------------------------
# the file context parsers: encodings (config.default_encoding, NOT the write step's option), the arguments
# (single-space join; None / [] per format), the top-level check
# --------------------------------------------------------------------------

ABSENT = '<absent>'      # the write step's input has no `encoding` entry (None = an explicit `encoding: None`)
SAME = '<same>'          # config.default_encoding at parse time = at write time


def parser_case(fmt, payload, wenc=ABSENT, dflt=None, dflt_parse=SAME, args='single', path=None, write=True):
    """write `payload` with filewrite<fmt> (`encoding` entry `wenc`) under config.default_encoding = `dflt`, then
    get_parsed_context(args) of the <fmt>file parser under config.default_encoding = `dflt_parse`.
    args: single [path] | split (path split at its spaces) | empty [] | none None | wrong (names no file)."""
    return {'flow': 'parser', 'format': fmt, 'payload': enc(payload), 'wenc': wenc, 'dflt': dflt,
            'dfltParse': dflt_parse, 'args': args, 'path': path or f'out dir/my file.{fmt}', 'write': write}


def parser_args(case):
    a, path = case['args'], case['path']
    if a == 'single':
        return [path]
    if a == 'split':
        return path.split(' ')
    if a == 'empty':
        return []
    if a == 'none':
        return None
    if a == 'wrong':
        return ['no such', 'file.' + case['format']]
    raise ValueError(a)


def run_parser_flow(drv, case):
    fmt = case['format']
    payload = dec(case['payload'])
    ctxv = dict(CTXV)
    if fmt == 'toml':
        del ctxv['kn']
    wkey = I.WRITE[fmt][1]
    cfg = {'path': case['path'], 'payload': payload}
    if case['wenc'] != ABSENT:
        cfg['encoding'] = case['wenc']                   # a string, or None = `encoding: None` spelled out
    dflt = case['dflt']
    dparse = dflt if case['dfltParse'] == SAME else case['dfltParse']
    args = parser_args(case)
    ctx = dict(ctxv)
    ctx[wkey] = cfg
    # the encodings by the documentation of the steps (independent of the model): toml is utf-8; an `encoding`
    # entry wins, spelled-out None = platform default; else config.default_encoding, else platform default
    plat = I.platform_encoding()
    wenc = 'utf-8' if fmt == 'toml' else (case['wenc'] if isinstance(case['wenc'], str) and case['wenc'] != ABSENT
                                          else plat if case['wenc'] is None else (dflt or plat))
    penc = 'utf-8' if fmt == 'toml' else (dparse or plat)
    agree = I.canonical_encoding(wenc) == I.canonical_encoding(penc)
    rec = {'case': case, 'counts': ['flow:parser', 'fmt:' + fmt, 'parser-args:' + case['args'],
                                    f'parser-enc:{fmt}:write={wenc},parser={penc}' + (':agree' if agree else ':differ')]}
    if plat != 'utf-8':
        rec['reject'] = f'platform default encoding is {plat}: the model assumes utf-8'
        rec['counts'].append('platform-not-utf8')
        return rec
    try:
        m = drv.ask('codec.parser', format=fmt, ctx=enc(ctx) if case['write'] else None, args=args,
                    dflt=dflt, dfltParse=dparse)
    except common.Reject as e:
        rec['reject'] = str(e)
        rec['counts'].append('rejected')
        return rec
    I.clean_dir()
    model, impl = {}, {}
    raw = text = written = None
    hyp = True
    if case['write']:
        w = I.run_write_cfg(fmt, ctxv, cfg, dflt)
        if 'err' in m['write']:
            model['write'] = {'err': err_class(m['write']['err']['name'], exact=True)}
        else:
            written = I.sort_wire(m['write']['ok'][0][1])
            model['write'] = {'ok': True, 'stored-in': I.canonical_encoding(m['write']['enc']), 'payload': written}
            if fmt != 'json':
                hyp = I.third_party_roundtrip(fmt, dec(m['write']['ok'][0][1]))
        if 'err' in w:
            impl['write'] = {'err': err_class(w['err'], exact=True)}
            rec['impl_detail'] = w
            rec['counts'].append('write-error:' + fmt + ':' + w['err'])
        else:
            # the file must hold the payload IN the encoding the model says (decode + plain loader of the format)
            impl['write'] = {'ok': True, 'stored-in': None, 'payload': None}
            try:
                with open(case['path'], 'rb') as fh:
                    raw = fh.read()
                text = raw.decode(m['write']['enc'] if 'ok' in m['write'] else wenc)
                impl['write']['payload'] = I.sort_wire(enc(I.plain(I.load(fmt, text))))
                impl['write']['stored-in'] = I.canonical_encoding(m['write']['enc']) if 'ok' in m['write'] else wenc
            except Exception as e:
                impl['write']['payload'] = {'unreadable': type(e).__name__}
        if hyp is False:
            rec['counts'].append('codec-hypothesis-false:' + fmt)
    rec['model'], rec['impl'] = model, impl
    if model != impl and hyp is not False:
        rec['mismatch'] = 'write step: observations differ'
    pr = None
    if 'parser' in m:
        pr = I.run_parser_args(fmt, args, dparse)
        if hyp is not False:
            compare_parser(rec, m, pr, raw, text, penc, written)
        if I.canonical_encoding(m['parserEnc']) != I.canonical_encoding(penc):
            rec['mismatch'] = (rec.get('mismatch', '') + f"; model: the parser reads with {m['parserEnc']}, documented {penc}").strip('; ')
    # ---- monitor, from the property text: a payload written by the filewrite step and read back with the matching
    #      file context parser yields a value equal to the formatted payload. The parser takes no encoding option: it is
    #      held to that when the file is in the encoding the parser reads with (config default / platform / toml utf-8)
    #      — or is the same bytes in both — and the arguments spell the path.
    if pr is not None and case['write'] and impl.get('write', {}).get('ok') and args and ' '.join(args) == case['path']:
        want = I.real_format(ctx, payload)
        same_bytes = raw is not None and text is not None and visible_difference(raw, text, penc) == 'same'
        if 'ok' in want and isinstance(dec(want['ok']), dict) and (agree or same_bytes):
            w_w = I.sort_wire(want['ok'])
            if 'ok' in pr:
                got = I.sort_wire(pr['ok'])
                rec['monitor'] = {'holds': got == w_w, 'want': w_w, 'got': got, 'via': 'parser'}
            else:
                rec['monitor'] = {'holds': False, 'want': w_w, 'via': 'parser-raised',
                                  'got': {'raised': pr.get('err', 'returned None'), 'msg': pr.get('msg')}}
    return rec


def run_fileformat(drv, case):
    fmt = case['format']
    doc = dec(case['doc'])
    ctx = dict(CTXV)
    if fmt == 'toml':
        del ctx['kn']
    encopts, route = case.get('encopts'), case.get('route')
    rec = {'case': case, 'counts': ['flow:fileformat', 'fmt:' + fmt, 'inplace:' + str(case['inplace']),
                                    'enc:' + str(case.get('encoding'))]}
    jind, jasc = jcfg_of(case)
    if case.get('jcfg'):
        rec['counts'].append(f'jcfg:indent={jind},ascii={jasc}')
    req = {}
    if encopts is not None:
        e_in, e_out = I.enc_in_out(encopts)
        rec['counts'] += ['route:' + route, 'encopts:' + '+'.join(sorted(encopts)) + (':differ' if e_in != e_out else ':same')]
        req = {'enc': encopts, 'out': {'inplace': None, 'out': 'out/res', 'same': 'in', 'empty': ''}[route]}
    try:
        m = drv.ask('codec.fileformat', format=fmt, ctx=enc(ctx), doc=case['doc'], **req)
    except common.Reject as e:
        rec['reject'] = str(e)
        rec['counts'].append('rejected')
        return rec
    if encopts is not None and 'ok' in m:
        # the model's file-level result: stored in the OUT encoding at the target
        if m.get('enc') != I.enc_in_out(encopts)[1] or m.get('target') != ('out/res' if route == 'out' else 'in'):
            rec['mismatch'] = f"model stores the result as {m.get('enc')} at {m.get('target')}"
    model = {'ok': I.sort_wire(m['ok'])} if 'ok' in m else {'err': err_class(m['err']['name'])}
    I.clean_dir()
    try:
        src_text = I.render(fmt, doc)
        try:
            src_loaded = I.plain(I.load(fmt, src_text))
        except Exception:
            if fmt != 'yaml':
                raise
            src_loaded = None           # ruamel's own dump of this source is not readable
    except Exception as e:
        rec['reject'] = f'source cannot be rendered: {type(e).__name__}'
        rec['counts'].append('unrenderable')
        return rec
    if fmt == 'yaml' and (src_loaded is None or I.sort_wire(enc(src_loaded)) != I.sort_wire(case['doc'])):
        # ruamel's own dump of this source does not read back: write the source as JSON-style flow YAML
        try:
            alt = json.dumps(doc, ensure_ascii=True)
            alt_loaded = I.plain(I.load(fmt, alt))
            if I.sort_wire(enc(alt_loaded)) == I.sort_wire(case['doc']):
                src_text, src_loaded = alt, alt_loaded
                rec['counts'].append('yaml-source-as-json-flow')
        except Exception:
            pass
    if src_loaded is None or I.sort_wire(enc(src_loaded)) != I.sort_wire(case['doc']):
        # the third-party writer/loader pair does not round-trip this source: the codec hypothesis fails
        rec['counts'].append('codec-hypothesis-false-on-source')
        rec['hypothesis'] = {'format': fmt, 'doc': case['doc'], 'loaded': enc(src_loaded) if src_loaded is not None else None}
        return rec
    with I.json_config(jind, jasc):
        o, out_text = I.run_fileformat(fmt, ctx, src_text, case['inplace'], case.get('encoding'), encopts, route)
    if 'err' in o:
        impl = {'err': err_class(o['err'])}
        rec['impl_detail'] = o
    elif out_text is None:
        impl = {'unreadable': o.get('undecodable')}
    else:
        try:
            impl = {'ok': I.sort_wire(enc(I.plain(I.load(fmt, out_text))))}
        except Exception as e:
            impl = {'unreadable': type(e).__name__}
    rec['model'], rec['impl'] = model, impl
    hyp = True
    if fmt != 'json' and 'ok' in m:
        hyp = I.third_party_roundtrip(fmt, dec(m['ok']))
        if hyp is False:
            rec['counts'].append('codec-hypothesis-false:' + fmt)
    if model != impl and hyp is not False:
        rec['mismatch'] = 'observations differ'
    rec['counts'].append('result:' + ('ok' if 'ok' in impl else 'err'))
    # ---- JSON: bytes of the output vs the Lean printer on the model's formatted document (keys not yet coerced)
    if fmt == 'json' and out_text is not None and 'ok' in m:
        try:
            fd = drv.ask('codec.fmtdoc', ctx=enc(ctx), doc=case['doc'])
            if 'ok' in fd:
                jp = drv.ask('codec.jsonprint', doc=fd['ok'], **I.model_json_opts(jind, jasc))
                rec['counts'].append('jsonbytes')
                if jp['text'] != out_text:
                    rec['mismatch'] = (rec.get('mismatch', '') + '; Lean JSON printer differs from the output file').strip('; ')
                    rec['model'] = dict(model, text=jp['text'])
                    rec['impl'] = dict(impl, text=out_text)
                if I.sort_wire(jp['coerced']) != model.get('ok'):
                    rec['mismatch'] = (rec.get('mismatch', '') + '; coerceKeys differs from the model output').strip('; ')
        except common.Reject:
            rec['counts'].append('jsonbytes-rejected')
    if 'ok' in impl or 'unreadable' in impl:
        want = I.real_format(ctx, src_loaded, fmt)
        if fmt == 'json' and 'ok' in want and I.real_format(ctx, src_loaded) != want:
            rec['counts'].append('json-keys-coerced')
        if 'ok' in want:
            w = I.sort_wire(want['ok'])
            rec['monitor'] = {'holds': impl.get('ok') == w, 'want': w, 'got': impl.get('ok', impl)}
    # the model document in the entry order of the source AS LOADED (a TOML writer puts plain entries before tables: the
    # rendered source may already have another order than the generated document)
    m_ord = m
    if 'ok' in m and enc(src_loaded) != case['doc']:
        rec['counts'].append('source-order-differs-from-generated:' + fmt)
        try:
            m_ord = drv.ask('codec.fileformat', format=fmt, ctx=enc(ctx), doc=enc(src_loaded), **req)
        except common.Reject:
            m_ord = {}
    fileformat_spec_monitors(rec, case, fmt, ctx, src_loaded, o, out_text, m, m_ord)
    return rec


def fileformat_spec_monitors(rec, case, fmt, ctx, src_loaded, o, out_text, m, m_ord=None):
    """Monitors read from the property text node by node (`I.spec_format`: pypyr's formatter applied to single strings
    is the only primitive), for every format: (a) the step RAISED although every string node formats and the plain
    writer of the format accepts the formatted document (keys that format to int / bool / None / float next to string
    keys included: json writes them coerced, yaml as they are; toml has string keys only - there the failure is due);
    (b) the ORDER of the mapping entries of the output document is the order of the source entries (formatting a key
    does not move its entry; json and yaml preserve it entirely, toml within plain entries / within tables);
    (c) whatever made a step fail, the source file is byte for byte what it was and nothing but source and `out` is left
    in the directory; the state of `out` after a failure (absent / empty / partial) is an observation compared with the
    code's order of events (the out file is opened for writing before the document is formatted and dumped: a failure
    of either leaves it truncated)."""
    vs = rec.setdefault('violations', [])
    spec = I.spec_format(ctx, src_loaded)
    sig = {'flow': 'fileformat', 'format': fmt}
    route = case.get('route') or ('inplace' if case['inplace'] else 'out')
    if 'err' in o:
        after = o.get('after') or {}
        rec['counts'].append('fileformat-failed:' + fmt + ':out=' + str(after.get('out')))
        if 'ok' in spec and I.representable(fmt, spec['ok']):
            nonstr = I.has_nonstr_key(spec['ok'])
            vs.append({'detail': f"fileformat {fmt} ({route}) raised {o['err']}: {o.get('msg')} although every string node of the "
                                 f"source formats and the formatted document is {fmt}-representable"
                                 + (' (a key formats to a non-string next to other keys)' if nonstr else '')
                                 + f"; wanted {json.dumps(enc(spec['ok']))[:200]}; files afterwards: {after}",
                       'signature': dict(sig, cause='raised-on-formattable-document' + (':non-string-formatted-key' if nonstr else '')),
                       'impl': o})
        if after and not after.get('source_intact'):
            vs.append({'detail': f"fileformat {fmt} ({route}) raised {o['err']} and the source file is no longer what it was",
                       'signature': dict(sig, cause='failed-step-changed-the-source'), 'impl': o})
        if after.get('extra'):
            vs.append({'detail': f"fileformat {fmt} ({route}) raised {o['err']} and left other files behind: {after['extra']}",
                       'signature': dict(sig, cause='failed-step-left-files-behind'), 'impl': o})
        if route == 'out' and after and 'err' in m:
            # model of the order of events: open(out, 'w') precedes formatter + dump -> truncated, never the old content
            if after.get('out') == 'absent':
                rec['mismatch'] = (rec.get('mismatch', '') + '; a failing format/dump leaves NO out file (the code opens it first)').strip('; ')
        return
    if out_text is None or 'ok' not in spec:
        return
    try:
        got = I.plain(I.load(fmt, out_text))
    except Exception:
        return
    want_doc = I.json_coerce_keys(spec['ok']) if fmt == 'json' else spec['ok']
    want_w, got_w = enc(want_doc), enc(got)
    if I.sort_wire(want_w) != I.sort_wire(got_w):
        if rec.get('monitor') is None or rec['monitor']['holds']:
            # the whole-document formatter agrees with the output, the node-by-node reading does not
            what, a, b = first_diff(I.sort_wire(want_w), I.sort_wire(got_w))
            vs.append({'detail': f'fileformat {fmt}: output differs from the source formatted node by node at a {what} node: '
                                 f'wanted {json.dumps(a)[:160]}, got {json.dumps(b)[:160]}',
                       'signature': dict(sig, cause='node-by-node:' + cause_of(what, a)), 'impl': {'want': want_w, 'got': got_w}})
        return
    rec['counts'].append('order-compared:' + fmt)
    if not I.same_order(fmt, want_w, got_w):
        vs.append({'detail': f'fileformat {fmt} ({route}): the output document has the formatted entries in another ORDER than '
                             f'the source: wanted {json.dumps(want_w)[:200]}, got {json.dumps(got_w)[:200]}',
                   'signature': dict(sig, cause='entry-order-changed'), 'impl': {'want': want_w, 'got': got_w}})
    # the model carries the order too (fmtDoc keeps entry order; json: coerceKeys keeps it): model vs output, ordered
    m_ord = m if m_ord is None else m_ord
    if 'ok' in m_ord and not I.same_order(fmt, m_ord['ok'], got_w) and I.sort_wire(m_ord['ok']) == I.sort_wire(got_w):
        rec['mismatch'] = (rec.get('mismatch', '') + '; entry ORDER of the output differs from the model document').strip('; ')


def run_jsonprint(drv, case):
    """Lean printer vs pypyr's JsonRepresenter.dump under config.json_indent / json_ascii (and vs json.dumps called
    with the same arguments), byte for byte; Lean parse(print d) vs json.loads(text) and vs coerceKeys d."""
    doc = dec(case['doc'])
    jind, jasc = jcfg_of(case)
    rec = {'case': case, 'counts': ['flow:jsonprint', f'jcfg:indent={jind},ascii={jasc}']}
    try:
        jp = drv.ask('codec.jsonprint', doc=case['doc'], **I.model_json_opts(jind, jasc))
    except common.Reject as e:
        rec['reject'] = str(e)
        rec['counts'].append('jsonprint-rejected')
        return rec
    t = jp['text']
    with I.json_config(jind, jasc):
        try:
            want = I.pypyr_json_dump(doc)
        except Exception as e:   # noqa: BLE001
            want = {'raised': type(e).__name__}
    ref = json.dumps(doc, indent=(2 if jind is None else None if jind == 'none' else jind),
                     ensure_ascii=bool(jasc))
    rec['model'], rec['impl'] = {'text': t}, {'text': want}
    if t != want:
        rec['mismatch'] = (f'Lean JSON printer differs from JsonRepresenter.dump under json_indent={jind}, json_ascii={jasc}'
                           + ('' if want == ref else ' (which also differs from json.dumps with these arguments)'))
    elif want != ref:
        rec['mismatch'] = 'JsonRepresenter.dump differs from json.dumps with the configured arguments'
    if I.has_nonstr_key(doc):
        rec['counts'].append('jsonprint:nonstr-keys')
    if contains_float(doc):
        rec['counts'].append('jsonprint:floats')
    if jasc and isinstance(want, str) and '\\ud' in want:
        rec['counts'].append('jsonprint:surrogate-pair')
    p = drv.ask('codec.jsonparse', text=t)
    back = enc(json.loads(ref))
    if 'ok' not in p:
        rec['mismatch'] = (rec.get('mismatch', '') + '; Lean parse(print d) is not ok: ' + next(iter(p))).strip('; ')
        rec['model']['reparsed'] = p
    elif p['ok'] != jp['coerced'] or p['ok'] != back:
        rec['mismatch'] = (rec.get('mismatch', '') + '; Lean parse(print d) / coerceKeys d / json.loads(json.dumps d) differ').strip('; ')
        rec['model']['reparsed'] = p
        rec['model']['coerced'] = jp['coerced']
        rec['impl']['reparsed'] = back
    return rec


def contains_float(v):
    if isinstance(v, float):
        return True
    if isinstance(v, dict):
        return any(contains_float(k) or contains_float(x) for k, x in v.items())
    if isinstance(v, list):
        return any(contains_float(x) for x in v)
    return False


def contains_odd(v):
    """Values the wire form / the model cannot hold: lone surrogates, -0.0, NaN, Infinity."""
    if isinstance(v, float):
        return v != v or v in (float('inf'), float('-inf')) or (v == 0.0 and str(v)[0] == '-')
    if isinstance(v, str):
        return any(0xD800 <= ord(c) <= 0xDFFF for c in v)
    if isinstance(v, dict):
        return any(contains_odd(k) or contains_odd(x) for k, x in v.items())
    if isinstance(v, list):
        return any(contains_odd(x) for x in v)
    return False


def run_jsonparse(drv, case):
    text = case['text']
    rec = {'case': case, 'counts': ['flow:jsonparse']}
    p = drv.ask('codec.jsonparse', text=text)
    try:
        v = json.loads(text)
        impl = {'outside': True} if contains_odd(v) else {'ok': enc(v)}
        if contains_float(v):
            rec['counts'].append('parse:float-in-python')
    except json.JSONDecodeError:
        impl = {'bad': True}
    except RecursionError:
        impl = {'outside': True}
    rec['model'], rec['impl'] = p, impl
    rec['counts'].append('parse:' + next(iter(impl)))
    if 'outside' in p:
        # model declines (a float that is not a short exact decimal, exponent, NaN, lone surrogate): acceptable only if
        # Python did not reject the text
        rec['counts'].append('parse:model-outside')
        if 'bad' in impl and not case.get('maybe_float'):
            rec['counts'].append('parse:model-outside-python-bad')
        return rec
    if 'ok' in p and 'ok' in impl and contains_float(v):
        rec['counts'].append('parse:float-compared')
    if p != impl:
        rec['mismatch'] = 'Lean JSON parser differs from json.loads'
    return rec


# --------------------------------------------------------------------------
# sessions: 2-4 file operations in ONE process (the property is stated per round trip; the model's codec is a
# pure function of the text — this checks that the real steps use their loaders statelessly)
# --------------------------------------------------------------------------

RAW_YAML = {
    'legacy11': '%YAML 1.1\n---\nname: legacy-settings\nretries: 3\n',
    'v11-lookalikes': '%YAML 1.1\n---\nflag: yes\nswitch: off\nat: 12:30:00\noct: 0777\n',
    'v12': '%YAML 1.2\n---\nname: modern\nflag: yes\nat: 12:30:00\n',
    'v12-then-plain': '%YAML 1.2\n---\nn: 0o17\nflag: on\n',
    'tags': 'a: !!str 123\nb: !!int "7"\nc: !!float 1\nd: !!bool "true"\n',
    'tag-directive': '%TAG !e! tag:example.com,2000:app/\n---\nk: v\nn: 1\n',
    'both-directives': '%YAML 1.1\n%TAG !e! tag:example.com,2000:app/\n---\nk: no\n',
    'anchors': 'base: &b {x: 1, y: [a, b]}\nuse: *b\nmerged:\n  <<: *b\n  z: 3\n',
    'plain-lookalikes': 'k: x{k1}\nlist: [yes, no, 12:30:00, 0777, on]\nflag: yes\ny: n\n',
    'plain': 'a: 1\nb: [x, y]\nc:\n  d: e{k1}\n',
    'two-docs-marker': '---\nonly: doc\n...\n',
}
RAW_JSON = {'obj': '{"a": "x{k1}", "yes": "no", "n": [1, 2.5, true, null]}', 'nested': '{"k": {"yes": ["on", "off"]}}'}
RAW_TOML = {'tbl': 'a = "x{k1}"\nyes = "no"\n[t]\non = "off"\nn = 1\n'}
LOOKALIKES = ['yes', 'no', 'on', 'off', 'y', 'n', 'Yes', 'NO', 'On', 'OFF', 'Y', 'N', 'true', 'false', '12:30:00', '1:00',
              '0777', '0o17', '1_000', '0b101', '0x1F', '+.inf', '.NaN', '~', 'null', '1e3', '2001-01-01', '<<', '=']
SESSION_CTX = {'k1': 'v1', 'k2': 42}


def lookalike_payload(rng=None):
    if rng is None:
        return {'answer': 'yes', 'switch': 'on', 'other': 'off', 'short': 'n', 'at': '12:30:00', 'oct': '0777',
                'greeting': 'hello {k1}', 'no': [1, 2.5, True, None], 'nested': ['y', {'flag': 'Yes', 'count': 3}]}
    vals = rng.sample(LOOKALIKES, 6)
    keys = rng.sample(LOOKALIKES, 3)
    return {'v': vals[:3], keys[0]: vals[3], keys[1]: {keys[2]: [vals[4], {'deep': vals[5]}]}, 'f': 'x{k1}', 'i': 7}


def op_roundtrip(fmt, payload, reader, encoding=None, dflt=ABSENT, name=None, args=None):
    """`encoding`: the `encoding` entry of the write step (and of the fetch step when it is the reader); `dflt`:
    config.default_encoding while this op runs (restored afterwards); `args`: what the parser is called with."""
    if fmt == 'toml':
        payload = _no_none(payload)
    op = {'kind': 'roundtrip', 'format': fmt, 'payload': enc(payload), 'ctx': enc(SESSION_CTX), 'reader': reader,
          'name': name or 'o.' + fmt}
    if encoding:
        op['encoding'] = encoding
    if dflt != ABSENT:
        op['dflt'] = dflt
    if args is not None:
        op['args'] = args
    return op


def _no_none(v):
    if isinstance(v, dict):
        return {k: _no_none(x) for k, x in v.items() if x is not None}
    if isinstance(v, list):
        return [_no_none(x) for x in v if x is not None]
    return v


def op_fetchraw(fmt, text, reader):
    return {'kind': 'fetchraw', 'format': fmt, 'text': text, 'reader': reader, 'name': 'r.' + fmt}


def op_formatraw(fmt, texts, route='inplace'):
    return {'kind': 'formatraw', 'format': fmt, 'files': [[f'f{i}.{fmt}', t] for i, t in enumerate(texts)],
            'ctx': enc(SESSION_CTX), 'route': route, 'aslist': True}


def session_case(ops, tag):
    return {'flow': 'session', 'format': ops[-1]['format'], 'ops': ops, 'tag': tag}


def directed_sessions():
    out = []
    look = lookalike_payload()
    for name, text in RAW_YAML.items():
        for reader in ('fetch', 'parser'):
            # a file with directives / tags / anchors is read, then look-alikes are round-tripped
            out.append(session_case([op_fetchraw('yaml', text, reader), op_roundtrip('yaml', look, 'fetch'),
                                     op_roundtrip('yaml', look, 'parser')], f'read-{name}-then-roundtrip'))
        out.append(session_case([op_formatraw('yaml', [text]), op_roundtrip('yaml', look, 'fetch'),
                                 op_fetchraw('yaml', RAW_YAML['plain-lookalikes'], 'fetch')], f'format-{name}-then-roundtrip'))
        # several in files in one fileformat step: a directive/tag file first, look-alikes after — and reversed
        out.append(session_case([op_formatraw('yaml', [text, RAW_YAML['plain-lookalikes'], RAW_YAML['plain']])],
                                f'format-list-{name}-first'))
        out.append(session_case([op_formatraw('yaml', [RAW_YAML['plain-lookalikes'], text], 'outdir'),
                                 op_formatraw('yaml', [RAW_YAML['plain-lookalikes']])], f'format-list-{name}-last'))
    out.append(session_case([op_roundtrip('yaml', look, 'fetch'), op_fetchraw('yaml', RAW_YAML['legacy11'], 'fetch'),
                             op_roundtrip('yaml', look, 'fetch'), op_roundtrip('yaml', look, 'parser')], 'rt-11-rt-rt'))
    out.append(session_case([op_fetchraw('yaml', RAW_YAML['legacy11'], 'parser'), op_fetchraw('yaml', RAW_YAML['v12'], 'fetch'),
                             op_roundtrip('yaml', look, 'fetch')], '11-12-rt'))
    out.append(session_case([op_fetchraw('yaml', RAW_YAML['v12'], 'fetch'), op_fetchraw('yaml', RAW_YAML['legacy11'], 'fetch'),
                             op_fetchraw('yaml', RAW_YAML['plain-lookalikes'], 'parser'), op_roundtrip('yaml', look, 'parser')],
                            '12-11-plain-rt'))
    for name, text in RAW_JSON.items():
        out.append(session_case([op_fetchraw('json', text, 'fetch'), op_formatraw('json', [text, RAW_JSON['obj']]),
                                 op_roundtrip('json', look, 'fetch'), op_roundtrip('json', look, 'parser')], f'json-{name}'))
    for name, text in RAW_TOML.items():
        out.append(session_case([op_fetchraw('toml', text, 'fetch'), op_formatraw('toml', [text, text]),
                                 op_roundtrip('toml', look, 'fetch'), op_roundtrip('toml', look, 'parser')], f'toml-{name}'))
    # formats interleaved
    out.append(session_case([op_fetchraw('yaml', RAW_YAML['v11-lookalikes'], 'fetch'), op_roundtrip('json', look, 'fetch'),
                             op_roundtrip('toml', look, 'fetch'), op_roundtrip('yaml', look, 'fetch')], 'mixed-formats'))
    # encodings inside a session: a round trip under another config.default_encoding (parser as reader: it reads with
    # the config default), or with an `encoding` entry (fetch as reader), then round trips under the configuration as
    # it was — every op observes what it observes alone; a path with spaces handed to the parser in pieces
    nonascii = dict(look, **{'título': 'Señor é', 'größe': ['ü', 'x{k1}']})
    for fmt in ('json', 'yaml', 'toml'):
        for d in ('utf-16', 'latin-1'):
            out.append(session_case([op_roundtrip(fmt, nonascii, 'parser', dflt=d),
                                     op_roundtrip(fmt, nonascii, 'parser'),
                                     op_roundtrip(fmt, nonascii, 'fetch', encoding='utf-16'),
                                     op_roundtrip(fmt, nonascii, 'parser', dflt=None, name='my out file.' + fmt,
                                                  args=['my', 'out', 'file.' + fmt])], f'encodings-{fmt}-{d}'))
    return out


def random_session(rng):
    n = rng.choice([2, 3, 3, 4])
    ops = []
    for i in range(n):
        fmt = rng.choice(['yaml', 'yaml', 'yaml', 'json', 'toml'])
        raws = {'yaml': RAW_YAML, 'json': RAW_JSON, 'toml': RAW_TOML}[fmt]
        r = rng.random()
        if i == n - 1 or r < 0.4:
            ops.append(op_roundtrip(fmt, lookalike_payload(rng), rng.choice(['fetch', 'parser'])))
        elif r < 0.75:
            ops.append(op_fetchraw(fmt, rng.choice(list(raws.values())), rng.choice(['fetch', 'parser'])))
        else:
            k = rng.choice([1, 2, 3])
            ops.append(op_formatraw(fmt, [rng.choice(list(raws.values())) for _ in range(k)],
                                    rng.choice(['inplace', 'outdir'])))
    return session_case(ops, 'random')


_YAML_DIRECTIVE = re.compile(r'^%YAML\s+(\d+\.\d+)', re.M)


def yaml_version(text):
    m = _YAML_DIRECTIVE.search(text.split('\n---', 1)[0]) if text.lstrip().startswith('%') else None
    return m.group(1) if m else None


def session_model(drv, ops):
    """The session through the model's `runSession` (ideal codecs): per op the expected observation in the
    harness's terms, or None where the op is outside the model (file context parser as reader, documents that
    are not plain trees). Raises Reject when the driver declines."""
    files, mops, where = [], [], []
    for i, op in enumerate(ops):
        fmt, pre = op['format'], f's{i}/'
        fk, wk = I.FETCH[fmt][1], I.WRITE[fmt][1]
        if op['kind'] == 'roundtrip':
            ctx = dict(dec(op['ctx']))
            ctx[wk] = {'path': pre + op['name'], 'payload': dec(op['payload'])}
            mops.append({'op': 'write', 'format': fmt, 'ctx': enc(ctx)})
            mops.append({'op': 'fetch', 'format': fmt, 'ctx': enc({fk: {'path': pre + op['name'], 'key': 'out'}})})
            where.append(('roundtrip', len(mops) - 2))
        elif op['kind'] == 'fetchraw':
            files.append([pre + op['name'], enc(I.plain(I.load(fmt, op['text'])))])
            mops.append({'op': 'fetch', 'format': fmt, 'ctx': enc({fk: {'path': pre + op['name'], 'key': 'out'}})})
            where.append(('fetchraw', len(mops) - 1))
        else:
            first = len(mops)
            for name, text in op['files']:
                files.append([pre + name, enc(I.plain(I.load(fmt, text)))])
                mops.append({'op': 'format', 'format': fmt, 'ctx': op['ctx'], 'in': pre + name,
                             'out': (pre + 'res/' + name) if op.get('route') == 'outdir' else None})
            where.append(('formatraw', first))
    m = drv.ask('codec.session', files=files, ops=mops)
    mfiles = dict((k, v) for k, v in m['files'])
    out = []
    for (kind, at), (i, op) in zip(where, enumerate(ops)):
        pre = f's{i}/'
        if kind in ('roundtrip', 'fetchraw'):
            f = m['obs'][at + 1] if kind == 'roundtrip' else m['obs'][at]
            if kind == 'roundtrip' and m['obs'][at] != 'wrote':
                out.append({'write': 'err'})
                continue
            if isinstance(f, dict) and 'fetched' in f:
                got = dict((json.dumps(k), v) for k, v in f['fetched']['d']).get('"out"', {'missing': True})
                out.append({'read': {'ok': I.sort_wire(got)}})
            else:
                out.append({'read': 'err'})
        else:
            docs = []
            for k, (name, _t) in enumerate(op['files']):
                if m['obs'][at + k] != 'formatted':
                    docs = 'err'
                    break
                tgt = (pre + 'res/' + name) if op.get('route') == 'outdir' else pre + name
                docs.append([name, I.sort_wire(mfiles[tgt])])
            out.append({'format': docs})
    return out


def impl_view(op, obs):
    """The implementation's observation of one op in the terms of `session_model` (documents parsed with the
    plain loader of the format)."""
    if not isinstance(obs, dict) or 'crashed' in obs or 'timeout' in obs:
        return {'abnormal': obs}
    fmt = op['format']
    if op['kind'] in ('roundtrip', 'fetchraw'):
        if op['kind'] == 'roundtrip' and obs.get('write') != 'ok':
            return {'write': 'err'}
        r = obs.get('read', {})
        return {'read': {'ok': I.sort_wire(r['ok'])}} if 'ok' in r else {'read': 'err'}
    if obs.get('format') != 'ok':
        return {'format': 'err'}
    docs = []
    for name, text in obs['outs']:
        try:
            docs.append([name, I.sort_wire(enc(I.plain(I.load(fmt, text))))])
        except Exception as e:
            docs.append([name, {'unreadable': type(e).__name__}])
    return {'format': docs}


def run_session(drv, case):
    ops = case['ops']
    rec = {'case': case, 'counts': ['flow:session', 'session-len:%d' % len(ops), 'session:' + case.get('tag', '').split('-')[0]]}
    z = _worker.get('zygote')
    if z is None:
        z = _worker['zygote'] = I.Zygote()
    global _timeouts
    r = z.session(ops, timeout=20 if _timeouts < 2 else 5)
    if 'timeout' in json.dumps(r)[:100000] and any(isinstance(o, dict) and 'timeout' in o
                                                  for o in ([r['insession']] if isinstance(r.get('insession'), dict) else r.get('insession', [])) + r.get('fresh', [])):
        _timeouts += 1
    if 'zygote-error' in r:
        raise common.Infra('C16 session helper: ' + r['zygote-error'])
    ins, fresh = r['insession'], r['fresh']
    if not isinstance(ins, list):          # the whole session crashed / timed out
        ins = [ins] * len(ops)
    problems = []
    # ---- M1: every operation observes in the session what it observes in a fresh process
    for i, op in enumerate(ops):
        rec['counts'].append('sop:' + op['kind'] + ':' + op['format'])
        if ins[i] != fresh[i]:
            a, b = impl_view(op, fresh[i]), impl_view(op, ins[i])
            problems.append({'clause': 'history-dependent', 'op': i, 'kind': op['kind'], 'format': op['format'],
                             'reader': op.get('reader'), 'want': a, 'got': b,
                             'earlier': [f"{o['kind']}:{o['format']}:yaml-version={yaml_version(o.get('text', '') or '')}"
                                         for o in ops[:i]]})
    # ---- M2 / M3: the property itself, op by op, on the in-session observations
    leak_ops = set()
    for i, op in enumerate(ops):
        fmt, v = op['format'], impl_view(op, ins[i])
        if 'abnormal' in v:
            problems.append({'clause': 'abnormal-end', 'op': i, 'kind': op['kind'], 'format': fmt, 'got': v['abnormal']})
            continue
        if op['kind'] == 'roundtrip':
            want = I.real_format(dec(op['ctx']), dec(op['payload']))
            if 'ok' not in want:
                continue
            w = I.sort_wire(want['ok'])
            if v != {'read': {'ok': w}}:
                problems.append({'clause': 'roundtrip', 'op': i, 'kind': 'roundtrip', 'format': fmt,
                                 'reader': op['reader'], 'want': w, 'got': v})
        elif op['kind'] == 'formatraw':
            if v.get('format') == 'err':
                problems.append({'clause': 'format-raised', 'op': i, 'kind': 'formatraw', 'format': fmt,
                                 'got': ins[i].get('format')})
                continue
            seen_versions = []
            for (name, text), (_n, got) in zip(op['files'], v['format']):
                src = I.plain(I.load(fmt, text))
                want = I.real_format(dec(op['ctx']), src)
                ver = yaml_version(text) if fmt == 'yaml' else None
                if 'ok' in want and got != I.sort_wire(want['ok']):
                    # a %YAML directive in an EARLIER file of the same `in` list, another version than this file's
                    leak = fmt == 'yaml' and any(x is not None and x != (ver or '1.2') for x in seen_versions)
                    if leak:
                        leak_ops.add(i)
                    problems.append({'clause': 'fileformat', 'op': i, 'kind': 'formatraw', 'format': fmt, 'file': name,
                                     'want': I.sort_wire(want['ok']), 'got': got,
                                     'cause': 'yaml-version-directive-of-earlier-in-file-applied' if leak else None})
                seen_versions.append(ver)
    rec['session_problems'] = problems
    # ---- the model's runSession on the same session
    try:
        mv = session_model(drv, ops)
        iv = []
        for op, o in zip(ops, ins):
            x = impl_view(op, o)
            iv.append(None if op.get('reader') == 'parser' else x)
        mv = [None if op.get('reader') == 'parser' else x for op, x in zip(ops, mv)]
        # ops whose difference is the (separately reported) directive leak are not a modelling difference
        for i in leak_ops:
            mv[i] = iv[i] = 'known-directive-leak'
        rec['model'], rec['impl'] = {'session': mv}, {'session': iv}
        hyp_ok = True
        for op in ops:
            if op['kind'] == 'roundtrip' and op['format'] != 'json':
                want = I.real_format(dec(op['ctx']), dec(op['payload']))
                if 'ok' in want and I.third_party_roundtrip(op['format'], dec(want['ok'])) is False:
                    hyp_ok = False
        if mv != iv and hyp_ok:
            rec['mismatch'] = 'session observations differ from runSession'
        rec['counts'].append('session-modelled')
    except common.Reject as e:
        rec['counts'].append('session-model-rejected')
        rec['session_reject'] = str(e)
    except Exception as e:       # a raw document the plain loader cannot read etc.: monitors only
        rec['counts'].append('session-model-skipped:' + type(e).__name__)
    return rec


# --------------------------------------------------------------------------
# steps on ONE context: fetch to the context root is a TOP-LEVEL update (property text: "parsed object stored at key
# or merged at root"; docs of the steps: "will overwrite existing values if the same keys are already in there")
# --------------------------------------------------------------------------

NOKEY = '<no key entry>'


def cop_put(fmt, path, doc):
    return {'op': 'put', 'format': fmt, 'path': path, 'doc': enc(_no_none(doc) if fmt == 'toml' else doc)}


def cop_write(fmt, path, payload):
    return {'op': 'write', 'format': fmt, 'input': enc({'path': path, 'payload': _no_none(payload) if fmt == 'toml' else payload})}


def cop_fetch(fmt, path, key=NOKEY, as_string=False):
    if as_string:
        return {'op': 'fetch', 'format': fmt, 'input': path}
    inp = {'path': path}
    if key != NOKEY:
        inp['key'] = key
    return {'op': 'fetch', 'format': fmt, 'input': enc(inp)}


def ctxsession_case(fmt, ctx0, ops, tag):
    return {'flow': 'ctxsession', 'format': fmt, 'ctx0': enc(ctx0), 'ops': ops, 'tag': tag}


BASE_DOC = {'title': 'settings for {env}', 'servers': ['alpha', 'beta'], 'ports': [8000, 8001],
            'db': {'host': 'db1.{env}.example', 'port': 5432, 'opts': {'ssl': True, 'pool': 5}},
            'limits': [{'name': 'cpu', 'max': 2}, {'name': 'mem', 'max': 512}]}
OVER_DOC = {'title': 'override', 'servers': ['gamma'], 'ports': [9000], 'db': {'host': 'db2.{env}.example'},
            'limits': [{'name': 'cpu', 'max': 8}]}
# texts with literal braces - in a FILE they are data (a template text), values and keys alike
BRACE_DOC = {'template': 'Dear {customer}, your order {{id}} shipped.', 'plain': 'just text', '{x}': 'key with braces',
             'k{k1}': ['{k1}', '{{', '}}', {'{nested}': '{{k1}}', 'a{{b}}c': 'j{{"a": 1}}'}], 'open': '{', 'close': 'x}y',
             'fmt': '{k1!r:>10}', 'dotted': '{a.b[0]}'}
ROOT_KEYS = ['servers', 'db', 'title', 'ports', 'limits', 'k{k1}', '{x}', 'a b', 'tpl', 'k1']
FILE_STRS = ['plain', 'v', '', '{x}', '{{x}}', '{k1}', 'a{k1}b', '{{', '}}', '{', '}', 'Dear {customer}', '{{k1}}', '{k1}{k1}',
             'j{"a": 1}', '{0}', '{}', '{a.b}', '{k1!r}', 'true', '1', 'ü→😀']
WRITE_STRS = ['plain', 'x{k1}', '{k1}', '{{x}}', 'a{{b}}c', '{{', '}}', '{{k1}}', 'Dear {{customer}}', 'ü{k1}']


def gen_file_value(rng, fmt, depth=2, strs=FILE_STRS):
    r = rng.random()
    if depth <= 0 or r < 0.35:
        r2 = rng.random()
        if r2 < 0.6:
            return rng.choice(strs)
        if r2 < 0.8:
            return rng.choice([0, 1, -7, 8000, 2 ** 40])
        if r2 < 0.9:
            return rng.choice([0.5, -2.25, 1.0])
        return rng.random() < 0.5
    if r < 0.65:
        n = rng.choice([0, 1, 1, 2, 3])
        if rng.random() < 0.3:          # list of tables
            return [{rng.choice(['name', 'max', '{x}', 'k']): gen_file_value(rng, fmt, 0, strs) for _ in range(rng.choice([1, 2]))}
                    for _ in range(n)]
        return [gen_file_value(rng, fmt, depth - 1, strs) for _ in range(n)]
    return {rng.choice(['host', 'port', 'opts', '{x}', 'k{k1}', 'a', 'b']): gen_file_value(rng, fmt, depth - 1, strs)
            for _ in range(rng.choice([0, 1, 2, 3]))}


def gen_root_doc(rng, fmt, strs=FILE_STRS, keys=ROOT_KEYS):
    return {k: gen_file_value(rng, fmt, 2, strs) for k in rng.sample(keys, rng.choice([1, 2, 3, 4]))}


def gen_ctx0(rng):
    ctx = {'k1': 'v1'}
    for k in rng.sample(ROOT_KEYS[:-1], rng.choice([0, 1, 2, 3, 4])):
        r = rng.random()
        if r < 0.3:
            ctx[k] = [rng.choice(['old', '{old}', 1, 2.5]) for _ in range(rng.choice([0, 1, 2]))]
        elif r < 0.55:
            ctx[k] = {rng.choice(['host', 'port', 'old', '{x}']): rng.choice(['old', 5432, ['o'], {'deep': 'old'}])
                      for _ in range(rng.choice([0, 1, 2]))}
        elif r < 0.65:
            ctx[k] = tuple(rng.choice(['old', 1]) for _ in range(rng.choice([0, 1, 2])))
        elif r < 0.75:
            ctx[k] = set(rng.sample(['old', 'older', 1, 2], rng.choice([0, 1, 2])))
        else:
            ctx[k] = rng.choice(['old text', '{untouched}', 0, None, True])
    return ctx


def directed_ctxsessions():
    out = []
    for fmt in ('json', 'yaml', 'toml'):
        f1, f2 = f'cfg/base.{fmt}', f'cfg/override.{fmt}'
        # layered settings: base to the root, then override to the root; the same again into keys as the reference
        out.append(ctxsession_case(fmt, {'env': 'prod'}, [
            cop_put(fmt, f1, BASE_DOC), cop_fetch(fmt, f1), cop_put(fmt, f2, OVER_DOC), cop_fetch(fmt, f2, as_string=True),
            cop_fetch(fmt, f1, 'refBase'), cop_fetch(fmt, f2, 'refOverride')], 'layered-base-override'))
        # the same file re-fetched after it changed on disk (shorter list, a table that lost keys, a type change)
        out.append(ctxsession_case(fmt, {'k1': 'v1'}, [
            cop_put(fmt, f1, BASE_DOC), cop_fetch(fmt, f1),
            cop_put(fmt, f1, {'servers': ['only'], 'db': {'port': 1}, 'limits': 'none now', 'ports': {'was': 'a list'}}),
            cop_fetch(fmt, f1), cop_fetch(fmt, f1), cop_fetch(fmt, f1, '')], 'refetch-changed-file'))
        # the context already holds containers / scalars under the names the file brings
        pre = {'servers': ['old-1', 'old-2'], 'db': {'host': 'old', 'legacy': True, 'opts': {'ssl': False, 'x': 1}},
               'ports': (1, 2), 'limits': {'a', 'b'}, 'title': ['was', 'a', 'list'], 'other': {'keep': ['me']}, 'k1': 'v1'}
        out.append(ctxsession_case(fmt, pre, [cop_put(fmt, f1, BASE_DOC), cop_fetch(fmt, f1)], 'context-holds-containers'))
        out.append(ctxsession_case(fmt, pre, [cop_put(fmt, f2, OVER_DOC), cop_fetch(fmt, f2, ''),
                                              cop_put(fmt, f1, BASE_DOC), cop_fetch(fmt, f1)], 'context-holds-containers-2'))
        out.append(ctxsession_case(fmt, {'servers': [], 'db': {}, 'title': '', 'ports': None, 'limits': 0},
                                   [cop_put(fmt, f1, BASE_DOC), cop_fetch(fmt, f1)], 'context-holds-falsy'))
        # literal braces in the file: values and keys, to the root and into a key; with and without k1 in the context
        for ctx0 in ({'k1': 'v1'}, {}, {'x': 'X', 'customer': 'C', 'k1': 'v1', 'template': ['old'], '{x}': {'old': 1}}):
            out.append(ctxsession_case(fmt, ctx0, [cop_put(fmt, f1, BRACE_DOC), cop_fetch(fmt, f1)], 'braces-to-root'))
            out.append(ctxsession_case(fmt, ctx0, [cop_put(fmt, f1, BRACE_DOC), cop_fetch(fmt, f1, 'dest'),
                                                   cop_fetch(fmt, f1, as_string=True)], 'braces-to-key-then-root'))
        for s in FILE_STRS:
            out.append(ctxsession_case(fmt, {'k1': 'v1', 'v': 'old'}, [cop_put(fmt, f1, {'v': s, 'l': [s], s or 'e': {'n': s}}),
                                                                      cop_fetch(fmt, f1)], 'brace-string-to-root'))
        # written by the write step ({{x}} in the payload is {x} in the file), then to the root - twice
        wp = {'tpl': 'Dear {{customer}}, {k1}', 'list': ['{{x}}', 'a{{b}}c', '{{k1}}'], 'tbl': {'{{key}}': '{{', 'n': 1}}
        out.append(ctxsession_case(fmt, {'k1': 'v1', 'list': ['old'], 'tbl': {'old': 1}}, [
            cop_write(fmt, f1, wp), cop_fetch(fmt, f1), cop_write(fmt, f1, {'list': ['new'], 'tbl': {'n': 2}}),
            cop_fetch(fmt, f1), cop_fetch(fmt, f1, 'copy')], 'write-step-then-root-twice'))
        # a loop: the same fetch three times
        out.append(ctxsession_case(fmt, {'k1': 'v1'}, [cop_put(fmt, f1, OVER_DOC)] + [cop_fetch(fmt, f1)] * 3, 'same-fetch-3x'))
    # the three formats onto one context
    out.append(ctxsession_case('toml', {'env': 'prod', 'servers': ['ctx']}, [
        cop_put('json', 'a.json', BASE_DOC), cop_fetch('json', 'a.json'), cop_put('yaml', 'b.yaml', OVER_DOC),
        cop_fetch('yaml', 'b.yaml'), cop_put('toml', 'c.toml', {'servers': ['t1', 't2'], 'db': {'port': 1}, 'tpl': '{env}'}),
        cop_fetch('toml', 'c.toml')], 'three-formats-one-context'))
    return out


def random_ctxsession(rng):
    fmt = rng.choice(['json', 'yaml', 'toml', 'toml'])
    ops, files, have = [], [], set()
    for i in range(rng.choice([1, 2, 2, 3, 4])):
        f = rng.choice(['json', 'yaml', 'toml']) if rng.random() < 0.15 else fmt
        if files and rng.random() < 0.35:
            path, f = rng.choice(files)            # the same file again: changed on disk, or fetched as it is
        else:
            path = f'd{i}/f{i}.{f}'
            files.append((path, f))
        r = rng.random()
        if r < 0.6 or (path not in have and r >= 0.85):
            ops.append(cop_put(f, path, gen_root_doc(rng, f)))
        elif r < 0.85:
            ops.append(cop_write(f, path, gen_root_doc(rng, f, WRITE_STRS, ROOT_KEYS[:-1])))
        have.add(path)
        r = rng.random()
        ops.append(cop_fetch(f, path) if r < 0.6 else cop_fetch(f, path, as_string=True) if r < 0.7 else
                   cop_fetch(f, path, '') if r < 0.8 else cop_fetch(f, path, rng.choice(['dest', 'servers', 'db'])))
    return ctxsession_case(fmt, gen_ctx0(rng), ops, 'random')


def has_brace_str(w):
    if isinstance(w, str):
        return '{' in w or '}' in w
    if isinstance(w, list):
        return any(has_brace_str(x) for x in w)
    if isinstance(w, dict) and 'd' in w:
        return any(has_brace_str(k) or has_brace_str(v) for k, v in w['d'])
    return False


def _wd(w):
    """canonical wire dict -> {canon(key): (key, value)}"""
    return {canon(k): (k, v) for k, v in w['d']}


def judge_fetch(op, rec):
    """Monitor from the property text, on the implementation alone: what the plain loader of the format reads from the
    file is D. With a destination key: context[key] == D afterwards and every other key is as it was. Without one
    (or with a falsy one) and D a mapping: context[k] == D[k] for EVERY top-level k of D - whatever the context held
    there, no node of D changed (nothing read is formatted) - and every other key is as it was; the step does not
    raise. Returns None or {'what', 'key', 'want', 'got'}."""
    if 'ok' not in rec.get('file', {}) or 'before' not in rec:
        return None
    D = I.sort_wire(rec['file']['ok'])
    inp = dec(op['input'])
    key = None if isinstance(inp, str) else inp.get('key')
    before = _wd(rec['before'])
    if key:
        if not isinstance(key, str):
            return None
        expect = dict(before)
        expect[canon(key)] = (key, D)
        written = {canon(key)}
    else:
        if not (isinstance(D, dict) and 'd' in D) or any(not isinstance(k, str) for k, _ in D['d']):
            return None
        expect = dict(before)
        written = set()
        for k, v in D['d']:
            expect[canon(k)] = (k, v)
            written.add(canon(k))
    expect.pop(canon(I.FETCH[op['format']][1]), None)
    if 'err' in rec:
        return {'what': 'raised', 'key': None, 'want': 'the step returns', 'got': {'raised': rec['err'], 'msg': rec.get('msg')}}
    if not isinstance(rec.get('after'), dict) or 'd' not in rec['after']:
        return {'what': 'context-unreadable', 'key': None, 'want': None, 'got': rec.get('after')}
    after = _wd(rec['after'])
    for ck, (k, v) in expect.items():
        if ck not in after:
            return {'what': 'key-of-the-file-missing' if ck in written else 'other-key-removed', 'key': k, 'want': v, 'got': None}
        if after[ck][1] != v:
            return {'what': 'value-differs-from-the-file' if ck in written else 'other-key-changed', 'key': k, 'want': v,
                    'got': after[ck][1]}
    for ck, (k, v) in after.items():
        if ck not in expect:
            return {'what': 'key-added', 'key': k, 'want': None, 'got': v}
    return None


def run_ctxsession(drv, case):
    ops = case['ops']
    ctx0 = dec(case['ctx0'])
    rec = {'case': case, 'counts': ['flow:ctxsession', 'ctxsession:' + case.get('tag', ''), 'ctxsession-fmt:' + case['format']],
           'violations': []}
    I.clean_dir()
    obs = I.run_ctx_session(ctx0, ops)
    if any('put' in o and o['put'] != 'ok' for o in obs):
        rec['reject'] = 'a source file cannot be rendered'
        rec['counts'].append('unrenderable')
        return rec
    roots = 0
    for i, (op, o) in enumerate(zip(ops, obs)):
        if op['op'] == 'fetch':
            inp = dec(op['input'])
            to_root = isinstance(inp, str) or not inp.get('key')
            rec['counts'].append('cfetch:' + ('root' if to_root else 'key'))
            if to_root:
                roots += 1
                if roots > 1:
                    rec['counts'].append('cfetch:root-again')
                D = o.get('file', {}).get('ok')
                if isinstance(D, dict) and 'd' in D:
                    b = _wd(o['before'])
                    if any(canon(k) in b and kind_of(b[canon(k)][1]) in ('list', 'dict', 'obj') for k, _ in D['d']):
                        rec['counts'].append('cfetch:root-over-container')
                    if has_brace_str(D):
                        rec['counts'].append('cfetch:file-has-braces')
            bad = judge_fetch(op, o)
            if bad:
                where = 'the context root' if to_root else f"key {inp.get('key')!r}"
                rec['violations'].append({
                    'detail': (f"ctxsession {op['format']}: step {i} fetch{op['format']} of {inp if isinstance(inp, str) else inp.get('path')!r} "
                               f"into {where}: {bad['what']}" + (f" at context[{bad['key']!r}]" if bad['key'] is not None else '') +
                               (f": the step raised {bad['got'].get('raised')}: {bad['got'].get('msg')}; the file holds {json.dumps(o['file']['ok'])[:200]}"
                                if bad['what'] == 'raised' else
                                f": the file holds {json.dumps(bad['want'])[:200]}, the context holds {json.dumps(bad['got'])[:200]}") +
                               f" (context before the step: {json.dumps(o['before'])[:200]})"),
                    'signature': {'flow': 'ctxsession', 'format': op['format'],
                                  'cause': ('fetch-to-root-is-not-a-top-level-update' if to_root else 'fetch-to-key-does-not-store-the-file'),
                                  'what': bad['what']},
                    'impl': {'step': i, 'problem': bad, 'file': o.get('file')}})
                break
        elif op['op'] == 'write':
            rec['counts'].append('cwrite')
            want = o.get('want', {})
            if 'ok' in want and 'err' not in o and I.third_party_roundtrip(op['format'], dec(want['ok'])) is not False:
                w, got = I.sort_wire(want['ok']), o.get('file', {})
                if I.sort_wire(got.get('ok')) != w:
                    rec['violations'].append({
                        'detail': f"ctxsession {op['format']}: step {i} filewrite{op['format']}: the file holds {json.dumps(got)[:200]}, "
                                  f"the formatted payload is {json.dumps(w)[:200]}",
                        'signature': {'flow': 'ctxsession', 'format': op['format'], 'cause': 'file-written-differs-from-formatted-payload'},
                        'impl': {'step': i, 'file': got, 'want': w}})
                    break
    # ---- the model's runC on the same steps (files = what the plain loader reads from the files put on disk)
    try:
        mops = []
        for op in ops:
            if op['op'] == 'put':
                doc = enc(I.plain(I.load(op['format'], I.render(op['format'], dec(op['doc'])))))
                mops.append({'op': 'put', 'path': op['path'], 'doc': doc})
            else:
                mops.append({'op': op['op'], 'format': op['format'], 'input': op['input']})
        m = drv.ask('codec.ctxsession', ctx=case['ctx0'], ops=mops)
        mv, iv = [], []
        for mo in m['obs']:
            mv.append({'ok': I.sort_wire(mo['ok'])} if 'ok' in mo else {'err': err_class(mo['err']['name'], exact=True)})
        for o in obs:
            if 'put' in o:
                iv.append(None)
            elif 'err' in o:
                iv.append({'err': err_class(o['err'], exact=True)})
            else:
                iv.append({'ok': o['after']})
        # the model reports the (unchanged) context after a put as well
        mv = [None if x is None else y for x, y in zip(iv, mv)] + mv[len(iv):]
        rec['model'], rec['impl'] = {'steps': mv}, {'steps': iv}
        hyp_ok = all(not (op['op'] == 'write' and 'ok' in o.get('want', {}) and
                          I.third_party_roundtrip(op['format'], dec(o['want']['ok'])) is False) for op, o in zip(ops, obs))
        if mv != iv and hyp_ok:
            rec['mismatch'] = 'context after the steps differs from runC'
        rec['counts'].append('ctxsession-modelled')
    except common.Reject as e:
        rec['counts'].append('ctxsession-model-rejected')
        rec['session_reject'] = str(e)
    return rec


# --------------------------------------------------------------------------
# the write steps WITHOUT payload: the whole context is written, "every string node, keys included" formatted
# --------------------------------------------------------------------------

WHOLE_BASE = {'env': 'prod', 'region': 'eu', 'service': 'billing', 'k1': 'v1'}
WHOLE_KEYS = ['{env}_url', '{service}-{region}', 'k{k1}', '{{literal}}', 'a{{b}}', '{env}{region}', 'plain', 'answer', 'x{env}x',
              '{env}', 'ü{k1}', '{service} url', 'nested']
WHOLE_STRS = ['https://{service}.{env}.example', 'no expressions here', '{env}', '{{env}}', 'x{k1}', '', 'true', '{region}-{region}',
              'ü→{env}']


def gen_whole_value(rng, depth=2):
    r = rng.random()
    if depth <= 0 or r < 0.5:
        r2 = rng.random()
        return rng.choice(WHOLE_STRS) if r2 < 0.7 else rng.choice([42, 0, -1, 3, 1.5, True, False])
    if r < 0.75:
        return [gen_whole_value(rng, depth - 1) for _ in range(rng.choice([0, 1, 2, 3]))]
    return {k: gen_whole_value(rng, depth - 1) for k in rng.sample(WHOLE_KEYS, rng.choice([0, 1, 2, 3]))}


def wholectx_case(ctx, tag):
    return {'flow': 'wholectx', 'format': 'all', 'ctx': enc(ctx), 'tag': tag}


def directed_wholectx():
    out = []
    settings = dict(WHOLE_BASE, **{'{env}_url': 'https://{service}.{env}.example',
                                   '{service}-{region}': {'replicas': 3, '{env}_only': True,
                                                          'hosts': ['{service}-1.{region}', '{service}-2.{region}']},
                                   'plain': 'no expressions here', 'answer': 42})
    out.append(wholectx_case(settings, 'templated-settings'))
    for k in WHOLE_KEYS:
        out.append(wholectx_case(dict(WHOLE_BASE, **{k: 'value {env}', 'n': {k: [k, {k: 1}]}}), 'one-key'))
    out.append(wholectx_case(dict(WHOLE_BASE), 'plain-keys-only'))
    out.append(wholectx_case(dict(WHOLE_BASE, **{'{env}_url': 'first', 'prod_url': 'second'}), 'keys-collide-after-formatting'))
    out.append(wholectx_case(dict(WHOLE_BASE, **{'prod_url': 'first', '{env}_url': 'second', 'z': 1}), 'keys-collide-after-formatting'))
    out.append(wholectx_case({'env': 'prod', '{env}': '{env}'}, 'key-is-one-expression'))
    return out


def random_wholectx(rng):
    ctx = dict(WHOLE_BASE)
    for k in rng.sample(WHOLE_KEYS, rng.choice([1, 2, 3, 4, 5])):
        ctx[k] = gen_whole_value(rng)
    return wholectx_case(ctx, 'random')


def run_wholectx(drv, case):
    import copy
    ctx = dec(case['ctx'])
    rec = {'case': case, 'counts': ['flow:wholectx', 'wholectx:' + case.get('tag', '')], 'violations': []}
    if any('{' in k for k in ctx):
        rec['counts'].append('wholectx:top-level-key-with-expression')
    stripped = {}
    model, impl = {}, {}
    for fmt in ('json', 'yaml', 'toml'):
        wkey, fkey = I.WRITE[fmt][1], I.FETCH[fmt][1]
        path = 'out/whole.' + fmt
        ctx_w = copy.deepcopy(ctx)
        ctx_w[wkey] = {'path': path}
        # (a) the oracle: pypyr's formatter on a deep copy of the context as the step sees it (own input included)
        want = I.real_format(copy.deepcopy(ctx_w), copy.deepcopy(ctx_w), fmt)
        if 'ok' not in want:
            rec['counts'].append('wholectx:unformattable')
            continue
        if I.third_party_roundtrip(fmt, dec(want['ok'])) is not True:
            rec['counts'].append('wholectx:codec-hypothesis-false:' + fmt)
            continue
        want_w = I.sort_wire(want['ok'])
        I.clean_dir()
        w = I.run_write_cfg(fmt, copy.deepcopy(ctx), {'path': path})
        if 'err' in w:
            rec['violations'].append(_whole_v(fmt, 'whole-context-write-raised', f"the step raised {w['err']}: {w.get('msg')}", want_w, w))
            continue
        r = I.run_fetch_cfg(fmt, {}, {'path': path, 'key': 'out'})
        back = _at_out(r)
        impl[fmt] = back
        rec['counts'].append('wholectx-run:' + fmt)
        if back != want_w:
            what, a, b = ('read-raised', want_w, back) if isinstance(back, dict) and 'raised' in back else first_diff(want_w, back)
            rec['violations'].append(_whole_v(
                fmt, 'whole-context-write-differs-from-formatted-context',
                f"read back by fetch{fmt} it differs from the formatted context at a {what} node: wanted {json.dumps(a)[:160]}, got {json.dumps(b)[:160]}",
                want_w, back, what))
        pr = I.run_parser_args(fmt, [path])
        pgot = I.sort_wire(pr['ok']) if 'ok' in pr else {'raised': pr.get('err', 'returned None')}
        if pgot != want_w and back == want_w:
            rec['violations'].append(_whole_v(fmt, 'whole-context-write-differs-from-formatted-context',
                                              f"read back by the {fmt}file parser it differs from the formatted context: {json.dumps(pgot)[:200]}",
                                              want_w, pgot, 'parser'))
        # (b) the same mapping handed to the step as an explicit payload
        p2 = 'out/explicit.' + fmt
        w2 = I.run_write_cfg(fmt, copy.deepcopy(ctx), {'path': p2, 'payload': copy.deepcopy(ctx_w)})
        back2 = _at_out(I.run_fetch_cfg(fmt, {}, {'path': p2, 'key': 'out'})) if 'err' not in w2 else {'raised': w2['err']}
        if back2 != back:
            what, a, b = first_diff(back2, back) if isinstance(back, dict) and isinstance(back2, dict) and 'd' in back and 'd' in back2 \
                else ('kind', back2, back)
            rec['violations'].append(_whole_v(
                fmt, 'whole-context-write-differs-from-explicit-payload-of-the-same-mapping',
                f"without payload the file reads back as {json.dumps(b)[:160]} where the same mapping given as payload reads back as {json.dumps(a)[:160]} ({what} node)",
                back2, back, what))
        if isinstance(back, dict) and 'd' in back:
            stripped[fmt] = {'d': [[k, v] for k, v in back['d'] if k != wkey]}
        # the model: `writePayload` without payload, then the fetch step (file level, ideal codec)
        try:
            m = drv.ask('codec.writefetch', format=fmt, ctx=enc(ctx_w), ctx2=enc({fkey: {'path': path, 'key': 'out'}}))
            if 'ok' in m.get('write', {}) and 'ok' in m.get('fetch', {}):
                got = dict((json.dumps(k), v) for k, v in m['fetch']['ok']['d']).get('"out"', {'missing': True})
                model[fmt] = I.sort_wire(got)
            else:
                model[fmt] = {'err': m}
        except common.Reject:
            rec['counts'].append('wholectx-model-rejected')
            impl.pop(fmt, None)
    # (c) the three write steps agree (own input entry aside)
    fmts = sorted(stripped)
    for a in fmts[1:]:
        if stripped[a] != stripped[fmts[0]] and not rec['violations']:
            what, x, y = first_diff(stripped[fmts[0]], stripped[a])
            rec['violations'].append(_whole_v(a, 'write-steps-disagree-on-whole-context',
                                              f"filewrite{a} and filewrite{fmts[0]} wrote different documents for the same context ({what} node: {json.dumps(x)[:120]} vs {json.dumps(y)[:120]})",
                                              stripped[fmts[0]], stripped[a], what))
    rec['model'], rec['impl'] = model, impl
    if model != impl:
        rec['mismatch'] = 'whole-context write: what is read back differs from the model'
    return rec


def _at_out(r):
    if 'ok' not in r:
        return {'raised': r.get('err'), 'msg': r.get('msg')}
    return I.sort_wire(dict((json.dumps(k), v) for k, v in r['ok']['d']).get('"out"', {'missing': True}))


def _whole_v(fmt, cause, text, want, got, what=None):
    sig = {'flow': 'wholectx', 'format': fmt, 'cause': cause}
    if what:
        sig['what'] = what
    return {'detail': f'wholectx {fmt}: filewrite{fmt} without payload (the whole context is written): {text}', 'signature': sig,
            'impl': {'want': want, 'got': got}}


def model_formatter(drv):
    """(context values, value) -> what the Lean formatter model (format.fmt = Format.fmtVal, the faithful tree model of
    C08/C09) makes of it, in the plain form the monitors compare ({'ok': wire} / {'err': …}); None = outside the
    model's domain (rejected / unencodable): impl_c16.real_format then falls back on pypyr's own formatter."""
    def ref(ctx_values, value):
        try:
            m = drv.ask('format.fmt', ctx=enc(I.plain_keep(dict(ctx_values))), v=enc(I.plain_keep(value)))
        except (common.Reject, TypeError, ValueError):
            return None
        if 'ok' in m:
            return {'ok': enc(I.plain(dec(m['ok'])))}
        return {'err': m['err']['name']}
    return ref


def run_formatter(drv, case):
    """flow `formatter`: Context.get_formatted_value against the Lean formatter model on one value (strings with every
    brace pattern, as keys and values, nested): C08/C09 own the formatter; this flow is here so that C16 has a verdict
    with a concrete input when the formatter under the file steps is what broke. The disagreement is picked up by
    `absorb` from rec['fmt_disagree'] like for every other flow."""
    ctx, v = dec(case['ctx']), dec(case['value'])
    rec = {'case': case, 'counts': ['flow:formatter']}
    want = I.real_format(ctx, v)
    rec['counts'].append('formatter:' + ('ok' if 'ok' in want else 'err:' + str(want.get('err'))[:30]))
    return rec


RUNNERS = {'ctxsession': run_ctxsession, 'wholectx': run_wholectx, 'writefetch': run_writefetch, 'fileformat': run_fileformat, 'jsonprint': run_jsonprint,
           'jsonparse': run_jsonparse, 'session': run_session, 'parser': run_parser_flow, 'formatter': run_formatter}


def run_case(drv, case):
    I.REF_FORMATTER = model_formatter(drv)
    del I.FORMAT_DISAGREEMENTS[:]
    rec = RUNNERS[case['flow']](drv, case)
    if I.FORMAT_DISAGREEMENTS:
        rec['fmt_disagree'] = list(I.FORMAT_DISAGREEMENTS)
        del I.FORMAT_DISAGREEMENTS[:]
    return rec


CASE_TIMEOUT = 30
_timeouts = 0       # per harness process: after 2 the limit drops to 5 s, after 5 the remaining cases are skipped


class CaseTimeout(BaseException):
    """Raised by SIGALRM in the process running a case: not an `Exception`, so no handler of the tree under
    test can swallow it."""


import contextlib
import signal


@contextlib.contextmanager
def time_limit(sec):
    def on_alarm(_sig, _frm):
        raise CaseTimeout(f'no result within {sec} s')
    try:
        old = signal.signal(signal.SIGALRM, on_alarm)
    except ValueError:
        yield
        return
    signal.alarm(sec)
    try:
        yield
    finally:
        signal.alarm(0)
        signal.signal(signal.SIGALRM, old)


def guarded_case(drv, case):
    global _timeouts
    if _timeouts >= 5:
        return {'case': case, 'counts': ['skipped-after-timeouts'], 'skipped': True}
    try:
        with time_limit((CASE_TIMEOUT if _timeouts < 2 else 5) * (8 if case.get('flow') == 'session' else 1)):
            return run_case(drv, case)
    except (common.Infra, KeyboardInterrupt):
        raise
    except CaseTimeout as e:
        _timeouts += 1
        try:                     # a request may be in flight: start the model driver afresh
            drv.close()
            drv.__init__()
        except Exception:
            pass
        return {'case': case, 'counts': ['case-timeout'], 'timeout': str(e)}
    except BaseException as e:   # noqa: BLE001
        import traceback
        return {'case': case, 'counts': ['harness-error'], 'model': None, 'impl': None,
                'mismatch': f'harness error: {type(e).__name__}: {e} @ ' + traceback.format_exc()[-700:]}


# --------------------------------------------------------------------------
# JSON texts for the parser correspondence
# --------------------------------------------------------------------------

def json_texts(rng, docs, n):
    out = []
    ws = [' ', '\n', '\t', '\r', '  ', '']
    for d in docs:
        for t in (json.dumps(d, indent=2, ensure_ascii=False), json.dumps(d), json.dumps(d, separators=(',', ':')),
                  json.dumps(d, indent='\t', ensure_ascii=True), json.dumps(d, sort_keys=False, indent=0)):
            out.append(t)
        t = json.dumps(d, ensure_ascii=True)
        # re-space: whitespace is only legal between tokens; insert around structural characters outside strings
        res, instr, esc = [], False, False
        for ch in t:
            if instr:
                res.append(ch)
                if esc:
                    esc = False
                elif ch == '\\':
                    esc = True
                elif ch == '"':
                    instr = False
            else:
                if ch == '"':
                    instr = True
                    res.append(ch)
                elif ch in '{}[],:':
                    res.append(rng.choice(ws) + ch + rng.choice(ws))
                else:
                    res.append(ch)
        out.append(rng.choice(ws) + ''.join(res) + rng.choice(ws))
        # corrupt
        for _ in range(3):
            if not t:
                break
            i = rng.randrange(len(t))
            kind = rng.randrange(4)
            if kind == 0:
                out.append(t[:i])
            elif kind == 1:
                out.append(t[:i] + t[i + 1:])
            elif kind == 2:
                out.append(t[:i] + rng.choice('{}[],:"\\0-1 etnu.x\n\x01') + t[i:])
            else:
                out.append(t + rng.choice([',', ']', '}', ' x', '1', 'null', '[]']))
    rng.shuffle(out)
    out = out[:n] if n else out
    # always: floats - short exact decimals (read exactly), non-dyadic / long / exponent forms (model: outside), malformed
    out += ['0.5', '-2.25', '1.0', '1.00', '0.50', '0.1', '3.125', '65536.5', '-0.0009765625', '0.0', '-0.0', '-0.00', '1.5e3',
            '123456789012345.5', '12345678901234.5', '99999999999999.5', '999999999999999.0', '1.7976931348623157e308',
            '4.9e-324', '0.30000000000000004', '1.0E+2', '[0.5,1.25]', '{"a":0.5,"b":[-0.75, 1e2]}', '9007199254740993.0',
            '0.000030517578125', '0.0001220703125', '00.5', '0.5.5', '1.e5', '1.5e', '1.5e+', '.5e1', '-.5', '0.5e-2',
            '2.5 ', ' 2.5', '[2.5,]', '-1.0', '-12.625', '1.5x', '1.5.', '0.', '-', '-x', '1.0000000000000002',
            '0.25e', '10.0', '100.125', '[1.0, 2, 3.5, "4.5"]', '5E-1', '5e0', '1e400', '-1e400', '0.999999999999999',
            '4294967296.0', '0.5000000000000000', '1.50000000000000', '0.0000000000000']
    out += ['', ' ', 'nul', 'null', ' true ', 'false', 'tru', '0', '-0', '-', '01', '1 2', '1.', '1.5', '1e5', '1E+2',
            '1e', '-1', '[1,]', '[,1]', '[1 2]', '{"a":1,}', '{,}', '{"a" 1}', '{"a":}', '{a:1}', "{'a':1}", '"\\u00e9"',
            '"\\ud83d\\ude00"', '"\\ud83d"', '"\\ude00"', '"\\uD83D\\uDE00"', '"\\u12"', '"\\u12G4"', '"\\x41"',
            '"\\/"', '"\\b\\f\\n\\r\\t\\"\\\\"', '"tab\there"', '"nl\nx"', '"\x7f"', '"unterminated', '[[[[]]]]',
            '[[[[', '{"a":{"a":{"a":{}}}}', '{"a":1,"a":2,"b":3,"a":4}', 'NaN', 'Infinity', '-Infinity', '[NaN]',
            '\ufeff1', '1\x00', ' \n\t\r[ \n\t\r] \n\t\r', '"\\u+123"', '"\\u 123"', '"\\u0x12"', '1_0', '+1', '.5',
            '00', '-01', '[-]', '"a" "b"', '[1]]', '{}{}', '123456789012345678901234567890', '-9223372036854775809',
            '"\\ud834\\udd1e"', '"\\uDBFF\\uDFFF"', '"\\ud800\\udc00"', '"\\ud7ff\\ue000\\uffff"', '"\\ud834x"', '"\\ud834\\n"',
            '"\\ud834\\u0041"', '"\\ud834\\ud834\\udd1e"', '"\\u007f\\u0080"', '{"\\ud83d\\ude00": "\\u00e9"}',
            '{"1": 1, "true": 2, "null": 3, "1.5": 4}']
    return out


# --------------------------------------------------------------------------
# orchestration
# --------------------------------------------------------------------------

_worker = {}


def _init_worker():
    common.use_repo()
    _worker['drv'] = common.Driver()
    _worker['dir'] = tempfile.mkdtemp(prefix='verif-c16-')
    os.chdir(_worker['dir'])


def _run_worker(case):
    if 'drv' not in _worker:
        _init_worker()
    return guarded_case(_worker['drv'], case)


def _close_zygote():
    z = _worker.pop('zygote', None)
    if z is not None:
        z.close()


def _cleanup_worker(_):
    _close_zygote()
    d = _worker.get('dir')
    if d:
        os.chdir('/')
        shutil.rmtree(d, ignore_errors=True)
    return True


def run_all(env, cases, workers):
    if workers <= 1:
        cwd = os.getcwd()
        d = tempfile.mkdtemp(prefix='verif-c16-')
        os.chdir(d)
        try:
            out = [guarded_case(env.driver, c) for c in cases]
            return out
        finally:
            _close_zygote()
            os.chdir(cwd)
            shutil.rmtree(d, ignore_errors=True)
    import multiprocessing as mp
    mpc = mp.get_context('fork')
    with mpc.Pool(workers) as pool:
        out = pool.map(_run_worker, cases, chunksize=16)
        pool.map(_cleanup_worker, range(workers * 4), chunksize=1)
    return out


SPECIAL = {'\x85': 'U+0085', '\u2028': 'U+2028', '\u2029': 'U+2029', '\r': 'CR', '\ufeff': 'BOM', '\x00': 'NUL',
           '\x7f': 'DEL', '\t': 'TAB', '\n': 'LF'}


def kind_of(w):
    if w is None:
        return 'none'
    if isinstance(w, bool):
        return 'bool'
    if isinstance(w, int):
        return 'int'
    if isinstance(w, str):
        return 'str'
    if isinstance(w, list):
        return 'list'
    if isinstance(w, dict):
        return {'d': 'dict', 'f': 'float'}.get(next(iter(w), ''), 'obj')
    return 'other'


def first_diff(want, got):
    """First differing node of two canonical wire values: (what, wanted node, node got)."""
    if kind_of(want) != kind_of(got):
        return f'{kind_of(want)}->{kind_of(got)}', want, got
    if isinstance(want, list):
        if len(want) != len(got):
            return 'list-length', want, got
        for a, b in zip(want, got):
            if a != b:
                return first_diff(a, b)
    if isinstance(want, dict) and 'd' in want:
        gd = {json.dumps(k): v for k, v in got['d']}
        for k, v in want['d']:
            kk = json.dumps(k)
            if kk not in gd:
                return 'key', k, [g for g, _ in got['d'] if json.dumps(g) not in {json.dumps(x) for x, _ in want['d']}][:1]
            if gd[kk] != v:
                return first_diff(v, gd[kk])
        if len(want['d']) != len(got['d']):
            return 'dict-size', want, got
    return kind_of(want), want, got


def has_long_fold_key(w):
    """A wire value with a mapping key that is a string of 61..127 characters containing a blank and no line break
    (what ruamel's round-trip dumper writes as a plain implicit key and folds where it crosses column 80: from 81
    characters at the top level, from correspondingly fewer under indentation)."""
    if isinstance(w, list):
        return any(has_long_fold_key(x) for x in w)
    if isinstance(w, dict) and 'd' in w:
        return any((isinstance(k, str) and 60 < len(k) < 128 and ' ' in k and '\n' not in k) or has_long_fold_key(v)
                   for k, v in w['d'])
    return False


def cause_of_unreadable(fmt, want, default):
    """The file written cannot be read back at all (the loader raises). YAML with a long blank-separated key in the
    document: its own signature - the output is unreadable, not a changed value."""
    if fmt == 'yaml' and has_long_fold_key(want):
        return 'long-key-with-spaces-folded-unreadable'
    return default


def cause_of(what, a):
    if isinstance(a, str):
        sp = sorted({name for ch, name in SPECIAL.items() if ch in a and name not in ('TAB', 'LF')})
        if sp:
            return 'str-with-' + '+'.join(sp)
        if len(a) > 80 and '  ' in a and '\n' not in a:
            return 'long-str-with-space-run'
    return what


def absorb(res, rec):
    case = rec['case']
    for c in rec.get('counts', []):
        res.count(c)
    if rec.get('skipped'):
        return
    if rec.get('hypothesis'):
        res.count('third-party-codec-non-roundtrip:' + case['format'])
        res.extra.setdefault('codec_hypothesis_failures', [])
        if len(res.extra['codec_hypothesis_failures']) < 10:
            res.extra['codec_hypothesis_failures'].append(rec['hypothesis'])
        return
    if 'reject' in rec:
        return
    res.case(case)
    if rec.get('timeout'):
        res.violation(case, f"{case['flow']} {case.get('format')}: the steps did not return: {rec['timeout']}",
                      signature={'flow': case['flow'], 'format': case.get('format'), 'cause': 'does-not-terminate'},
                      impl={'end': 'timeout'})
        return
    if 'mismatch' in rec:
        res.mismatch(case, rec.get('model'), rec.get('impl'), rec['mismatch'])
    for fd in (rec.get('fmt_disagree') or [])[:2]:
        # Context.get_formatted_value vs the Lean formatter model on a value of this case. In the flow `formatter` this IS
        # the verdict (the formatter under the file steps); in the other flows the monitors judge the files against the
        # model's value and this line says where the difference comes from.
        res.count('formatter-differs-from-model')
        if 'ok' in fd['impl']:
            what, a, b = first_diff(I.sort_wire(fd['model']['ok']), I.sort_wire(fd['impl']['ok']))
            detail = (f"Context.get_formatted_value on {json.dumps(fd['value'])[:200]}: at a {what} node the formatter model "
                      f"(python format syntax: '{{{{' -> '{{', '}}}}' -> '}}', expressions substituted) gives {json.dumps(a)[:160]}, "
                      f"the implementation {json.dumps(b)[:160]}")
            cause = 'formatted-value-differs-from-model:' + cause_of(what, a)
        else:
            detail = (f"Context.get_formatted_value on {json.dumps(fd['value'])[:200]} raised {fd['impl'].get('err')}: "
                      f"{fd['impl'].get('msg')}; the formatter model gives {json.dumps(fd['model']['ok'])[:200]}")
            cause = 'formatter-raised-where-model-formats'
        if case['flow'] == 'formatter':
            res.violation(case, 'formatter: ' + detail, signature={'flow': 'formatter', 'cause': cause}, impl=fd)
        else:
            res.mismatch(case, fd['model'], fd['impl'], 'formatter model differs from Context.get_formatted_value: ' + detail)
    for pr in (rec.get('session_problems') or [])[:3]:
        tags = [f"{o['kind']}:{o['format']}" + (':' + o['reader'] if o.get('reader') else '') for o in case['ops']]
        where = f"session {tags}, operation {pr['op']} ({pr['kind']} {pr['format']}" + \
                (f", read by the {'file context parser' if pr.get('reader') == 'parser' else 'fetch step'}" if pr.get('reader') else '') + ')'
        if pr['clause'] == 'history-dependent':
            detail = (f"{where}: in the session it observed {json.dumps(pr['got'])[:300]}, the same operation in a fresh "
                      f"process observes {json.dumps(pr['want'])[:300]}; earlier operations: {pr['earlier']}")
            sig = {'flow': 'session', 'format': pr['format'], 'cause': 'result-depends-on-earlier-operations',
                   'op': pr['kind'] + ('/' + pr['reader'] if pr.get('reader') else '')}
        elif pr['clause'] in ('abnormal-end', 'format-raised'):
            detail = f"{where}: ended abnormally: {json.dumps(pr['got'])[:300]}"
            sig = {'flow': 'session', 'format': pr['format'], 'cause': pr['clause'], 'op': pr['kind']}
        else:
            want = pr['want']
            got = pr['got']['read'].get('ok') if pr['clause'] == 'roundtrip' and isinstance(pr['got'].get('read'), dict) else pr['got']
            if pr['clause'] == 'roundtrip' and not isinstance(pr['got'].get('read'), dict):
                what, a, b = 'read-raised', want, pr['got']
            else:
                what, a, b = first_diff(want, got)
            cause = pr.get('cause') or cause_of(what, a)
            detail = (f"{where}" + (f", file {pr['file']}" if pr.get('file') else '') + ': ' +
                      ('value read back differs from the formatted payload' if pr['clause'] == 'roundtrip'
                       else 'output document differs from the source with every string node formatted') +
                      f" at a {what} node: wanted {json.dumps(a)[:160]}, got {json.dumps(b)[:160]}")
            sig = {'flow': 'session', 'format': pr['format'], 'cause': cause, 'op': pr['kind']}
        res.violation(case, detail, signature=sig, impl={'problem': pr})
    for v in (rec.get('violations') or [])[:3]:
        res.violation(case, v['detail'], signature=v['signature'], impl=v.get('impl'))
    mon = rec.get('monitor')
    if mon is not None and not mon['holds']:
        flow = 'parser' if mon.get('via') in ('parser', 'parser-raised') else case['flow']
        if mon.get('via') == 'fetch-raised':
            top = kind_of(mon['want'])
            cause = cause_of_unreadable(case['format'], mon['want'], 'fetch-raised-on-top-level-' + top)
            detail = (f"writefetch {case['format']}: the payload was written but the fetch step raised "
                      f"{mon['got'].get('raised')}: {mon['got'].get('msg')} (top-level {top}, " +
                      ('destination key given)' if case.get('variant') in ('key', 'whole') else
                       'no destination key: a string-keyed mapping to be merged at the context root)'))
            a = mon['want']
        elif mon.get('via') == 'parser-raised':
            cause = cause_of_unreadable(case['format'], mon['want'],
                                        'parser-raised-although-the-file-is-in-the-encoding-it-reads-with:' + str(mon['got'].get('raised')))
            detail = (f"parser {case['format']}: the payload was written by the filewrite step (encoding entry "
                      f"{case.get('wenc')!r}, config.default_encoding {case.get('dflt')!r}) and the file context parser, "
                      f"called with args {parser_args(case)!r} under config.default_encoding "
                      f"{(case.get('dflt') if case.get('dfltParse') == SAME else case.get('dfltParse'))!r}, did not return it: "
                      f"{mon['got'].get('raised')}: {mon['got'].get('msg')}")
            a = mon['want']
        else:
            if isinstance(mon['got'], dict) and 'unreadable' in mon['got']:
                what, a, b = 'unreadable', mon['want'], mon['got']
            else:
                what, a, b = first_diff(mon['want'], mon['got'])
            cause = cause_of_unreadable(case['format'], mon['want'], 'unreadable') if what == 'unreadable' else cause_of(what, a)
            detail = (f"{flow} {case['format']}: " +
                      ('value read back differs from the formatted payload' if flow in ('writefetch', 'parser')
                       else 'output document differs from the source with every string node formatted') +
                      f" at a {what} node: wanted {json.dumps(a)[:160]}, got {json.dumps(b)[:160]}")
        sig = {'flow': flow, 'format': case['format'], 'cause': cause}
        if case.get('encopts') is not None:
            e_in, e_out = I.enc_in_out(case['encopts'])
            sig.update(route=case['route'], encodings=f'in={e_in},out={e_out}')
            detail += f" [route {case['route']}, options {case['encopts']}: read as {e_in}, to be written as {e_out}]"
        res.violation(case, detail, signature=sig,
                      impl={'want': mon['want'], 'got': mon['got'], 'via': mon.get('via')})


# --------------------------------------------------------------------------
# brace patterns: every arrangement of escaped / unescaped braces, as values and keys
# --------------------------------------------------------------------------

BRACE_TOKENS = ['{{', '}}', '{k1}', 'a', ' b ', 'é', '{k2}']
BRACE_EXTRA = ['}}}}', '{{{{', '{{{{{{', '}}}}}}', '{{{k1}}}', '{{{{k1}}}}', '{{{{{k1}}}}}', 'json tail: 1]}}', 'a }} b',
               '}} at start', 'at end }}', '{{ at start', 'at end {{', '}}{{}}{{', 'x}}y}}z', 'x{{y{{z', '{{}}', '}}{{',
               '{{"a": {{"b": [1, 2]}}}}', 'fn() {{ return; }}', '${{VAR}}', '%}}%', '}}\n}}', '{k1}}}', '}}{k1}', '{{{k1}',
               '{k1}{{', '{k4[a]}}}', '}}{k3[1]}', '{k1:>4}}}', '{k1!r}}}']
BRACE_BAD = ['}', '{', 'a}', '{a', '}}}', '{{{', 'a } b', '}{', '{}', '}} }', '{k1}}']    # ValueError / IndexError: refused


def brace_strings(rng=None, n=None):
    """every sequence of 1-3 BRACE_TOKENS (only closing, only opening, mixed, at start / end, repeated, next to
    expressions) + deeper nestings; with `rng`: n random sequences of 1-7 tokens"""
    import itertools
    if rng is not None:
        return [''.join(rng.choice(BRACE_TOKENS) for _ in range(rng.randint(1, 7))) for _ in range(n)]
    out = []
    for k in (1, 2, 3):
        for t in itertools.product(BRACE_TOKENS, repeat=k):
            s = ''.join(t)
            if s not in out:
                out.append(s)
    return out + [s for s in BRACE_EXTRA if s not in out]


def brace_docs(strings, per=6):
    """mappings holding the strings as values, list members, nested values and KEYS (a key keeps a distinguishing
    suffix / prefix so that formatted keys do not collide)"""
    docs = []
    for i in range(0, len(strings), per):
        ss = strings[i:i + per]
        ss = ss + ss[:per - len(ss)] if len(ss) < per else ss
        docs.append({'v': ss[0], 'l': [ss[1], 7, {'n': ss[2]}], ss[3] + '#k1': ss[4], '2k#' + ss[5]: {ss[0] + '#in': [ss[3]]},
                     'deep': {'a': {'b': {'c': [[ss[5]]]}}}})
    return docs


def brace_cases(strings, tag, every=1):
    cases = []
    for j, d in enumerate(brace_docs(strings)):
        cases.append({'flow': 'formatter', 'ctx': enc(CTXV), 'value': enc(d), 'tag': tag})
        for fi, fmt in enumerate(('json', 'yaml', 'toml')):
            if (j + fi) % every:
                continue
            cases.append(writefetch_case(fmt, d, VARIANTS[j % 2]))
            cases.append(fileformat_case(fmt, d, inplace=(j % 2 == 0)))
    return cases


def build_cases(env):
    rng = env.rng
    cases = []
    # ---- directed
    for fmt in ('json', 'yaml', 'toml'):
        dps = directed_payloads(fmt)
        for i, p in enumerate(dps):
            if fmt == 'toml' and not isinstance(p, dict):
                continue
            cases.append(writefetch_case(fmt, p, VARIANTS[i % 2] if isinstance(p, dict) else 'key'))
            cases.append(fileformat_case(fmt, p, inplace=(i % 2 == 0)))
        # every variant on a few payloads
        for v in VARIANTS:
            for p in dps[:3] + dps[-6:]:
                if (fmt == 'toml' or v in ('root', 'emptykey', 'string')) and not isinstance(p, dict):
                    continue
                cases.append(writefetch_case(fmt, p, v))
        if fmt == 'json':
            # keys json.dump coerces, floats, non-BMP / DEL; every config.json_indent x config.json_ascii setting
            jd = json_directed_payloads()
            for i, (p, raw) in enumerate(jd):
                for j, cfg in enumerate(JSON_CFG if i < 14 else JSON_CFG[:3]):
                    v = (VARIANTS[(i + j) % 2] if isinstance(p, dict) else 'key')
                    cases.append(writefetch_case(fmt, p, v, None, cfg))
                    if not raw:
                        cases.append(fileformat_case(fmt, p, inplace=((i + j) % 2 == 0), jcfg=cfg))
            for cfg in JSON_CFG:
                for p in dps[-8:] + [dps[80 % len(dps)], dps[28 % len(dps)], dps[29 % len(dps)]]:
                    cases.append(writefetch_case(fmt, p, 'key', None, cfg))
                    cases.append(fileformat_case(fmt, p, True, None, jcfg=cfg))
            # tuple key: json.dump raises TypeError (keys must be str, int, float, bool or None)
            cases.append(writefetch_case(fmt, {'m': {'{k3}': 1}}, 'key'))
        # negatives: not representable
        if fmt == 'toml':
            cases.append(writefetch_case(fmt, {'a': None}, 'key'))
            cases.append(writefetch_case(fmt, {}, 'key'))
        cases.append(writefetch_case(fmt, [1, 2], 'root'))
        # encodings
        if fmt != 'toml':
            for e in ('utf-8', 'utf-16', 'latin-1'):
                for p in dps:
                    if isinstance(p, dict) and not has_char_outside(p, e) and not has_char_outside(CTXV['ku'], e):
                        cases.append(writefetch_case(fmt, p, 'key', e))
                for p in dps[:40]:
                    if e == 'latin-1' and (has_char_outside(p, e)):
                        continue
                    # ku formats to non-latin-1 characters: skip payloads referencing it there
                    if e == 'latin-1' and 'ku' in json.dumps(enc(p)):
                        continue
                    cases.append(writefetch_case(fmt, p, 'key', e))
                    cases.append(fileformat_case(fmt, p, True, e))
    # ---- encoding options x route, for the ObjectRewriter steps that take encodings (json, yaml)
    for fmt in ('json', 'yaml'):
        for eo in ENCOPTS:
            for route in ROUTES:
                for d in ENC_DOCS:
                    if all(not has_char_outside(d, e) for e in I.enc_in_out(eo)):
                        cases.append(fileformat_case(fmt, d, route != 'out', None, eo, route))
    # ---- the class of the error when the serialiser refuses the payload, per format and cause
    O = common.Opaque
    for fmt in ('json', 'yaml', 'toml'):
        for p in ({'a': O(1)}, {'a': [1, {'b': O(2)}]}, [O(3)], O(4)):
            cases.append(writefetch_case(fmt, p, 'key'))
    for p in ([1, 2], ['a', {'b': 1}], 'x', 'text {k1}', 42, -1, 1.5, True,          # top level not a mapping
              {'a': None}, {'a': [None]}, {'a': {'b': None}}, {'a': [{'b': None}]},   # no TOML type inside
              {1: 'x'}, {'a': {1: 2}}, {'a': [{2: 'y'}]}, {True: 1},                  # key not a string
              [], '', 0, 0.0, False, {}, None):                                       # falsy: refused by the step
        cases.append(writefetch_case('toml', p, 'key'))
    # ---- the fetch step given ANOTHER encoding than the write step; both under a config default
    for fmt in ('json', 'yaml'):
        for d in PARSER_DOCS:
            for we, fe in (('utf-16', 'utf-8'), ('utf-8', 'utf-16'), ('latin-1', 'utf-8'), ('utf-8', 'latin-1'),
                           ('utf-16', 'latin-1'), (None, 'utf-16'), ('utf-16', 'utf-16'), ('latin-1', 'latin-1')):
                c = writefetch_case(fmt, d, 'key', we)
                c['fenc'] = fe
                cases.append(c)
            for dflt in ('utf-16', 'latin-1', 'utf-8'):
                for v in ('key', 'string', 'root'):
                    c = writefetch_case(fmt, d, v, None)
                    c['dflt'] = dflt
                    cases.append(c)
                c = writefetch_case(fmt, d, 'key', 'utf-8')
                c['dflt'] = dflt
                cases.append(c)
    # ---- the file context parsers: write encoding x config.default_encoding, arguments, top level
    for fmt in ('json', 'yaml', 'toml'):
        for d in PARSER_DOCS:
            for we in W_ENCS:
                for dflt in D_ENCS:
                    cases.append(parser_case(fmt, d, we, dflt))
        for dflt, dparse in ((None, 'utf-16'), ('utf-16', None), ('latin-1', 'utf-8'), ('utf-16', 'utf-16'),
                             ('utf-8', None), (None, 'utf-8')):
            for we in (ABSENT, 'utf-16'):
                cases.append(parser_case(fmt, PARSER_DOCS[0], we, dflt, dparse, 'split'))
        for path in (f'out dir/my file.{fmt}', f'a  b/two  spaces .{fmt}', f'nospace.{fmt}', f' lead/x.{fmt}'):
            for a in ('single', 'split'):
                cases.append(parser_case(fmt, PARSER_DOCS[1], ABSENT, None, SAME, a, path))
                cases.append(parser_case(fmt, PARSER_DOCS[1], 'utf-16', 'utf-16', SAME, a, path))
        for a in ('empty', 'none', 'wrong'):
            for write in (True, False):
                for dflt in (None, 'utf-16'):
                    cases.append(parser_case(fmt, PARSER_DOCS[0], ABSENT, dflt, SAME, a, write=write))
        if fmt != 'toml':
            for p in ([1, 2], ['é', {'k': 'v'}], 'just text é', 42, 1.5, True, None, []):
                for a in ('single', 'split'):
                    cases.append(parser_case(fmt, p, ABSENT, None, SAME, a))
                cases.append(parser_case(fmt, p, 'utf-16', 'utf-16'))
        for p in directed_payloads(fmt)[-8:]:
            if isinstance(p, dict):
                cases.append(parser_case(fmt, p, ABSENT, 'utf-16', SAME, 'split'))
    # ---- long mapping keys (longer than the YAML writer's line width; with / without blanks), all three formats and flows.
    #      DIRECTED ONLY: on the tree as it is the yaml ones with blanks in 81..127 are unreadable after the write
    for fmt in ('json', 'yaml', 'toml'):
        for k in LONG_KEYS + LONG_KEYS_FINE:
            for p in ({k: 'v', 'other': 1}, {'n': {k: [k, {'deep': 'x{k1}'}]}}):
                cases.append(writefetch_case(fmt, p, 'key'))
                cases.append(parser_case(fmt, p))
                cases.append(fileformat_case(fmt, p, inplace=True))
    # ---- keys that are single expressions resolving to non-strings (int / bool / None / float) NEXT TO string keys, at
    #      depth 0-3 and inside lists, unsorted entry orders; 3 formats x fileformat (in place / out) x filewrite->fetch
    for fmt in ('json', 'yaml', 'toml'):
        for i, d in enumerate(keyexpr_docs(fmt)):
            for j, cfg in enumerate([None] if fmt != 'json' else [None, (0, True), ('none', False)]):
                cases.append(fileformat_case(fmt, d, inplace=True, jcfg=cfg))
                cases.append(fileformat_case(fmt, d, inplace=False, jcfg=cfg))
                cases.append(writefetch_case(fmt, {'doc': d}, 'key', None, cfg))
                cases.append(writefetch_case(fmt, {'doc': d}, 'root', None, cfg))
        # a failing fileformat (a node that cannot be formatted; toml: a node / key TOML has no type for), both routes
        for d in ({'a': 'fine {k1}', 'b': '{nope}', 'c': 1}, {'z': {'y': ['x{k1}', {'w': '{nope}'}]}}, {'{nope}': 1, 'a': 2}):
            for inplace in (True, False):
                cases.append(fileformat_case(fmt, d, inplace=inplace))
    # ---- steps on one context: fetch to the context root (twice, over containers, files with literal braces)
    cases += directed_ctxsessions()
    # ---- the write steps without payload: whole context, top-level key names with expressions
    cases += directed_wholectx()
    # ---- sessions
    cases += directed_sessions()
    # ---- brace patterns: the formatter flow on every string on its own; documents of them through the three routes
    bs = brace_strings()
    for x in bs + BRACE_BAD:
        cases.append({'flow': 'formatter', 'ctx': enc(CTXV), 'value': enc(x), 'tag': 'brace-single'})
        cases.append({'flow': 'formatter', 'ctx': enc(CTXV), 'value': enc({x + '#': [x]}), 'tag': 'brace-key'})
    cases += brace_cases(bs, 'brace-doc', every=env.n(3, 1))
    for x in BRACE_BAD[:4]:
        for fmt in ('json', 'yaml', 'toml'):
            cases.append(fileformat_case(fmt, {'a': 'fine }}', 'b': x}, inplace=True))
            cases.append(writefetch_case(fmt, {'a': 'fine }}', 'b': x}, 'key'))
    n_directed = len(cases)
    cases += brace_cases(brace_strings(rng, env.n(120, 6000)), 'brace-random', every=env.n(3, 1))
    for _ in range(env.n(120, 6000)):
        cases.append(random_ctxsession(rng))
    for _ in range(env.n(40, 2500)):
        cases.append(random_wholectx(rng))
    for i in range(env.n(90, 4000)):
        fmt = ('json', 'yaml', 'toml')[i % 3]
        p = gen_doc(rng, fmt, rng.choice([1, 2, 2, 3]), top=True)
        if not isinstance(p, dict):
            p = {'v': p}
        cases.append(parser_case(fmt, p, rng.choice([ABSENT, ABSENT, None, 'utf-8', 'utf-16', 'utf-32']),
                                 rng.choice([None, None, 'utf-8', 'utf-16']),
                                 rng.choice([SAME, SAME, SAME, None, 'utf-16']), rng.choice(['single', 'split', 'split'])))
    for _ in range(env.n(40, 1500)):
        cases.append(random_session(rng))
    for i in range(env.n(30, 3000)):
        fmt = ('json', 'yaml')[i % 2]
        eo = rng.choice(ENCOPTS)
        d = gen_doc(rng, fmt, rng.choice([1, 2, 3]), top=True)
        ei, eo_ = I.enc_in_out(eo)
        if any(has_char_outside(d, e) or has_char_outside(CTXV['ku'], e) for e in (ei, eo_)):
            d = rng.choice(ENC_DOCS[:1])
        cases.append(fileformat_case(fmt, d, True, None, eo, rng.choice(ROUTES)))
    # ---- random
    n_rand = env.n(260, 26000)
    for i in range(n_rand):
        fmt = ('json', 'yaml', 'toml')[i % 3]
        p = gen_doc(rng, fmt, rng.choice([1, 2, 2, 3, 4]), top=True, nonstr=(i % 2 == 0), keyexpr=True)
        jcfg = rng.choice(JSON_CFG) if fmt == 'json' and rng.random() < 0.7 else None
        if i % 2 == 0:
            v = rng.choice(VARIANTS)
            if v in ('root', 'emptykey', 'string') and not isinstance(p, dict):
                v = 'key'
            cases.append(writefetch_case(fmt, p, v, None, jcfg))
        else:
            cases.append(fileformat_case(fmt, p, rng.random() < 0.5, jcfg=jcfg))
    # ---- JSON printer / parser
    jdocs = [p for p, _raw in json_directed_payloads()] + [p for p in directed_payloads('json')]
    for _ in range(env.n(60, 2500)):
        jdocs.append(gen_doc(rng, 'json', rng.choice([1, 2, 3, 5]), top=rng.random() < 0.7, nonstr=True))
    # printer/parser see documents as they are (no formatting): any string is fine. Every settings pair on the
    # directed JSON documents, a rotating one on the others.
    nj = len(json_directed_payloads())
    for i, d in enumerate(jdocs):
        for cfg in (JSON_CFG if i < nj else [JSON_CFG[i % len(JSON_CFG)]]):
            cases.append({'flow': 'jsonprint', 'doc': enc(d), 'jcfg': list(cfg)})
    for t in json_texts(rng, [d for d in jdocs if not contains_odd(d)][:env.n(50, 1500)], env.n(500, 0)):
        cases.append({'flow': 'jsonparse', 'text': t, 'maybe_float': any(c in t for c in '.eE')})
    return cases, n_directed


def run(env, res):
    res.rule = ('directed: every catalogue string (type look-alikes, spaces, multi-line, non-ASCII, control chars, braces, '
                'formatting expressions) as value and as key, all scalar kinds, empties, deep nesting, colliding keys, '
                'each through write->fetch (key/root/empty key/string input/whole context), the file context parser and '
                'fileformat (in place / out), x json|yaml|toml x encodings; random: nested payloads of depth <= 4; '
                'refused payloads (object inside / at top level x 3 formats; toml: list, str, int, float, bool at top level, '
                'None inside, non-string key, the falsy ones) compared on the exact exception class; write->fetch with '
                'ANOTHER encoding on the fetch step and under config.default_encoding utf-16 / latin-1 / utf-8; file context '
                'parsers: 3 formats x write encoding entry {absent, None, utf-8, utf-16, latin-1, utf-8-sig} x '
                'config.default_encoding {None, utf-8, utf-16, latin-1} (and another default at parse time) on non-ASCII '
                'mappings, args = [path] / path split at spaces (incl. double spaces, leading space) / [] / None / missing '
                'file, non-mapping top levels, random payloads x random encodings; '
                'JSON printer vs pypyr JsonRepresenter.dump / the file filewritejson wrote / the output of fileformatjson, '
                'byte-for-byte under config.json_indent in {0,1,2,4,None,-1} x config.json_ascii in {False,True}; parser vs json.loads '
                'on printed/re-spaced/escaped/corrupted texts, floats compared; JSON-only families: int/bool/None/float keys (raw, '
                'and key expressions {k2}/{kb}/{kn}/{kf} that format to them, colliding after coercion) - expected value = the '
                'formatted payload with keys as json.dump writes them; floats inside and outside the proved domain; non-BMP '
                'characters, DEL, U+D7FF/U+E000/U+FFFF/U+10FFFF as values and keys. Encoding family: fileformat{json,yaml} x 12 combinations of encoding/encodingIn/'
                "encodingOut x route {no out, out another file, out equal to in, out ''} x non-ASCII documents: the target "
                'must decode with the OUT encoding and parse to the formatted source. Sessions (one process each): directed - '
                'every source file with %YAML 1.1 / %YAML 1.2 / %TAG directives, tags, anchors read by fetchyaml / the yamlfile '
                'parser / fileformatyaml (alone, first or last of an `in` list, in place / to an out dir), followed by write->'
                'fetch and write->parser round trips of YAML-1.1 look-alike strings (yes/no/on/off/y/n, 12:30:00, 0777, ...) '
                'as values and keys; 1.1/1.2 interleavings; json and toml sessions; formats interleaved; random sessions of '
                '2-4 operations. Every operation is also run alone in a fresh process. Steps on ONE context (ctxsession): '
                'files placed on disk by the plain writer of the format (strings and KEYS with literal braces {x} {{ }} {k1!r} are '
                'data there) or written by the write step, then fetch{json,yaml,toml} to the context root / with an empty key / '
                'as a plain path string / into a key - layered base+override files, a file re-fetched after it changed, the same '
                'fetch 3x, a context that already holds lists / tables / tuples / sets / falsy values under the names the file '
                'brings, the three formats onto one context; random: 1-4 files x random pre-filled contexts. Monitor: after the '
                'step context[k] == file[k] (typed, node for node) for every top-level k of the file, every other key as before, '
                'no raise; model: runC. Whole context (wholectx): filewrite{json,yaml,toml} WITHOUT payload on contexts whose '
                'top-level key names carry expressions ({env}_url, {service}-{region}, k{k1}, {{literal}}, colliding after '
                'formatting), read back by the fetch step and the file parser == the formatted context (own input entry '
                'included), == the same mapping given as explicit payload, and the same document from the three write steps. '
                'Key-expression family: keys {k2}/{kb}/{kn}/{kf} (resolve to 42 / False / None / 1.5) next to string keys - first, '
                'last, in the middle of unsorted entries, at depth 0-3 and inside a list - x 3 formats x fileformat in place / out '
                '(json: x 3 indent/ascii settings) x filewrite->fetch at a key / nested at root; documents that cannot be formatted '
                '({nope} as value, nested, as key) x 3 formats x both routes: files after the failure observed. '
                'Long keys (81..127 / 80 / 128+ characters, with and without blanks) x 3 formats x write->fetch / parser / '
                'fileformat, directed only. non-trivial = every case (distinct canonical input)')
    cases, n_directed = build_cases(env)
    res.extra['directed_cases'] = n_directed
    recs = run_all(env, cases, env.n(6, 14))
    for r in recs:
        absorb(res, r)


def replay(env, res, payload):
    case = payload.get('case')
    if case is None and payload.get('first_diverging_case'):
        case = payload['first_diverging_case'].get('case')
    if case is None:
        case = payload
    cwd = os.getcwd()
    d = tempfile.mkdtemp(prefix='verif-c16-')
    os.chdir(d)
    try:
        absorb(res, guarded_case(env.driver, case))
    finally:
        _close_zygote()
        os.chdir(cwd)
        shutil.rmtree(d, ignore_errors=True)
