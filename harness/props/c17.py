"""C17 - command steps report exit status faithfully and in declaration order.

Model: lean/PypyrModel/Cmd.lean (`cmd.serial`, `cmd.async` driver ops); theorems Props/C17.lean.
Implementation: the real steps pypyr.steps.{cmd,shell,cmds,shells} on real subprocesses under an
explicit release protocol (harness/impl_c17.py). Monitors below are written from the property text
and look only at the case and at what the implementation did.

A command's outcome is one of: exit 0 / a positive exit code / a NEGATIVE return code (the command
kills itself with a signal) / it cannot be started at all (no such executable, file not executable,
instruction that cannot be split into arguments, missing cwd of its map). Its output is bytes of any size
(a family writes more than a pipe buffer to stdout / stderr / both): ASCII text, or bytes that are NOT text
under the encoding of its command (ff fe ...: undecodable under utf-8 / ascii, fine under latin-1).
A command map may set `encoding`, `bytes`, `stdout` / `stderr` (a file - new, existing, appended to, or a path
that cannot be opened -, /dev/null, /dev/stdout) and `append`.

The model reads the step's configuration VALUE itself (Cmd.parseCmdConfig, mirror of CmdStep.__init__ /
create_command); the harness only replaces placeholders by real command lines and paths. The constructors are
tied separately on generated configuration values incl. malformed ones (check_parse: no process is started).

An instruction may be declared any number of times: identical entries at top level (the same string, the same
serial sub-list, the same map - a copy or the very same object, a yaml alias), identical instructions inside one
`run` list / one sub-list. A P's `id` names its content; every observation is per OCCURRENCE: each process claims
the next free slot of its instruction when it starts (impl_c17.CHILD), started / finished / failed / results are
multisets resp. sequences of ids, and "every declared top-level entry is started" is judged by counting.

Every case runs in a process group of its own under a deadline (impl.isolated): a step that never returns
(an event loop that never finishes, a pipe nobody drains) is the observation `hang` and the violation
"<kind>:step-never-returned", never a hang of the check. For the concurrent steps the moment the step returns
is observed too: every command it started must have finished by then ("wait for all of them").

Histories (kind `hist`): a list of operations in ONE FRESH interpreter (impl.run_hist starts a new python, nothing is
inherited from the pool) - import a module of the command steps / set config.default_cmd_encoding or
config.default_encoding (assignment, or config.init() finding the key in pypyr-config.yaml, pyproject.toml or
$PYPYR_CONFIG_GLOBAL) / run a saving cmd / shell step whose commands write non-ASCII text in some encoding. The
encoding in force for a command is its own `encoding`, else config.default_cmd_encoding AS IT IS WHEN THE STEP RUNS,
else the interpreter's default (model: Cmd.runHist / histStep, driver op `cmd.enchist`). The generators only emit
output that IS text under the encoding in force, so "a command that exited 0 never fails the step", "stops at the
first non-zero exit with that code" and "cmdOut holds the text written" are judged without touching the open finding
about undecodable output (signature failure = encoding-in-force-not-used, never undecodable-output).
The same histories run for cmds / shells (VERIF_C17_ASYNC_HIST=0 turns them off); pypyr.aio.subproc read the default at
import until repo commit 88e1057 (known_findings.json, fixed).
"""
from __future__ import annotations

import collections
import copy
import itertools
import json
import multiprocessing
import os

from .. import common
from .. import impl_c17 as impl

LEAN_MODULES = ['Props.C17']
TRUSTED = ['harness/props/c17.py, harness/impl_c17.py (child script, release protocol, per-case process group with '
           'deadline, monitors, canonicaliser)',
           'CPython subprocess / asyncio subprocess / shlex, /bin/sh, OS process exit status and signal delivery']
ASSUMPTIONS = [
    'a command is characterised by whether it can be started (else: the exception type of the spawn call), its '
    'exit status (0, 1..255, or -N for death by signal N), the bytes it writes (ASCII text, or bytes a1..ff) and '
    'whether these are text under the encoding of its command (decided by the codec library); encodings: the '
    'default (utf-8), utf-8, latin-1, ascii; non-ASCII output that is valid utf-8, and `\\r` in text output, are '
    'outside the model',
    'an output path is characterised by whether it can be opened (else: is a directory / its parent is a regular '
    'file) and its previous content; two concurrent commands writing one file, stdout and stderr of one command '
    'to one file, and stdout: /dev/stdout are outside the model',
    'the configuration value is what context.get_formatted returns (no {…} expressions); values of `run`, '
    '`cwd`, `encoding`, `stdout`, `stderr` of a type the code only trips over when the command runs are outside '
    'the model (the driver rejects them)',
    'OS scheduling of concurrent commands is replaced by the release protocol: completion order = the order in '
    'which the harness lets the processes exit (each exit is awaited, incl. reaping, before the next release)',
    'the processes of one and the same instruction (identical entries) are interchangeable: the release protocol '
    'lets "one of them" exit; the generators put an instruction into two concurrent lanes only where the same '
    'instructions follow it in both, and - concurrent steps - an instruction of a command that redirects to a file '
    'occurs in that command only (the driver rejects the rest as outside the model)',
    'histories: the process is characterised by the order of [module imports | assignments of the two encoding '
    'settings (directly or by config.init() reading one config file) | step runs]; a configured encoding is a codec '
    'name or None (an empty string is outside the model); what each command writes is text under the encoding in '
    'force for it (the codec library decides, also what that text is); bytes mode and redirects in histories, and '
    'the concurrent steps (opt-in only), are outside the judged domain',
    'under a shell (shell/shells) a missing or non-executable program is an ordinary exit 127/126 of the shell, '
    'not a spawn error: there the only unstartable commands generated are those of a map with a missing cwd',
]

OUTS = ['', 'out', 'two words\n', '  padded  \n\n', 'l1\nl2\n', ' \n', 'x=1 "q"\t\n']
CODES = (0, 1, 3)
SIGNALS = (-9, -15, -2)            # SIGKILL, SIGTERM, SIGINT
EXEC_FAULTS = ('missing', 'noexec', 'badquote', 'cwd')
FAULTS_EXEC = SIGNALS + EXEC_FAULTS          # cmd / cmds
FAULTS_SHELL = SIGNALS + ('cwd',)            # shell / shells


# --------------------------------------------------------------------------
# case generation
# --------------------------------------------------------------------------

def mk_proc(i, o, salt, k):
    """o: an exit status (int) or the name of a spawn fault."""
    if isinstance(o, str):
        return {'id': i, 'code': 0, 'out': '', 'err': '', 'spawn': o}
    return {'id': i, 'code': o, 'out': OUTS[(salt + 2 * k) % len(OUTS)], 'err': OUTS[(salt + 3 * k + 1) % len(OUTS)]}


def mk_procs(outcomes, salt):
    return [mk_proc(k + 1, o, salt, k) for k, o in enumerate(outcomes)]


def norm_cfg(cfg):
    """Make a generated configuration realisable: a `cwd` fault belongs to an expanded-syntax map and
    makes *every* command of that map unstartable (they share the missing cwd). Returns a deep copy."""
    cfg = copy.deepcopy(cfg)

    def fix_map(m):
        ps = impl.map_procs(m)
        if any(p.get('spawn') == 'cwd' for p in ps):
            key = min(p['id'] for p in ps)
            for p in ps:
                p.update({'code': 0, 'out': '', 'err': '', 'spawn': 'cwd', 'cwdkey': key})

    def fix_item(it):
        if 'map' in it:
            fix_map(it['map'])
            return it
        if 'str' in it and it['str'].get('spawn') == 'cwd':
            it = {'map': {'run': {'str': it['str']}}}
            fix_map(it['map'])
        elif 'sub' in it and any(p.get('spawn') == 'cwd' for p in it['sub']):
            it = {'map': {'run': {'list': [{'sub': it['sub']}]}}}
            fix_map(it['map'])
        return it
    if 'list' in cfg:
        cfg['list'] = [fix_item(it) for it in cfg['list']]
        return cfg
    return fix_item(cfg)


def serial_shapes(ps, n):
    """(shape name, cfg) for a list of processes."""
    out = []
    if n == 1:
        out.append(('str', {'str': ps[0]}))
        for save, byt in ((False, False), (True, False), (True, True)):
            out.append((f'map1/save={save}/bytes={byt}',
                        {'map': {'run': {'str': ps[0]}, 'save': save, 'bytes': byt}}))
    out.append(('flat', {'list': [{'str': p} for p in ps]}))
    for save in (False, True):
        out.append((f'expanded/save={save}',
                    {'list': [{'map': {'run': {'str': p}, 'save': save}} for p in ps]}))
    for save, byt in ((False, False), (True, False), (True, True)):
        out.append((f'runlist/save={save}/bytes={byt}', {'map': {'run': {'list': list(ps)}, 'save': save, 'bytes': byt}}))
    if n >= 2:
        h = (n + 1) // 2
        items = [{'map': {'run': {'list': ps[:h]}, 'save': True}}]
        for k, p in enumerate(ps[h:]):
            items.append({'str': p} if k % 2 == 0 else {'map': {'run': {'str': p}, 'save': True, 'bytes': True}})
        out.append(('mixed', {'list': items}))
        items = [{'str': ps[0]}, {'map': {'run': {'list': ps[1:]}, 'save': True}}]
        out.append(('mixed2', {'list': items}))
        # several list entries, each with its own save flag: [save, no save, save+bytes, ...], run lists of <= 2
        items = []
        for k in range(0, n, 2):
            chunk = ps[k:k + 2]
            save = (k // 2) % 2 == 0
            items.append({'map': {'run': {'list': chunk} if len(chunk) > 1 else {'str': chunk[0]},
                                  'save': save, 'bytes': save and k >= 4}})
        out.append(('ownsave', {'list': items}))
        items = [{'map': {'run': {'str': ps[0]}, 'save': False}}, {'map': {'run': {'list': ps[1:]}, 'save': True}}]
        out.append(('ownsave2', {'list': items}))
    return out


def serial_cases(env):
    cases = []
    maxn = 4
    for n in range(1, maxn + 1):
        for vi, codes in enumerate(itertools.product(CODES, repeat=n)):
            ps = mk_procs(codes, vi)
            for si, (shape, cfg) in enumerate(serial_shapes(ps, n)):
                step = 'cmd' if (vi + si) % 2 == 0 else 'shell'
                if n <= 2:
                    steps = ['cmd', 'shell']
                else:
                    steps = [step]
                for st in steps:
                    cases.append({'kind': 'serial', 'step': st, 'shape': shape, 'n': n, 'cfg': cfg})
    return cases


def fault_vectors(n, faults):
    """One fault at each position of n commands; the others exit 0 - and, so that a loop that wrongly goes
    on is seen twice (a marker *and* a second failure), a variant whose last command exits 1."""
    for pos in range(n):
        for f in faults:
            v = [0] * n
            v[pos] = f
            yield pos, f, v
            if pos < n - 1:
                w = list(v)
                w[n - 1] = 1
                yield pos, f, w


def serial_fault_cases(env):
    """Directed: a signal death / an unstartable command at each position (first, middle, last) of 1-4
    commands x every configuration shape x cmd (all faults) and shell (signals, missing cwd)."""
    cases = []
    for st, faults in (('cmd', FAULTS_EXEC), ('shell', FAULTS_SHELL)):
        for n in range(1, 5):
            for vi, (pos, f, v) in enumerate(fault_vectors(n, faults)):
                ps = mk_procs(v, vi + 1)
                for shape, cfg in serial_shapes(ps, n):
                    cases.append({'kind': 'serial', 'step': st, 'shape': shape, 'n': n, 'cfg': norm_cfg(cfg),
                                  'fault': fault_name(f), 'pos': pos_name(pos, n)})
    return dedup(cases)


def lane_partitions(n):
    """Ways of cutting n processes into consecutive lanes (compositions of n)."""
    if n == 0:
        yield []
        return
    for first in range(1, n + 1):
        for rest in lane_partitions(n - first):
            yield [first] + rest


def async_shapes(lanes, salt):
    """lanes: list of lists of P. Yields (shape, cfg)."""
    def entry(l):
        return {'str': l[0]} if len(l) == 1 else {'sub': l}
    flat = all(len(l) == 1 for l in lanes)
    out = []
    if len(lanes) == 1 and flat:
        out.append(('str', {'str': lanes[0][0]}))
        out.append(('map1/save', {'map': {'run': {'str': lanes[0][0]}, 'save': True}}))
    out.append(('toplist' if flat else 'toplist+sub', {'list': [entry(l) for l in lanes]}))
    for save, byt in ((False, False), (True, False), (True, True)):
        out.append((f'maprun/save={save}/bytes={byt}',
                    {'map': {'run': {'list': [entry(l) for l in lanes]}, 'save': save, 'bytes': byt}}))
    if len(lanes) >= 2:
        h = len(lanes) // 2
        items = [{'map': {'run': {'list': [entry(l) for l in lanes[:h]]}, 'save': True}}]
        for k, l in enumerate(lanes[h:]):
            if k % 2 == 0:
                items.append(entry(l))
            else:
                items.append({'map': {'run': {'list': [entry(l)]}, 'save': salt % 2 == 0}})
        out.append(('mixed', {'list': items}))
        # a one-element sub-list is also a serial lane
        items = [({'sub': l} if k == 0 else entry(l)) for k, l in enumerate(lanes)]
        out.append(('toplist+sub1', {'list': items}))
        # every lane its own map with its own save flag
        items = [{'map': {'run': {'list': [entry(l)]}, 'save': (k + salt) % 2 == 0}} for k, l in enumerate(lanes)]
        out.append(('ownsave', {'list': items}))
    return out


def schedules(lens, full):
    """Completion schedules for lanes of the given lengths: every lane permutation, played
    round-robin (interleaves the sub-lists) and lane-major (one lane after the other)."""
    idx = list(range(len(lens)))
    perms = list(itertools.permutations(idx))
    out = []
    for p in perms:
        rr = list(p) * max(lens)
        out.append(rr)
        if max(lens) > 1:
            out.append([i for i in p for _ in range(lens[i])])
    if not full:
        out = out[:1] + out[-1:]
    # de-duplicate
    seen, res = set(), []
    for s in out:
        if tuple(s) not in seen:
            seen.add(tuple(s))
            res.append(s)
    return res


def cut(ps, part):
    lanes, k = [], 0
    for ln in part:
        lanes.append(ps[k:k + ln])
        k += ln
    return lanes


def async_cases(env):
    cases = []
    for n in range(1, 5):
        for part in lane_partitions(n):
            nl = len(part)
            for vi, codes in enumerate(itertools.product(CODES, repeat=n)):
                ps = mk_procs(codes, vi)
                lanes = cut(ps, part)
                shapes = async_shapes(lanes, vi)
                scheds = schedules(part, full=True)
                if n <= 2:
                    combos = [(sh, sc) for sh in shapes for sc in scheds]
                elif n == 3:
                    # every schedule; shapes rotate
                    combos = [(shapes[(vi + j) % len(shapes)], sc) for j, sc in enumerate(scheds)]
                    combos += [(sh, scheds[(vi + j) % len(scheds)]) for j, sh in enumerate(shapes)]
                else:
                    combos = [(shapes[(vi + j) % len(shapes)], sc) for j, sc in enumerate(scheds)]
                for j, ((shape, cfg), sched) in enumerate(combos):
                    step = 'cmds' if (vi + j) % 3 else 'shells'
                    cases.append({'kind': 'async', 'step': step, 'shape': shape, 'n': n, 'lanes': nl,
                                  'cfg': cfg, 'sched': sched})
    return cases


def async_fault_cases(env):
    """Directed: a signal death / an unstartable command at each position of every cut of 1-4 commands into
    lanes (top level, and first / middle / last of a serial sub-list) x every shape; the completion schedule
    rotates through the lane permutations. cmds: all faults; shells: signals and missing cwd."""
    cases = []
    j = 0
    for st, faults in (('cmds', FAULTS_EXEC), ('shells', FAULTS_SHELL)):
        for n in range(1, 5):
            for part in lane_partitions(n):
                scheds = schedules(part, full=True)
                for vi, (pos, f, v) in enumerate(fault_vectors(n, faults)):
                    ps = mk_procs(v, vi + 2)
                    lanes = cut(ps, part)
                    # where the fault sits
                    k, where = 0, 'top'
                    for ln in part:
                        if k <= pos < k + ln and ln > 1:
                            where = 'sub:' + pos_name(pos - k, ln)
                        k += ln
                    for shape, cfg in async_shapes(lanes, vi):
                        j += 1
                        cases.append({'kind': 'async', 'step': st, 'shape': shape, 'n': n, 'lanes': len(part),
                                      'cfg': norm_cfg(cfg), 'sched': scheds[j % len(scheds)],
                                      'fault': fault_name(f), 'pos': where})
    return dedup(cases)


def big_output_cases(env):
    """Directed: commands that write more than a pipe buffer (64 KiB) to stdout, stderr or both - with save
    (captured: text / bytes) and without (inherited), exit 0 / non-zero, alone, first or last of a run list /
    of concurrent lanes / of a serial sub-list."""
    cases = []
    line = 'x' * 99 + '\n'
    for vi, (orep, erep) in enumerate(((700, 1), (1, 700), (3000, 3000))):
        for n, pos in ((1, 0), (2, 0), (3, 2)):
            for code in (0, 3):
                ps = mk_procs([0] * n, vi)
                ps[pos].update({'out': line, 'err': 'e ' + line, 'orep': orep, 'erep': erep, 'code': code})
                for si, (shape, cfg) in enumerate(serial_shapes(ps, n)):
                    if shape.split('/')[0] in ('map1', 'runlist', 'expanded', 'flat', 'str'):
                        cases.append({'kind': 'serial', 'step': 'cmd' if (vi + si + n) % 2 else 'shell', 'shape': shape,
                                      'n': n, 'cfg': cfg, 'big': True})
                for part in ([n], [1] * n):
                    lanes = cut(ps, part)
                    scheds = schedules(part, full=True)
                    for si, (shape, cfg) in enumerate(async_shapes(lanes, vi)):
                        if shape.split('/')[0] in ('maprun', 'toplist', 'toplist+sub', 'map1'):
                            cases.append({'kind': 'async', 'step': 'cmds' if (vi + si + n) % 2 else 'shells', 'shape': shape,
                                          'n': n, 'lanes': len(part), 'cfg': cfg, 'sched': scheds[(vi + si) % len(scheds)],
                                          'big': True})
    return dedup(cases)


def und_bytes(i):
    """Bytes that are not text in utf-8 / ascii (latin-1 reads them fine), one character per byte; `#<id>` lets
    the harness tell whose output a UnicodeDecodeError is about."""
    return '\xff\xfe#%d\n' % i


DECODE_SETTINGS = [
    ('save', {'save': True}), ('save+bytes', {'save': True, 'bytes': True}),
    ('save+bytes+utf-8', {'save': True, 'bytes': True, 'encoding': 'utf-8'}),
    ('save+utf-8', {'save': True, 'encoding': 'utf-8'}), ('save+ascii', {'save': True, 'encoding': 'ascii'}),
    ('save+latin-1', {'save': True, 'encoding': 'latin-1'}), ('nosave', {'save': False}),
    ('nosave+utf-8', {'save': False, 'encoding': 'utf-8'}),
]


def decode_cases(env):
    """Directed: one command whose output is not text (ff fe ...) at each position of 1-3 commands, on stdout or
    stderr, exiting 0 or 3, with and without a later exit 1 x every decoding setting (save text / bytes / bytes +
    encoding / utf-8 / ascii / latin-1 / no save) x run list / list of maps (serial), top-level lanes / serial
    sub-list (concurrent), all four steps."""
    cases = []
    j = 0
    for n in (1, 2, 3):
        for pos in range(n):
            for stream in ('out', 'err'):
                for code in (0, 3):
                    for tail in ((0,), (1,)) if pos < n - 1 else ((0,),):
                        v = [0] * n
                        v[n - 1] = tail[0]
                        v[pos] = code
                        for sname, st in DECODE_SETTINGS:
                            j += 1
                            ps = mk_procs(v, j)
                            ps[pos][stream] = und_bytes(ps[pos]['id'])
                            meta = {'n': n, 'decode': sname, 'pos': pos_name(pos, n), 'fault': 'undecodable-' + stream}
                            # serial
                            shapes = [('runlist/' + sname, {'map': {'run': {'list': list(ps)}, **st}}),
                                      ('expanded/' + sname, {'list': [{'map': {'run': {'str': p}, **st}} for p in ps]})]
                            for k, (shape, cfg) in enumerate(shapes):
                                cases.append({'kind': 'serial', 'step': 'cmd' if (j + k) % 2 else 'shell', 'shape': shape,
                                              'cfg': copy.deepcopy(cfg), **meta})
                            # concurrent: every command a lane / one serial sub-list / first alone + rest sub-list
                            parts = [[1] * n, [n]] + ([[1, n - 1]] if n == 3 else [])
                            for k, part in enumerate(parts):
                                lanes = cut(ps, part)
                                entries = [({'str': l[0]} if len(l) == 1 else {'sub': l}) for l in lanes]
                                if part == [n]:
                                    entries = [{'sub': list(ps)}]
                                scheds = schedules([len(l) for l in lanes] if part != [n] else [n], full=True)
                                cases.append({'kind': 'async', 'step': 'cmds' if (j + k) % 2 else 'shells',
                                              'shape': 'maprun/' + sname, 'lanes': len(entries),
                                              'cfg': {'map': {'run': {'list': copy.deepcopy(entries)}, **st}},
                                              'sched': scheds[j % len(scheds)], **meta})
    return dedup(cases)


def F(k, **kw):
    return {'file': k, **kw}


REDIRECTS = [
    ('out-file', {'stdout': F(1)}), ('out-file-overwrite', {'stdout': F(1, pre='old\n')}),
    ('out-file-append', {'stdout': F(1, pre='old\n'), 'append': True}), ('out-new-append', {'stdout': F(1), 'append': True}),
    ('err-file', {'stderr': F(2)}), ('both-files', {'stdout': F(1), 'stderr': F(2)}),
    ('err-to-stdout-file', {'stdout': F(1), 'stderr': 'stdout'}), ('devnull', {'stdout': 'devnull', 'stderr': 'devnull'}),
    ('err-to-stdout', {'stderr': 'stdout'}), ('out-devnull-err-file', {'stdout': 'devnull', 'stderr': F(2, pre='e0\n')}),
    ('both-append', {'stdout': F(1, pre='keep\n'), 'stderr': F(2, pre='e0\n'), 'append': True}),
    ('out-isdir', {'stdout': F(1, bad='isDir')}), ('out-parent-is-file', {'stdout': F(1, bad='parentFile')}),
    ('err-isdir', {'stderr': F(2, bad='isDir')}), ('out-ok-err-isdir', {'stdout': F(1, pre='old\n'), 'stderr': F(2, bad='isDir')}),
    ('out-append-err-parent-is-file', {'stdout': F(1, pre='old\n'), 'stderr': F(2, bad='parentFile'), 'append': True}),
]


def redirect_cases(env):
    """Directed: a command map with `stdout` / `stderr` (new file, existing file overwritten / appended to,
    /dev/null, stderr to /dev/stdout, a path that is a directory, a path whose parent is a regular file) x exit-code
    vectors x the map alone / between a `save` command and a plain one (what ran before a file that cannot be
    opened keeps its results; nothing of the map or after it runs) x serial and concurrent."""
    cases = []
    j = 0
    for rname, rd in REDIRECTS:
        for v in ([0], [3], [0, 0], [0, 1], [1, 0], [-9, 0]):
            j += 1
            n = len(v)
            ps = mk_procs(v, j)
            for p in ps:
                if not p['out']:
                    p['out'] = 'o%d\n' % p['id']
                if not p['err']:
                    p['err'] = 'e%d \n' % p['id']
            m = {'run': {'list': list(ps)} if n > 1 else {'str': ps[0]}, **copy.deepcopy(rd)}
            before = {'id': 8, 'code': 0, 'out': 'before\n', 'err': ''}
            after = {'id': 9, 'code': 0, 'out': '', 'err': ''}
            alone = {'map': m}
            framed = {'list': [{'map': {'run': {'str': before}, 'save': True}}, {'map': copy.deepcopy(m)}, {'str': after}]}
            failing_before = {'list': [{'map': {'run': {'str': {**before, 'code': 2}}, 'save': True}}, {'map': copy.deepcopy(m)}]}
            meta = {'redirect': rname}
            for k, (shape, cfg) in enumerate((('redirect', alone), ('redirect-framed', framed),
                                              ('redirect-after-failure', failing_before))):
                nn = len(impl.all_procs_serial(cfg))
                cases.append({'kind': 'serial', 'step': 'cmd' if (j + k) % 2 else 'shell', 'shape': shape + '/' + rname,
                              'n': nn, 'cfg': copy.deepcopy(cfg), **meta})
            # concurrent: the commands of the map as lanes, or as one serial sub-list
            for k, entries in enumerate(([{'str': p} for p in ps], [{'sub': list(ps)}])):
                if n == 1 and k == 1:
                    continue
                am = {'run': {'list': copy.deepcopy(entries)}, **copy.deepcopy(rd)}
                for shape, cfg in (('redirect', {'map': am}),
                                   ('redirect-framed', {'list': [{'map': {'run': {'str': before}, 'save': True}},
                                                                 {'map': copy.deepcopy(am)}, {'str': after}]})):
                    nl = len(impl.async_lanes(cfg))
                    lens = [len(ps_) for ps_, _, _ in impl.async_lanes(cfg)]
                    scheds = schedules(lens, full=True) if lens else [[]]
                    cases.append({'kind': 'async', 'step': 'cmds' if (j + k) % 2 else 'shells', 'shape': shape + '/' + rname,
                                  'n': len(impl.all_procs_serial(cfg)), 'lanes': nl, 'cfg': copy.deepcopy(cfg),
                                  'sched': scheds[j % len(scheds)], **meta})
    return dedup(cases)


# -- identical entries -----------------------------------------------------

def dup_ok(cfg, is_async):
    """Where identical instructions may sit. Everywhere in the synchronous steps. In the concurrent steps the
    processes of one instruction must be interchangeable for the release protocol (`fin i` = one of them exits):
    an instruction that occurs in two lanes is followed by the same instructions in each; and the model resolves a
    finished process by its id when it writes to a file: an instruction of a command that redirects to a file
    occurs in that command only."""
    try:
        impl.world_of(cfg, is_async)
        impl.cfg_value(cfg)
    except ValueError:
        return False
    if not is_async:
        return True
    cmds = impl.commands(cfg)

    def files(c):
        return [c[k]['file'] for k in ('stdout', 'stderr') if isinstance(c[k], dict)]
    allf = [f for c in cmds for f in files(c)]
    if len(set(allf)) != len(allf):
        return False
    for a, c in enumerate(cmds):
        for d in cmds[a + 1:]:
            if (files(c) or files(d)) and {p['id'] for p in c['procs']} & {p['id'] for p in d['procs']}:
                return False
    where = {}
    lanes = [[p['id'] for p in e] for c in cmds if not impl.bad_target(c) for e in c['entries']]
    for li, lane in enumerate(lanes):
        for j, i in enumerate(lane):
            where.setdefault(i, []).append((li, tuple(lane[j + 1:])))
    for i, occ in where.items():
        if len({li for li, _ in occ}) > 1 and len({suf for _, suf in occ}) > 1:
            return False
    # workers that wait for each other: all of them must be first in a lane of their own
    for i, occ in where.items():
        p = impl.all_procs_serial(cfg)[i]
        if p.get('rdv'):
            firsts = sum(1 for lane in lanes if lane and lane[0] == i)
            if firsts != len(occ) or p['rdv'] > firsts or any(impl.bad_target(c) for c in cmds):
                return False
    return True


def total_procs(cfg):
    return sum(len(c['procs']) for c in impl.commands(cfg))


def add_dups(rng, cfg, is_async):
    """Random stream: declare something a second time - a top-level entry (a copy, or the same object again), an
    instruction inside a `run` list / a serial sub-list, an entry of a `run` list. None when the result is outside
    what dup_ok allows."""
    cfg = copy.deepcopy(cfg)
    if 'list' not in cfg:
        cfg = {'list': [cfg]}
    items = cfg['list']
    inner = []      # lists of P / of entries in which an element can be repeated
    for it in items:
        if 'sub' in it:
            inner.append(it['sub'])
        elif 'map' in it and 'list' in it['map']['run']:
            inner.append(it['map']['run']['list'])
            inner += [e['sub'] for e in it['map']['run']['list'] if 'sub' in e]
    if inner and rng.random() < 0.45:
        xs = rng.choice(inner)
        j = rng.randrange(len(xs))
        pos = rng.choice((j + 1, len(xs)))
        if 'sub' in xs[j] and rng.random() < 0.4 and not any('ref' in x for x in xs):
            xs.insert(pos, {'ref': j})
        else:
            xs.insert(pos, copy.deepcopy(xs[j]))
    else:
        j = rng.randrange(len(items))
        pos = rng.choice((j + 1, len(items)))
        if rng.random() < 0.35:
            items.insert(pos, {'ref': j})
        else:
            items.insert(pos, copy.deepcopy(items[j]))
    return cfg if dup_ok(cfg, is_async) else None


def W(i, code=0, **kw):
    return {'id': i, 'code': code, 'out': 'o%d\n' % i, 'err': ('e%d \n' % i) if code else '', **kw}


SERIAL_DUP_PATTERNS = [('w,w', [0, 0]), ('w,w,w', [0, 0, 0]), ('a,b,a', [0, 1, 0]), ('a,a,b,b', [0, 0, 1, 1]),
                       ('a,b,a,b', [0, 1, 0, 1])]
ASYNC_DUP_PATTERNS = [('w|w', [[0], [0]]), ('w|w|w', [[0], [0], [0]]), ('a|b|a', [[0], [1], [0]]),
                      ('[a,b]|[a,b]', [[0, 1], [0, 1]]), ('[a,b]|c|[a,b]', [[0, 1], [2], [0, 1]]),
                      ('[w,w]', [[0, 0]]), ('[w,w,b]|c', [[0, 0, 1], [2]]), ('w|[b,w]', [[0], [1, 0]]),
                      ('[a,b]|b', [[0, 1], [1]]), ('a|a|b|b', [[0], [0], [1], [1]])]


def alias_later(items):
    """Every item equal to an earlier one becomes that very object again ({'ref': j})."""
    out = []
    for it in items:
        j = next((k for k, x in enumerate(out) if 'ref' not in x and x == it), None)
        out.append({'ref': j} if j is not None else it)
    return out


def duplicate_cases(env):
    """Directed: identical entries. Serial: the same instruction 2-3 times / interleaved with another one, as flat
    list, list of maps (copies; the same object again), inside one `run` list, the same `run`-list map twice x exit
    codes {0, 3} of each distinct instruction x cmd/shell. Concurrent: the same instruction as 2-3 top-level
    entries, [fail, ok, same fail], the same serial sub-list twice, duplicates inside one sub-list / one `run`
    list, an instruction both top-level and last of a sub-list x exit codes x top-level list / one map per entry
    with save (copies; the same object again) / one map whose `run` list holds them (save on, off, bytes) x
    completion schedules x cmds/shells. Workers that wait for each other (each goes on only once all its
    identical siblings run): 2-3 top-level entries / first of identical sub-lists."""
    cases = []
    j = 0
    for name, pat in SERIAL_DUP_PATTERNS:
        nd = max(pat) + 1
        for codes in itertools.product((0, 3), repeat=nd):
            ws = [W(k + 1, codes[k]) for k in range(nd)]
            ps = [ws[k] for k in pat]
            shapes = [('flat', {'list': [{'str': p} for p in ps]})]
            for save in (False, True):
                items = [{'map': {'run': {'str': p}, 'save': save}} for p in ps]
                shapes.append((f'expanded/save={save}', {'list': items}))
                shapes.append((f'expanded-alias/save={save}', {'list': alias_later(items)}))
            for save, byt in ((False, False), (True, False), (True, True)):
                m = {'map': {'run': {'list': list(ps)}, 'save': save, 'bytes': byt}}
                shapes.append((f'runlist/save={save}/bytes={byt}', m))
                if len(ps) <= 3:
                    shapes.append((f'runlist-twice/save={save}/bytes={byt}', {'list': [m, copy.deepcopy(m)]}))
                    shapes.append((f'runlist-twice-alias/save={save}/bytes={byt}', {'list': [m, {'ref': 0}]}))
            for shape, cfg in shapes:
                for st in ('cmd', 'shell'):
                    j += 1
                    if st == 'shell' and j % 2:
                        continue
                    cases.append({'kind': 'serial', 'step': st, 'shape': 'dup:' + shape, 'n': total_procs(cfg),
                                  'cfg': copy.deepcopy(cfg), 'dup': name})
    for name, pat in ASYNC_DUP_PATTERNS:
        nd = max(k for l in pat for k in l) + 1
        for ci, codes in enumerate(itertools.product((0, 3), repeat=nd)):
            ws = [W(k + 1, codes[k]) for k in range(nd)]
            lanes = [[ws[k] for k in l] for l in pat]
            lens = [len(l) for l in lanes]
            scheds = schedules(lens, full=True)

            def entry(l):
                return {'str': l[0]} if len(l) == 1 else {'sub': list(l)}
            top = [entry(l) for l in lanes]
            shapes = [('toplist', {'list': top}, scheds)]
            own = [{'map': {'run': {'list': [entry(l)]} if len(l) > 1 else {'str': l[0]}, 'save': True}} for l in lanes]
            shapes.append(('ownmap/save', {'list': own}, scheds[ci % len(scheds):][:2]))
            shapes.append(('ownmap-alias/save', {'list': alias_later(own)}, scheds[(ci + 1) % len(scheds):][:2]))
            shapes.append(('toplist-alias', {'list': alias_later(top)}, scheds[(ci + 2) % len(scheds):][:1]))
            for k, (save, byt) in enumerate(((False, False), (True, False), (True, True))):
                shapes.append((f'maprun/save={save}/bytes={byt}',
                               {'map': {'run': {'list': top}, 'save': save, 'bytes': byt}},
                               scheds[(ci + k) % len(scheds):][:2]))
            shapes.append(('maprun-alias/save=True', {'map': {'run': {'list': alias_later(top)}, 'save': True}},
                           scheds[(ci + 3) % len(scheds):][:1]))
            for shape, cfg, scs in shapes:
                if not dup_ok(cfg, True):
                    continue
                for sc in scs:
                    j += 1
                    cases.append({'kind': 'async', 'step': 'cmds' if j % 3 else 'shells', 'shape': 'dup:' + shape,
                                  'n': total_procs(cfg), 'lanes': len(lanes), 'cfg': copy.deepcopy(cfg), 'sched': sc,
                                  'dup': name})
    # workers that need each other
    for name, pat in (('rdv:w|w', [[0], [0]]), ('rdv:w|w|w', [[0], [0], [0]]), ('rdv:[w,b]|[w,b]', [[0, 1], [0, 1]]),
                      ('rdv:w|c|w', [[0], [2], [0]])):
        nw = sum(1 for l in pat if l[0] == 0)
        for code in (0, 3):
            ws = [W(1, code, rdv=nw), W(2, 0), W(3, 0)]
            lanes = [[ws[k] for k in l] for l in pat]
            lens = [len(l) for l in lanes]
            scheds = schedules(lens, full=True)
            top = [({'str': l[0]} if len(l) == 1 else {'sub': list(l)}) for l in lanes]
            own = [{'map': {'run': {'list': [e]} if 'sub' in e else {'str': e['str']}, 'save': True}} for e in top]
            for k, (shape, cfg) in enumerate((('toplist', {'list': top}), ('ownmap/save', {'list': own}),
                                              ('ownmap-alias/save', {'list': alias_later(own)}),
                                              ('maprun/save=True', {'map': {'run': {'list': top}, 'save': True}}))):
                assert dup_ok(cfg, True), (name, shape)
                for st in ('cmds', 'shells'):
                    j += 1
                    cases.append({'kind': 'async', 'step': st, 'shape': 'dup:' + shape, 'n': total_procs(cfg),
                                  'lanes': len(lanes), 'cfg': copy.deepcopy(cfg), 'sched': scheds[j % len(scheds)],
                                  'dup': name})
    return dedup(cases)


def decorate(rng, cfg, is_async, counter):
    """Random stream: give the command maps of a generated configuration an encoding / output redirection and
    some commands non-text output."""
    def fix_map(m):
        ps = impl.map_procs(m)
        if any(p.get('spawn') == 'cwd' for p in ps):
            return
        r = rng.random()
        if r < 0.35:
            m['encoding'] = rng.choice(('utf-8', 'latin-1', 'ascii'))
        if not m.get('save') and rng.random() < 0.45:
            for k in ('stdout', 'stderr'):
                q = rng.random()
                if q < 0.35:
                    counter[0] += 1
                    t = F(counter[0])
                    qq = rng.random()
                    if qq < 0.15:
                        t['bad'] = rng.choice(('isDir', 'parentFile'))
                    elif qq < 0.5:
                        t['pre'] = rng.choice(('old\n', 'x', ''))
                    m[k] = t
                elif q < 0.5:
                    m[k] = 'devnull'
                elif q < 0.6 and k == 'stderr':
                    m[k] = 'stdout'
            if rng.random() < 0.5:
                m['append'] = True
        for p in ps:
            if not p.get('spawn') and rng.random() < 0.2:
                p[rng.choice(('out', 'err'))] = und_bytes(p['id'])

    def fix_item(it):
        if 'map' in it:
            fix_map(it['map'])
    if 'list' in cfg:
        for it in cfg['list']:
            fix_item(it)
    else:
        fix_item(cfg)
    return cfg


def fault_name(f):
    if isinstance(f, str):
        return 'unstartable:' + f
    return 'signal' if f < 0 else ('exit>0' if f > 0 else 'none')


def pos_name(pos, n):
    if n == 1:
        return 'only'
    return 'first' if pos == 0 else ('last' if pos == n - 1 else 'middle')


def dedup(cases):
    seen, out = set(), []
    for c in cases:
        k = json.dumps([c['step'], c['cfg'], c.get('sched')], sort_keys=True)
        if k not in seen:
            seen.add(k)
            out.append(c)
    return out


def rnd_outcome(rng, shell):
    r = rng.random()
    if r < 0.45:
        return 0
    if r < 0.65:
        return rng.choice((1, 2, 3, 255))
    if r < 0.82:
        return rng.choice((-9, -15, -2, -1))
    return 'cwd' if shell else rng.choice(EXEC_FAULTS)


def random_cases(env, count):
    """Random stream: random lane structure, outcomes (exit 0 / positive / signal / unstartable, any number of
    them), outputs, settings and arbitrary schedules (repeats, out-of-range lanes: the model ignores what
    cannot happen, the drain finishes)."""
    rng = env.rng
    cases = []
    counter = [0]
    for _ in range(count):
        n = rng.randint(1, 4)
        serial = rng.random() < 0.4
        step = rng.choice(('cmd', 'shell')) if serial else rng.choice(('cmds', 'shells'))
        shell = step in ('shell', 'shells')
        ps = []
        for k in range(n):
            o = rnd_outcome(rng, shell)
            p = mk_proc(k + 1, o, 0, 0)
            if not isinstance(o, str):
                p['out'], p['err'] = rng.choice(OUTS), rng.choice(OUTS)
            ps.append(p)
        dup = None
        if serial:
            shape, cfg = rng.choice(serial_shapes(ps, n))
            cfg = decorate(rng, norm_cfg(cfg), False, counter)
        else:
            part = rng.choice(list(lane_partitions(n)))
            lanes = cut(ps, part)
            shape, cfg = rng.choice(async_shapes(lanes, rng.randint(0, 9)))
            cfg = decorate(rng, norm_cfg(cfg), True, counter)
        # identical entries: with probability ~1/3 something is declared a second (third) time
        for _ in range(2):
            if rng.random() < 0.33:
                c2 = add_dups(rng, cfg, not serial)
                if c2 is not None:
                    cfg, dup = c2, 'rnd'
        n = total_procs(cfg)
        if serial:
            cases.append({'kind': 'serial', 'step': step, 'shape': 'rnd:' + shape, 'n': n, 'cfg': cfg,
                          'prev': rng.choice(('str', 'str', 'absent', 'list'))})
        else:
            nl = len(impl.async_lanes(cfg))
            sched = [rng.randint(0, nl) for _ in range(rng.randint(0, 2 * n))]
            cases.append({'kind': 'async', 'step': step, 'shape': 'rnd:' + shape, 'n': n,
                          'lanes': nl, 'cfg': cfg, 'sched': sched})
        if dup:
            cases[-1]['dup'] = dup
    return cases


# --------------------------------------------------------------------------
# model side
# --------------------------------------------------------------------------

# --------------------------------------------------------------------------
# histories in one fresh process: import / set configuration / run step, in every order
# --------------------------------------------------------------------------

HIST_ENCS = ['utf-8', 'utf-16', 'latin-1', 'cp1252', 'utf-16-le', 'utf-32']
HIST_TEXTS = ['héllo wörld\n', 'über', 'naïve café  \n\n', '€ 5 – ok\n', 'Ωμέγα ✓\n',
              '日本語\n', 'plain ascii\n', '']
HIST_MODS = ['pypyr.subproc', 'pypyr.steps.cmd', 'pypyr.steps.shell', 'pypyr.steps.dsl.cmd', 'pypyr.steps.cmds',
             'pypyr.pipelinerunner']
HIST_HOWS = ['assign', 'init-yaml', 'init-toml', 'init-global']
HIST_DEFAULT = 'utf-8'       # what the fresh interpreter reads text with when no encoding is given (it reports it)


def h_imp(mod):
    return {'op': 'imp', 'mod': mod}


def h_set(v, how, file=False):
    if v is None and how == 'init-toml':
        how = 'init-yaml'          # toml has no null
    return {'op': 'setFile' if file else 'setCmd', 'v': v, 'how': how}


def hist_fold(case):
    """The harness's own reading of a history: for every run, the configured default in force when it starts."""
    cur, out = case.get('env_cmd'), []
    for op in case['ops']:
        if op['op'] == 'setCmd':
            cur = op['v']
        elif op['op'] == 'run':
            out.append(cur)
    return out


def hist_text_ok(text, penc, enc):
    """Can a command write `text` in `penc`, and is that text under `enc` (the codec library decides)?"""
    try:
        text.encode(penc).decode(enc or HIST_DEFAULT)
        return True
    except (UnicodeError, LookupError):
        return False


def hist_fill(rng, case, codes_of=None):
    """Give every run its commands: output the command writes in the encoding in force for it (sometimes in another
    one under which it still is text), non-ASCII mostly. Runs are {'op':'run','step','form','save','owns':[...]}."""
    forces = hist_fold(case)
    r = 0
    for op in case['ops']:
        if op['op'] != 'run':
            continue
        dflt = forces[r]
        r += 1
        owns = op.pop('owns')
        codes = op.pop('codes')
        cmds = []
        for own, code in zip(owns, codes):
            enc = own if own else dflt
            pencs = [enc or HIST_DEFAULT] * 4 + [e for e in HIST_ENCS if e != enc]
            for _ in range(40):
                penc = rng.choice(pencs)
                out, err = rng.choice(HIST_TEXTS[:6] + HIST_TEXTS), rng.choice(HIST_TEXTS)
                if hist_text_ok(out, penc, enc) and hist_text_ok(err, penc, enc):
                    break
            else:
                penc, out, err = enc or HIST_DEFAULT, 'plain ascii\n', ''
            cmds.append({'code': code, 'out': out, 'err': err, 'penc': penc, 'own': own})
        op['cmds'] = cmds
    case['n'] = sum(len(op['cmds']) for op in case['ops'] if op['op'] == 'run')
    return case


def h_run(step, form, owns, codes, save=True):
    if form == 'single':
        owns, codes = owns[:1], codes[:1]
    if form == 'runlist':
        owns = [owns[0]] * len(owns)          # one map: one `encoding` for all its instructions
    return {'op': 'run', 'step': step, 'form': form, 'save': save, 'owns': list(owns), 'codes': list(codes)}


def hist_cases(env):
    """Directed: every order of [import a module of the command steps | set default_cmd_encoding (assignment /
    config.init() with pypyr-config.yaml, pyproject.toml, $PYPYR_CONFIG_GLOBAL) | set default_encoding | run a
    saving cmd / shell step] incl. re-configuration between two runs and a start-up value from the environment."""
    rng = env.rng
    cases = []
    k = 0
    CODES3 = [(0,), (0, 3, 0), (0, 0), (3, 0), (0, 0, 1)]
    for v in HIST_ENCS:
        for how in HIST_HOWS:
            for rot in range(2):
                others = [e for e in HIST_ENCS if e != v]
                for own in (None, others[k % len(others)], ''):
                    k += 1
                    mod = HIST_MODS[(k + rot) % len(HIST_MODS)]
                    step = 'cmd' if k % 2 else 'shell'
                    form = ('runlist', 'expanded', 'single')[k % 3]
                    codes = CODES3[k % len(CODES3)]
                    owns = [own] + [None if (k + j) % 2 else own for j in range(len(codes) - 1)]
                    R = lambda: h_run(step, form, owns, codes)
                    v2 = others[(k // 3) % len(others)]
                    how2 = HIST_HOWS[(k // 2) % len(HIST_HOWS)]
                    f = others[(k // 5) % len(others)]
                    seqs = {
                        'import,set,run': [h_imp(mod), h_set(v, how), R()],
                        'set,import,run': [h_set(v, how), h_imp(mod), R()],
                        'set,run': [h_set(v, how), R()],
                        'import,run,set,run': [h_imp(mod), R(), h_set(v, how), R()],
                        'set,import,set,run': [h_set(v2, how2), h_imp(mod), h_set(v, how), R()],
                        'set,run,set,run': [h_set(v2, how2), R(), h_set(v, how), R()],
                        'import,set,run,unset,run': [h_imp(mod), h_set(v, how), R(), h_set(None, how2), R()],
                        'env,import,run,set,run': [h_imp(mod), R(), h_set(v, how), R()],
                        'import,setfile,set,run': [h_imp(mod), h_set(f, how2, file=True), h_set(v, how), R()],
                        'set,import,setfile,run': [h_set(v, how), h_imp(mod), h_set(f, how2, file=True), R()],
                        'setfile,import,run': [h_set(f, how, file=True), h_imp(mod), R()],
                        'run,import,set,run': [R(), h_imp(mod), h_set(v, how), R()],
                    }
                    for name, ops in seqs.items():
                        c = {'kind': 'hist', 'step': step, 'shape': 'hist/' + name, 'order': name, 'how': how,
                             'mod': mod, 'enc': v, 'own': 'none' if own is None else ('empty' if own == '' else 'own'),
                             'ops': copy.deepcopy(ops)}
                        if name.startswith('env,'):
                            c['env_cmd'] = v2
                        cases.append(hist_fill(rng, c))
    return cases


HIST_ASYNC = os.environ.get('VERIF_C17_ASYNC_HIST', '1') == '1'


def async_hist_cases(env):
    """(VERIF_C17_ASYNC_HIST=0 turns it off): the same histories with a saving cmds / shells step whose commands all exit 0
    (one run list = concurrent lanes; results in declaration order whatever the completion order)."""
    rng = env.rng
    cases = []
    k = 0
    for v in HIST_ENCS:
        for how in HIST_HOWS:
            k += 1
            step = 'cmds' if k % 2 else 'shells'
            mod = ('pypyr.steps.cmds', 'pypyr.steps.shells', 'pypyr.aio.subproc', 'pypyr.steps.dsl.cmdasync')[k % 4]
            R = lambda: h_run(step, 'runlist', [None] * (1 + k % 3), [0] * (1 + k % 3))
            for name, ops in {'import,set,run': [h_imp(mod), h_set(v, how), R()],
                              'set,import,run': [h_set(v, how), h_imp(mod), R()],
                              'set,run': [h_set(v, how), R()],
                              'import,run,set,run': [h_imp(mod), R(), h_set(v, how), R()]}.items():
                c = {'kind': 'hist', 'step': step, 'shape': 'hist-async/' + name, 'order': 'async:' + name, 'how': how,
                     'mod': mod, 'enc': v, 'own': 'none', 'ops': copy.deepcopy(ops)}
                cases.append(hist_fill(rng, c))
    return cases


def random_hist_cases(env, count):
    rng = env.rng
    cases = []
    for _ in range(count):
        ops = []
        for _ in range(rng.randint(2, 7)):
            x = rng.random()
            if x < 0.25:
                ops.append(h_imp(rng.choice(HIST_MODS)))
            elif x < 0.55:
                ops.append(h_set(rng.choice(HIST_ENCS + [None]), rng.choice(HIST_HOWS)))
            elif x < 0.65:
                ops.append(h_set(rng.choice(HIST_ENCS + [None]), rng.choice(HIST_HOWS), file=True))
            else:
                n = rng.randint(1, 3)
                codes = [rng.choice((0, 0, 0, 1, 3)) for _ in range(n)]
                owns = [rng.choice([None, None, None, '', rng.choice(HIST_ENCS)]) for _ in range(n)]
                ops.append(h_run(rng.choice(('cmd', 'shell')), rng.choice(('runlist', 'expanded', 'single')), owns, codes,
                                 save=rng.random() < 0.9))
        if not any(o['op'] == 'run' for o in ops):
            ops.append(h_run('cmd', 'runlist', [None, None], [0, 0]))
        last = [o for o in ops if o['op'] == 'run'][-1]
        c = {'kind': 'hist', 'step': last['step'], 'shape': 'hist/random', 'order': 'random', 'ops': ops}
        if rng.random() < 0.25:
            c['env_cmd'] = rng.choice(HIST_ENCS)
        if rng.random() < 0.1:
            c['env_file'] = rng.choice(['latin-1', 'utf-8', 'cp1252'])
        cases.append(hist_fill(rng, c))
    return cases


def hist_request(case):
    ops = []
    for op in case['ops']:
        if op['op'] == 'imp':
            ops.append({'op': 'imp', 'mod': op['mod']})
        elif op['op'] in ('setCmd', 'setFile'):
            ops.append({'op': op['op'], 'v': op['v']})
        else:
            ops.append({'op': 'run', 'own': [c['own'] for c in op['cmds']]})
    return ('cmd.enchist', {'init': {'cmd': case.get('env_cmd'), 'file': case.get('env_file')}, 'ops': ops})


def hist_decode(text, penc, enc, default):
    s = text.encode(penc).decode(enc or default)
    return s.replace('\r\n', '\n').replace('\r', '\n').rstrip()


def hist_expected(case, encs, default):
    """From the property text, given for every command of every run the encoding its output is text in (`encs`):
    commands run in declaration order up to and including the first non-zero exit, which raises an error with that
    command and code; with save one result per command run - code, stdout, stderr as text; a command that exited 0
    never fails the step."""
    runs = []
    r = 0
    for op in case['ops']:
        if op['op'] != 'run':
            continue
        started, results, err = [], [], None
        for i, (c, e) in enumerate(zip(op['cmds'], encs[r])):
            started.append(i)
            if op['save']:
                results.append([c['code'], hist_decode(c['out'], c['penc'], e, default),
                                hist_decode(c['err'], c['penc'], e, default)])
            if c['code'] != 0:
                err = {'type': 'CalledProcessError', 'code': c['code'], 'cmd': i}
                break
        runs.append({'started': started, 'err': err, 'results': results if op['save'] else 'untouched'})
        r += 1
    return runs


def hist_impl_runs(o):
    out = []
    for r in o.get('runs', []):
        e = r['err']
        # cmds / shells leave an EMPTY captured stream as b'' (pypyr.aio.subproc decodes only non-empty data): no text was
        # written, so it reads as the empty text
        results = [[('' if x == {'bytes': ''} else x) for x in row] if isinstance(row, list) else row
                   for row in (r['results'] or [])] if isinstance(r['results'], list) else r['results']
        out.append({'started': r['started'], 'results': results,
                    'err': None if e is None else ({'type': e['type'], 'code': e['code'], 'cmd': e['cmd']}
                                                   if e['type'] == 'CalledProcessError' else {'type': e['type'], 'msg': e['msg']})})
    return out


def judge_hist(res, c, m, o):
    res.case(c, nontrivial=True)
    res.count(f"hist:{c['step']}")
    res.count('hist-order:' + c['order'])
    for op in c['ops']:
        if op['op'] in ('setCmd', 'setFile'):
            res.count(f"hist-{op['op']}:{op['how']}:{op['v']}")
        elif op['op'] == 'imp':
            res.count('hist-import:' + op['mod'])
        else:
            for cm in op['cmds']:
                res.count('hist-written-in:' + cm['penc'])
                res.count('hist-own-encoding:' + ('none' if cm['own'] is None else (cm['own'] or 'empty')))
    is_async = c['step'] in ('cmds', 'shells')
    sig = lambda clause, failure: {'step': c['step'], 'clause': clause,
                                   'failure': ('aio-default-encoding-read-at-import'
                                               if is_async and failure == 'encoding-in-force-not-used' else failure)}
    if 'hang' in o:
        res.violation(c, f"hist:step-never-returned: no observation after {o['hang']['after_s']}s",
                      signature=sig('hist:step-never-returned', 'hang'), impl=o)
        return
    if 'crash' in o:
        res.violation(c, 'hist:history-crashed: ' + o['crash'], signature=sig('hist:history-crashed', 'crash'), impl=o)
        return
    default = o['default']
    # the set-up itself (which value the configuration object holds after each assignment / init()): C20's matter;
    # a history whose configuration is not what the case says cannot be judged
    cur = [c.get('env_cmd'), c.get('env_file')]
    want_setup = []
    for op in c['ops']:
        if op['op'] == 'setCmd':
            cur[0] = op['v']
        elif op['op'] == 'setFile':
            cur[1] = op['v']
        else:
            continue
        want_setup.append(list(cur))
    if o['setup'] != want_setup:
        res.mismatch({**c, 'layer': 'configuration after each set'}, want_setup, o['setup'])
        return
    forces = hist_fold(c)
    if [r['config_at_run'] for r in o['runs']] != forces:
        res.mismatch({**c, 'layer': 'config.default_cmd_encoding when the step starts'}, forces,
                     [r['config_at_run'] for r in o['runs']])
        return
    runs = [op for op in c['ops'] if op['op'] == 'run']
    mine = [[(cm['own'] if cm['own'] else f) for cm in op['cmds']] for op, f in zip(runs, forces)]
    if m['runs'] != mine:
        res.mismatch({**c, 'layer': 'encoding in force: model vs the monitor reading of the history'}, m['runs'], mine)
        return
    got = hist_impl_runs(o)
    want = hist_expected(c, mine, default)
    for ri, (g, w, op) in enumerate(zip(got, want, runs)):
        where = f"run {ri + 1} ({op['step']}, default_cmd_encoding={forces[ri]!r} when it ran)"
        if g == w:
            continue
        ge = g['err']
        if ge is not None and ge['type'] != 'CalledProcessError' and (w['err'] is None or len(g['started']) <= w['err']['cmd']):
            i = (g['started'] or [0])[-1]
            cm = op['cmds'][i]
            res.violation(c, f"hist:exit-0-command-fails-step: {where}: command {i + 1} exited {cm['code']} and wrote text "
                          f"in {cm['penc']} that IS text under the encoding in force ({mine[ri][i]!r}; own encoding "
                          f"{cm['own']!r}), yet the step raised {ge['type']}: {ge['msg']}; started {g['started']}, "
                          f"expected {w['started']}; cmdOut {g['results']!r}",
                          signature=sig('hist:exit-0-command-fails-step', 'encoding-in-force-not-used'), impl=o)
        elif g['started'] != w['started'] or g['err'] != w['err']:
            res.violation(c, f"hist:stops-at-first-non-zero: {where}: started {g['started']} error {g['err']}, expected "
                          f"started {w['started']} error {w['err']}",
                          signature=sig('hist:stops-at-first-non-zero', 'encoding-in-force-not-used'), impl=o)
        else:
            res.violation(c, f"hist:saved-output-is-the-text-written: {where}: cmdOut {g['results']!r}, expected "
                          f"{w['results']!r} (each stream read with the encoding in force {mine[ri]!r})",
                          signature=sig('hist:saved-output-is-the-text-written', 'encoding-in-force-not-used'), impl=o)
        return
    if len(got) != len(want):
        res.mismatch({**c, 'layer': 'number of runs observed'}, len(want), len(got))
        return
    # model vs implementation: the same expectation computed from the MODEL's encodings
    mv = hist_expected(c, m['runs'], default)
    if mv != got:
        res.mismatch(c, mv, got)



OPEN_TYPE = {'isDir': 'IsADirectoryError', 'parentFile': 'FileExistsError'}


def model_requests(case):
    if case['kind'] == 'hist':
        return hist_request(case)
    cfg = case['cfg']
    is_async = case['kind'] == 'async'
    payload = {'cfg': common.enc(impl.cfg_value(cfg)), 'shell': case['step'] in ('shell', 'shells'),
               'world': impl.world_of(cfg, is_async)}
    if is_async:
        payload['sched'] = case['sched']
        return ('cmd.async', payload)
    has_prev, prev = impl.prev_value(case)
    if has_prev:
        payload['prev'] = common.enc(prev)
    return ('cmd.serial', payload)


def case_procs(case):
    return impl.all_procs_serial(case['cfg'])


def model_view(case, m):
    """Bring the model's observation to the shape of the implementation's."""
    procs = case_procs(case)
    if 'ctor_err' in m:
        return {'ctor_err': m['ctor_err']}

    def res(r):
        return {**r, 'cmd_ok': True}

    def err(e, exit_type):
        if 'spawn' in e:
            return {'spawn': impl.spawn_label(procs[e['id']]), 'type': impl.KIND_TYPE[e['spawn']]}
        if 'decode' in e:
            return {'decode': e['decode'], 'type': 'UnicodeDecodeError'}
        if 'open' in e:
            return {'open': e['open'], 'type': OPEN_TYPE[e['kind']]}
        return {**e, 'type': exit_type, 'cmd_ok': True}

    def item(i):
        # the implementation side renders a result as its fields and an exception as {'exc': ...}
        return res(i['res']) if 'res' in i else {'exc': err(i['exc'], None)}
    if case['kind'] == 'serial':
        e = None
        if m['err'] is not None:
            e = err(m['err'], 'subprocess.CalledProcessError')
        co = m['cmdOut']
        if co is not None:
            co = {'single': res(co['single'])} if 'single' in co else {'many': [res(r) for r in co['many']]}
        af = m['after']
        if 'single' in af:
            af = {'single': res(af['single'])}
        elif 'many' in af:
            af = {'many': [res(r) for r in af['many']]}
        return {'started': m['started'], 'err': e, 'results': [res(r) for r in m['results']], 'cmdOut': co,
                'after': af, 'files': m['files']}
    co = m['cmdOut']
    if co is not None:
        co = [({'res': item(s['one'])} if 'one' in s else {'sub': [item(i) for i in s['sub']]}) for s in co]
    errors = [err(e, 'pypyr.errors.SubprocessError') for e in m['errors']]
    return {'trace': impl.canon_trace(m['trace']), 'started': sorted(m['started']),
            'err_type': 'pypyr.errors.MultiError' if errors else None, 'errors': errors, 'cmdOut': co,
            'running_at_return': m['running'], 'files': m['files'], 'anomalies': []}


def impl_view(case, o):
    o = dict(o)
    o.pop('log', None)
    return o


# --------------------------------------------------------------------------
# monitors (from the property text; independent of the Lean model)
# --------------------------------------------------------------------------

def py_rstrip(s):
    return s.rstrip()


def expected_streams(p, c, is_async):
    """What a saved result holds for command p of command object c: text mode strips trailing white space; the
    synchronous step in bytes mode with an encoding gives the decoded text as it is; else the bytes."""
    if c['text']:
        return py_rstrip(impl.eff_out(p)), py_rstrip(impl.eff_err(p))
    return impl.eff_out(p), impl.eff_err(p)


def stream_text(o):
    if o is None:
        return None
    return o.get('t', o.get('b'))


def failed(p):
    """Did not exit 0: a non-zero status - of either sign - or could not be started."""
    return bool(p.get('spawn')) or p['code'] != 0


def undecodable(p, c, is_async):
    """The command ran, its output is captured and decoded by its command, and is not text under the encoding."""
    if p.get('spawn'):
        return False
    dec = impl.async_decodes(c) if is_async else impl.sync_decodes(c)
    return dec and not impl.decodable(p, c['enc'])


def attempted_prefix(ps):
    """Serial execution: declaration prefix up to and including the first command that did not exit 0."""
    out = []
    for p in ps:
        out.append(p)
        if failed(p):
            break
    return out


def actually_run(ps):
    """... of which the ones for which a process existed."""
    return [p for p in attempted_prefix(ps) if not p.get('spawn')]


def fault_of(p):
    if p.get('spawn'):
        return 'unstartable:' + p['spawn']
    return 'signal' if p['code'] < 0 else ('exit>0' if p['code'] > 0 else 'none')


def failure_key(p):
    """What the error for a failed command must carry."""
    if p.get('spawn'):
        return ('spawn', impl.spawn_label(p), impl.KIND_TYPE[impl.SPAWN_KIND[p['spawn']]])
    return ('exit', p['id'], p['code'])


def open_key(c):
    lab, kind = impl.bad_target(c)
    return ('open', lab, OPEN_TYPE[kind])


def error_key(e):
    if 'spawn' in e:
        return ('spawn', e['spawn'], e.get('type'))
    if 'open' in e:
        return ('open', e['open'], e.get('type'))
    if 'decode' in e:
        return ('decode', e['decode'], e.get('type'))
    if 'id' in e:
        return ('exit', e['id'], e.get('code'))
    return ('other', e.get('type'), e.get('msg'))


def check_results(got, want, where, is_async):
    """got: result observations; want: [(P, command object)] - one result per command run, in order."""
    bad = []
    if [r.get('id') for r in got] != [p['id'] for p, _ in want]:
        bad.append((where + ':results-not-one-per-command-run-in-declaration-order',
                    f"results for {[r.get('id', r) for r in got]}, commands run with save {[p['id'] for p, _ in want]}"))
        return bad
    for r, (p, c) in zip(got, want):
        if r['code'] != p['code']:
            bad.append((where + ':result-content', f'command {p["id"]}: got {r}, scripted code={p["code"]}'))
            continue
        if undecodable(p, c, is_async):
            continue        # the property does not say what the text of non-text is
        so, se = expected_streams(p, c, is_async)
        if stream_text(r['stdout']) != so or stream_text(r['stderr']) != se:
            bad.append((where + ':result-content', f'command {p["id"]}: got {r}, scripted code={p["code"]} out={so!r} err={se!r}'))
        elif not r.get('cmd_ok'):
            bad.append((where + ':result-cmd', f'command {p["id"]}: result carries another command'))
    return bad


def monitor_hang(case, o):
    """Every step returns (successfully or with its error) once the commands it started have exited."""
    h = o['hang']
    return [(case['kind'] + ':step-never-returned',
             f"the step had not returned {h['after_s']} s after it was called (killed); commands started "
             f"{h['started']}, finished {h['finished']}")]


UNDEC = 'undecodable-output'


def monitor_serial(case, o):
    """From the property text. A command object whose output file cannot be opened counts as "its commands cannot
    be started": the loop ends there, nothing of it or after it runs, the error is the one of the file."""
    cmds = impl.commands(case['cfg'])
    # the attempts the property prescribes: declaration order up to and including the first failure
    att, first_fail = [], None       # att: [(P, c)] of the commands to attempt
    for c in cmds:
        if first_fail:
            break
        if impl.bad_target(c):
            first_fail = open_key(c)
            break
        for p in c['procs']:
            att.append((p, c))
            if failed(p):
                first_fail = failure_key(p)
                break
    run = [(p, c) for p, c in att if not p.get('spawn')]
    bad = []
    # --- a command that ran, exited (0 or not) and wrote bytes that are not text: the step must not fail for
    #     that, and must still hold its result ("succeeds iff every command it ran exited 0"; "one result per
    #     command actually run")
    und = next(((p, c) for p, c in run if undecodable(p, c, False)), None)
    if und and o['err'] is not None and error_key(o['err'])[:2] == ('decode', und[0]['id']):
        p, c = und
        later = [q['id'] for q, _ in run[[id(x) for x, _ in run].index(id(p)) + 1:]]
        return [('serial:undecodable-output-fails-step',
                 f"command {p['id']} ran and exited {p['code']}; its captured output {impl.eff_out(p)[:12]!r}/"
                 f"{impl.eff_err(p)[:12]!r} is not text in {c['enc'] or 'the default encoding'}: the step raises "
                 f"{o['err']['type']} - neither an exit error nor a spawn error -, cmdOut has no result for it "
                 f"(results for {[r.get('id') for r in o['results']]}), commands {later} declared after it never "
                 f"ran (started {o['started']})", UNDEC)]
    procs = [p for c in cmds for p in c['procs']]
    if o['started'] != [p['id'] for p, _ in run]:
        bad.append(('serial:started-not-declaration-prefix-through-first-failure',
                    f"started {o['started']}, declaration {[(p['id'], fault_of(p), p['code']) for p in procs]}"))
    by_id = {p['id']: p for p in procs}     # one content per id
    # success iff every command it ran exited 0 - judged on what it did run (marker files) and on what it had
    # to attempt (a command that cannot be started has not exited 0 either)
    ran_nonzero = [(i, by_id[i]['code']) for i in o['started'] if i in by_id and by_id[i]['code'] != 0]
    should_fail = first_fail is not None
    if (o['err'] is None) == should_fail or (o['err'] is None and ran_nonzero):
        bad.append(('serial:success-iff-all-exit-0', f"error={o['err']}; commands run that exited non-zero {ran_nonzero}; "
                    f"outcomes of the commands to attempt = {[(p['id'], fault_of(p), p['code']) for p, _ in att]}, "
                    f"first failure {first_fail}"))
    if o['err'] is not None:
        if first_fail is None or error_key(o['err']) != first_fail or \
                ('id' in o['err'] and (not o['err'].get('cmd_ok') or o['err'].get('type') != 'subprocess.CalledProcessError')):
            bad.append(('serial:error-carries-first-failing-command-and-code',
                        f"error {o['err']}, first failure {first_fail}"))
    # one result per command actually run (per occurrence: the k-th command run is the k-th of the declaration)
    nrun = len(o['started']) if o['started'] == [p['id'] for p, _ in run][:len(o['started'])] else len(run)
    want = [(p, c) for (p, c) in run[:nrun] if c['save']]
    bad += check_results(o['results'], want, 'serial', False)
    # cmdOut belongs to `save`: a step none of whose commands saves leaves context['cmdOut'] exactly as it found it.
    # (With `save` and no result the code also leaves it - a stale value of an earlier step survives -: the
    # property text does not decide that case; it is the model's business, Cmd.cmdOutAfter / theorem cmdOut_after.)
    if not any(c['save'] for c in cmds) and 'prior' not in o['after']:
        bad.append(('serial:cmdOut-written-without-save', str(o['after'])[:200]))
    return bad


def monitor_async(case, o):
    cmds = impl.commands(case['cfg'])
    bad = []
    for a in o['anomalies']:
        if a[0] == 'not_started_concurrently':
            bad.append(('async:top-level-entries-not-all-started-concurrently', f'not running while the others wait: {a[1]}'))
        elif a[0] == 'unexpected_start':
            bad.append(('async:command-started-after-failure-in-serial-sub-list', f'command {a[1]} started'))
        elif a[0] == 'never_happened' and a[1][0] == 'all_started':
            pass    # reported as not_started_concurrently
        elif a[0] == 'step_finished_before':
            what = a[1]
            clause = {'all_started': 'async:returned-before-every-top-level-entry-had-started',
                      'started': 'async:returned-before-the-next-command-of-a-sub-list-had-started',
                      'done': 'async:returned-before-every-started-command-finished',
                      'reaped': 'async:returned-before-every-started-command-finished'}.get(what[0], 'async:protocol:' + a[0])
            bad.append((clause, f'the step returned while the harness was still waiting for {what}'))
        else:
            bad.append(('async:protocol:' + a[0], str(a[1:])))
    if o.get('running_at_return'):
        bad.append(('async:returned-before-every-started-command-finished',
                    f"still running when the step returned: {o['running_at_return']}"))
    want_started, want_fail, want_res, want_exc, und = [], [], [], [], []
    for c in cmds:
        if impl.bad_target(c):
            want_fail.append(open_key(c))      # none of its commands is started
            continue
        for ps in c['entries']:
            att = attempted_prefix(ps)
            run = actually_run(ps)
            want_started += [p['id'] for p in run]
            want_fail += [failure_key(p) for p in att if failed(p)]
            und += [(p, c) for p in run if undecodable(p, c, True)]
            if c['save']:
                want_res += [(p, c) for p in run]
                want_exc += [failure_key(p)[:2] for p in att if p.get('spawn')]
    # --- undecodable captured output (see monitor_serial)
    dec_errs = {error_key(e)[1] for e in o['errors'] if error_key(e)[0] == 'decode'}
    hit = [(p, c) for p, c in und if p['id'] in dec_errs]
    if hit:
        p, c = hit[0]
        return bad + [('async:undecodable-output-fails-step',
                       f"command {p['id']} ran and exited {p['code']}; its captured output is not text in "
                       f"{c['enc'] or 'the default encoding'}: the aggregate error lists "
                       f"{[e for e in o['errors'] if 'decode' in e]} - not an exit status -, cmdOut holds the exception "
                       f"object in place of its result, a serial sub-list ends there (started {o['started']})", UNDEC)]
    got_c, want_c = collections.Counter(o['started']), collections.Counter(want_started)
    if got_c != want_c:
        missing, surplus = sorted((want_c - got_c).elements()), sorted((got_c - want_c).elements())
        if missing and not surplus:
            # fewer processes than declared occurrences (an entry identical to another one counts)
            bad.append(('async:every-declared-entry-started',
                        f"never started: {missing} (one per missing occurrence); started {sorted(o['started'])}, declared "
                        f"to be started {sorted(want_started)}"))
        else:
            bad.append(('async:started-set', f"started {o['started']}, expected {sorted(want_started)}"))
    got_fail = sorted(error_key(e) for e in o['errors'])
    if any(k[0] == 'other' for k in got_fail):
        bad.append(('async:unexpected-error', str([e for e in o['errors'] if error_key(e)[0] == 'other'])[:300]))
    elif got_fail != sorted(want_fail) or (o['err_type'] is None) != (not want_fail) or \
            any('id' in e and not e.get('cmd_ok') for e in o['errors']):
        bad.append(('async:aggregate-error-lists-every-failure',
                    f"error {o['err_type']} lists {got_fail}, failures {sorted(want_fail)}"))
    elif want_fail and o['err_type'] != 'pypyr.errors.MultiError':
        bad.append(('async:aggregate-error-type', str(o['err_type'])))
    co = o['cmdOut']
    if isinstance(co, dict):
        bad.append(('async:cmdOut-shape', str(co)))
    else:
        flat = []
        for s in co or []:
            flat += [s['res']] if 'res' in s else list(s['sub'])
        results = [r for r in flat if 'exc' not in r]
        excs = [r['exc'] for r in flat if 'exc' in r]
        if any('id' not in r for r in results):
            bad.append(('async:cmdOut-holds-non-result', str(flat)[:300]))
        else:
            bad += check_results(results, want_res, 'async', True)
        # anything else in cmdOut can only be the exception of a command that could not be started
        if sorted(error_key(e)[:2] for e in excs) != sorted(want_exc):
            bad.append(('async:cmdOut-exception-entries', f'{excs}, unstartable commands of save commands {want_exc}'))
    return bad


def case_fault(case):
    """Kinds of failure in the case, for counters and signatures."""
    is_async = case['kind'] == 'async'
    fs = []
    stop = False
    for c in impl.commands(case['cfg']):
        if stop:
            break
        if impl.bad_target(c):
            fs.append('unopenable-output')
            stop = not is_async
            continue
        for ps in (c['entries'] if is_async else [c['procs']]):
            for p in attempted_prefix(ps):
                if failed(p):
                    fs.append(fault_of(p))
                    stop = not is_async
                elif undecodable(p, c, is_async):
                    fs.append(UNDEC)
    return '+'.join(sorted(set(fs))) or 'none'


# --------------------------------------------------------------------------
# run
# --------------------------------------------------------------------------

def execute(env, res, cases):
    """Model first (one batch), then the implementation in worker processes, then compare + judge."""
    ctx = multiprocessing.get_context('fork')
    nproc = max(2, min(14, (os.cpu_count() or 4) - 2))
    impl.begin_run()
    pool = ctx.Pool(nproc, initializer=impl.worker_init)   # before the driver exists: no inherited pipes
    try:
        models = env.driver.ask_many([model_requests(c) for c in cases])
        jobs = []
        for i, (c, m) in enumerate(zip(cases, models)):
            if isinstance(m, common.Reject):
                res.count('rejected')
                continue
            jobs.append((i, c, m.get('trace')))
        got = {}
        nviol = 0
        known = common.load_known('C17')
        it = pool.imap_unordered(impl.worker, jobs, chunksize=1)
        for _ in range(len(jobs)):
            try:
                # every job ends by itself (impl.isolated kills a case at its deadline): this is a backstop
                idx, o = it.next(timeout=impl.CASE_DEADLINE_S * 4 + 60)
            except multiprocessing.TimeoutError:
                raise common.Infra('C17: no case finished for too long although each has a deadline')
            if 'infra' in o:
                raise common.Infra(f'C17 case {idx}: {o["infra"]}')
            got[idx] = o
            before = len(res.findings)
            judge(res, cases[idx], models[idx], o)
            # a registered known finding does not count towards "enough failing inputs"
            nviol += sum(1 for f in res.findings[before:]
                         if f['kind'] == 'property' and not common.matches_known(f, known))
            if nviol >= 40:       # enough failing inputs; do not sit through thousands of timeouts
                res.extra['stopped_early'] = f'{nviol} violations after {len(got)} of {len(jobs)} cases'
                break
    finally:
        pool.terminate()
        pool.join()
        impl.end_run()


def judge(res, c, m, o):
    if c['kind'] == 'hist':
        judge_hist(res, c, m, o)
        return 0
    mv = model_view(c, m)
    iv = impl_view(c, o)
    failing = bool(mv.get('err') or mv.get('errors'))
    nstart = len(mv.get('started', []))
    fault = case_fault(c)
    cmds = impl.commands(c['cfg'])
    res.case(c, nontrivial=True)
    res.count(f"{c['kind']}:{c['step']}")
    res.count('shape:' + c['shape'].split('/')[0])
    res.count('outcome:' + ('error' if failing else 'ok'))
    res.count(f'started:{nstart}/{c["n"]}')
    res.count(f"failure:{c['kind']}:{fault}")
    for cm in cmds:
        if cm['enc']:
            res.count(f"encoding:{cm['enc']}")
        for k in ('stdout', 'stderr'):
            t = cm[k]
            if t is not None:
                res.count(f"redirect:{k}:" + (t if isinstance(t, str) else
                                              ('file:' + (t.get('bad') or ('append' if cm['append'] else 'write')))))
    if c.get('big'):
        res.count(f"big-output:{c['kind']}")
    if c.get('dup'):
        res.count(f"identical-entries:{c['kind']}:{c['dup']}")
        if 'ref' in json.dumps(c['cfg']):
            res.count(f"identical-entries:{c['kind']}:same-object")
    if 'pos' in c:
        res.count(f"faultpos:{c['kind']}:{c['fault']}@{c['pos']}")
    if c['kind'] == 'async':
        res.count(f"lanes:{c['lanes']}")
    else:
        res.count('prev-cmdOut:' + c.get('prev', 'str'))
        if 'prior' in (o.get('after') or {}) and any(cm['save'] for cm in cmds) and c.get('prev', 'str') != 'absent':
            # `save`, no result: what an earlier step left in cmdOut is still there (Cmd.cmdOut_after)
            res.count('stale-cmdOut-survives-a-save-step')
    if 'hang' in o:
        bad = monitor_hang(c, o)
    else:
        bad = monitor_serial(c, o) if c['kind'] == 'serial' else monitor_async(c, o)
    for item in bad:
        clause, detail = item[0], item[1]
        failure = item[2] if len(item) > 2 else fault
        res.violation(c, f'{clause}: {detail}', signature={'step': c['step'], 'clause': clause, 'failure': failure},
                      impl=iv)
    if mv != iv:
        res.mismatch(c, mv, iv)
    return len(bad)


def stratified(rng, cases, key, per):
    groups = {}
    for c in cases:
        groups.setdefault(key(c), []).append(c)
    out = []
    for k in sorted(groups):
        g = groups[k]
        out += rng.sample(g, min(len(g), per))
    return out


# --------------------------------------------------------------------------
# the constructors: configuration value -> Command objects (model parser vs CmdStep / AsyncCmdStep)
# --------------------------------------------------------------------------

PNAMES = ['p%d' % i for i in range(1, 10)]
NOISE = [5, 0, None, True, False, 1.5, '', {'a': 1}, {'d': 1, 'run': None}, [], (), {'s', 't'}]
DIRECTED_CFG = [
    (True, 'p1'), (True, ''), (True, None), (False, None), (True, 5), (True, 0), (True, True), (True, 2.5), (True, {'x', 'y'}),
    (True, []), (True, ()), (True, ['p1', 'p2']), (True, ('p1', 'p2')), (True, ['p1', 5]), (True, ['p1', None]),
    (True, ['p1', ['p2', 'p3']]), (True, [['p1'], ['p2', 'p3']]), (True, ['p1', ('p2', 'p3')]), (True, [[]]),
    (True, ['p1', ['p2', ['p3']]]), (True, ['p1', ['p2', 5]]),
    (True, {}), (True, {'save': True}), (True, {'run': None}), (True, {'run': ''}), (True, {'run': []}), (True, {'run': 0}),
    (True, {'run': 'p1'}), (True, {'run': ['p1', 'p2']}), (True, {'run': ('p1', 'p2')}), (True, {'run': ['p1', ['p2', 'p3']]}),
    (True, {'run': [['p1', 'p2']]}), (True, {'run': [[]]}), (True, {'run': 5}), (True, {'run': ['p1', 5]}),
    (True, {'run': 'p1', 'save': True}), (True, {'run': 'p1', 'save': 'True'}), (True, {'run': 'p1', 'save': 'tRuE'}),
    (True, {'run': 'p1', 'save': '1'}), (True, {'run': 'p1', 'save': '1.0'}), (True, {'run': 'p1', 'save': 'yes'}),
    (True, {'run': 'p1', 'save': 1}), (True, {'run': 'p1', 'save': 0}), (True, {'run': 'p1', 'save': None}),
    (True, {'run': 'p1', 'save': [0]}), (True, {'run': 'p1', 'save': True, 'bytes': True}),
    (True, {'run': 'p1', 'save': True, 'bytes': 'False'}), (True, {'run': 'p1', 'save': True, 'bytes': 0}),
    (True, {'run': 'p1', 'bytes': True}), (True, {'run': 'p1', 'save': True, 'stdout': '@f1'}),
    (True, {'run': 'p1', 'save': True, 'stderr': '@f1'}), (True, {'run': 'p1', 'save': True, 'stdout': ''}),
    (True, {'run': 'p1', 'save': True, 'stdout': None, 'stderr': 0}), (True, {'run': 'p1', 'save': False, 'stdout': '@f1'}),
    (True, {'run': 'p1', 'stdout': '/dev/null', 'stderr': '/dev/stdout'}), (True, {'run': 'p1', 'stdout': '/dev/stdout'}),
    (True, {'run': 'p1', 'stderr': '/dev/null', 'append': True}), (True, {'run': 'p1', 'stdout': '@f1', 'append': 'false'}),
    (True, {'run': 'p1', 'stdout': '@f1', 'append': 0}), (True, {'run': 'p1', 'stdout': 7}),
    (True, {'run': 'p1', 'encoding': 'utf-8'}), (True, {'run': 'p1', 'encoding': ''}), (True, {'run': 'p1', 'encoding': None}),
    (True, {'run': 'p1', 'encoding': 5}), (True, {'run': 'p1', 'cwd': '@cwd1'}), (True, {'run': 'p1', 'cwd': None}),
    (True, {'run': 'p1', 'cwd': 5}), (True, {'run': 'p1', 'shell': True}), (True, {'run': 'p1', 'shell': False}),
    (True, {'run': 'p1', 'shell': None}), (True, {'run': 'p1', 'shell': 0}), (True, {'run': 'p1', 'shell': 'x'}),
    (True, ['p1', {'run': 'p2', 'save': True}, {'run': ['p3', 'p4'], 'stdout': '@f1'}]),
    (True, ['p1', {'run': 'p2', 'save': True, 'stderr': '@f2'}, 'p3']), (True, ['p1', {'save': True}, 5]),
    (True, [{'run': ''}, 5]), (True, [5, {'run': ''}]), (True, ('p1', {'run': 'p2'})), (True, ['p1', {'s'}]),
    # identical entries
    (True, ['p1', 'p1']), (True, ('p1', 'p1', 'p1')), (True, ['p1', 'p2', 'p1']), (True, [['p1', 'p2'], ['p1', 'p2']]),
    (True, [{'run': 'p1', 'save': True}, {'run': 'p2'}, {'run': 'p1', 'save': True}]), (True, {'run': ['p1', 'p1']}),
    (True, {'run': ['p1', ['p2', 'p2'], 'p1', ['p2', 'p2']], 'save': True}),
    (True, [{'run': ['p1', 'p2']}, {'run': ['p1', 'p2']}]), (True, ['p1', {'run': 'p1'}, ['p1']]),
]
_ALIAS = {'run': ['p1', 'p2'], 'save': True}
_SUB = ['p1', 'p2']
DIRECTED_CFG += [(True, [_ALIAS, 'p3', _ALIAS]), (True, [_SUB, _SUB]), (True, {'run': [_SUB, 'p1', _SUB]})]


def gen_cfg_value(rng, is_async):
    def pn():
        return rng.choice(PNAMES)

    def sub():
        r = rng.random()
        xs = [pn() for _ in range(rng.randint(0, 3))]
        if r < 0.1:
            xs.insert(rng.randint(0, len(xs)), rng.choice(NOISE))
        return tuple(xs) if rng.random() < 0.2 else xs

    def run_value():
        r = rng.random()
        if r < 0.35:
            return pn()
        if r < 0.45:
            return rng.choice(NOISE)
        xs = []
        for _ in range(rng.randint(0, 4)):
            q = rng.random()
            xs.append(pn() if q < 0.7 else (sub() if q < 0.93 else rng.choice(NOISE)))
        return tuple(xs) if rng.random() < 0.15 else xs

    def a_map():
        m = {}
        if rng.random() < 0.92:
            m['run'] = run_value()
        if rng.random() < 0.55:
            m['save'] = rng.choice([True, False, 'True', 'true', 'FALSE', '1', '1.0', '0', 'yes', '', 1, 0, None, [1], []])
        if rng.random() < 0.35:
            m['bytes'] = rng.choice([True, False, 'False', 0, 1, None, ''])
        if rng.random() < 0.3:
            m['encoding'] = rng.choice(['utf-8', 'latin-1', 'ascii', '', None, 0] + ([5] if rng.random() < 0.1 else []))
        if rng.random() < 0.35:
            m['stdout'] = rng.choice(['@f1', '@f2', '/dev/null', '/dev/stdout', '', None, 0, False] + ([7] if rng.random() < 0.1 else []))
        if rng.random() < 0.35:
            m['stderr'] = rng.choice(['@f3', '@f1', '/dev/null', '/dev/stdout', '', None, 0] + ([7] if rng.random() < 0.1 else []))
        if rng.random() < 0.3:
            m['append'] = rng.choice([True, False, 'false', 0, 1, None, ''])
        if rng.random() < 0.25:
            m['shell'] = rng.choice([True, False, None, 0, 1, '', 'x'])
        if rng.random() < 0.2:
            m['cwd'] = rng.choice(['@cwd1', None] + ([5] if rng.random() < 0.2 else []))
        if rng.random() < 0.1:
            m['junk'] = 1
        return m

    def item():
        r = rng.random()
        if r < 0.4:
            return pn()
        if r < 0.75:
            return a_map()
        if r < 0.9:
            return sub()
        return rng.choice(NOISE)
    r = rng.random()
    if r < 0.12:
        return True, pn()
    if r < 0.4:
        return True, a_map()
    if r < 0.93:
        xs = [item() for _ in range(rng.randint(0, 4))]
        return True, (tuple(xs) if rng.random() < 0.1 else xs)
    if r < 0.96:
        return False, None
    return True, rng.choice(NOISE)


def ref_decls(value, is_async):
    """Declaration order read off a well-formed configuration value (the harness's own two lines)."""
    def strings(run):
        if isinstance(run, str):
            return [run]
        out = []
        for x in run:
            out += [x] if isinstance(x, str) else list(x)
        return out
    items = list(value) if isinstance(value, (list, tuple)) else [value]
    out = []
    for it in items:
        if isinstance(it, str):
            out.append([it, False, False])
        elif isinstance(it, dict):
            from pypyr.utils.types import cast_to_bool
            save = cast_to_bool(it.get('save', False))
            out += [[x, save, bool(save and not it.get('bytes'))] for x in strings(it['run'])]
        else:
            out += [[x, False, False] for x in it]
    return out


def check_parse(env, res, n):
    """`cmd.parse` (Cmd.parseCmdConfig) vs CmdStep(...) / AsyncCmdStep(...): the Command objects built - run
    strings incl. nesting, shell, cwd, save, text, encoding, stdout, stderr, append - or the exception raised
    (type + which message). A configuration the constructor refuses also goes through the whole step: same error,
    nothing started, cmdOut untouched."""
    rng = env.rng
    cases = []
    for present, v in DIRECTED_CFG:
        for is_async in (False, True):
            for shell in (False, True):
                cases.append((present, v, is_async, shell))
    for _ in range(n):
        is_async = rng.random() < 0.5
        present, v = gen_cfg_value(rng, is_async)
        cases.append((present, v, is_async, rng.random() < 0.3))
    run_parse_cases(env, res, cases)


def run_parse_cases(env, res, cases):
    reqs = []
    for present, v, is_async, shell in cases:
        pl = {'async': is_async, 'shell': shell}
        if present:
            pl['cfg'] = common.enc(v)
        reqs.append(('cmd.parse', pl))
    models = env.driver.ask_many(reqs)
    for (present, v, is_async, shell), m in zip(cases, models):
        case = {'kind': 'parse', 'async': is_async, 'shell': shell, 'present': present,
                'value': common.enc(v) if present else None}
        if isinstance(m, common.Reject):
            res.count('parse:outside-model')
            continue
        real = impl.ctor_obs(v, present, is_async, shell)
        res.case(case, nontrivial=True)
        res.count('parse:' + ('async' if is_async else 'serial') + ':' + ('err:' + m['err']['msg'] if 'err' in m else 'ok'))
        dflt = real.pop('default_encoding', None)
        mv = {'err': m['err']} if 'err' in m else {'ok': [{**c, 'encoding': c['encoding'] or dflt} for c in m['ok']]}
        if mv != real:
            res.mismatch(case, mv, real)
            continue
        if 'ok' in m:
            # declaration order: the model's flatten (theorem parse_declaration_order) vs the harness's own reading
            want = ref_decls(v, is_async)
            if m['decls'] != want:
                res.mismatch({**case, 'layer': 'declaration order'}, m['decls'], want)
        else:
            step = ('shells' if shell else 'cmds') if is_async else ('shell' if shell else 'cmd')
            r2 = impl.ctor_run_obs(v, present, step)
            want = {'err': m['err'], 'cmdOut_untouched': True}
            if r2 != want:
                res.mismatch({**case, 'layer': 'run_step'}, want, r2)


def run(env, res):
    res.rule = ('directed A: every exit-code vector over {0,1,3} for 1-4 commands x configuration shapes (single string, '
                'expanded map, flat list, list of maps with own save flags, run: list, mixed lists, nested serial '
                'sub-lists) x save off/text/bytes x cmd/shell; for cmds/shells every cut of 1-4 commands into lanes x '
                'every lane permutation as completion schedule (round-robin and lane-major). directed B: one signal '
                'death (SIGKILL/SIGTERM/SIGINT: negative return code) or one unstartable command (no such executable, '
                'not executable, unsplittable instruction, missing cwd) at each position of 1-4 commands (top level; '
                'first/middle/last of run lists and serial sub-lists) x the same shapes, sync and async, with and '
                'without a later exit 1. quick = seeded sample of A + sample of B stratified by (failure kind, '
                'position); then a random stream with any mix of outcomes and arbitrary schedules. Every case runs '
                'real subprocesses (marker files prove which commands started); non-trivial = all. directed C: a '
                'command writing more than a pipe buffer (70 KB / 300 KB) to stdout, stderr or both x save text / '
                'bytes / off x position x sync and async shapes. directed D: a command whose output is not text '
                '(ff fe ...) on stdout / stderr at each position of 1-3 commands, exit 0 / 3 x save text / bytes / '
                'bytes+encoding / utf-8 / ascii / latin-1 / off x run list / list of maps / lanes / serial sub-list. '
                'directed E: stdout / stderr to a new file, an existing file (overwrite / append), /dev/null, '
                '/dev/stdout, a path that is a directory or whose parent is a file x exit-code vectors x alone / '
                'framed by a save command and a plain one / after a failing command, sync and async; final file '
                'contents are compared. Serial cases rotate what context[cmdOut] holds before the step (a string, a '
                'list, nothing). P: the constructors alone on directed + random configuration values incl. '
                'malformed ones (model parser vs CmdStep/AsyncCmdStep: Command attributes or exception; refused '
                'configurations also through run_step). Each process case runs in its own process group under a '
                '25 s deadline: a step that does not return is a violation (step-never-returned) with the case as '
                'replay; for cmds/shells the commands still running at the moment the step returns are observed '
                '(must be none). directed F: identical entries - the same instruction / serial sub-list / map (a copy, or '
                'the same object again) declared 2-3 times at top level, duplicates inside one run list / one sub-list, '
                '[fail, ok, same fail], workers that wait for their identical siblings - x exit codes x shapes x '
                'schedules, all four steps; the random stream declares something a second time with probability '
                '~1/3. Every process claims the next free occurrence slot of its instruction: starts, exits, '
                'failures and results are counted per occurrence. directed H: histories in ONE FRESH interpreter - '
                '[import a module of the command steps | set default_cmd_encoding / default_encoding by assignment or '
                'config.init() with pypyr-config.yaml / pyproject.toml / $PYPYR_CONFIG_GLOBAL | run a saving cmd / shell '
                'step] in 12 orders x 6 encodings x 4 ways of setting x own encoding none / other / empty, commands writing '
                'non-ASCII text in the encoding in force when the step runs; plus random histories.')
    check_parse(env, res, env.n(1500, 20000))
    ser, asy = serial_cases(env), async_cases(env)
    fser, fasy = serial_fault_cases(env), async_fault_cases(env)
    big = big_output_cases(env)
    dec = decode_cases(env)
    red = redirect_cases(env)
    dup = duplicate_cases(env)
    hist = hist_cases(env) + (async_hist_cases(env) if HIST_ASYNC else [])
    res.extra['directed_histories'] = len(hist)
    res.extra['directed_set'] = {'serial': len(ser), 'async': len(asy), 'serial_faults': len(fser),
                                 'async_faults': len(fasy), 'big_outputs': len(big), 'undecodable': len(dec),
                                 'redirects': len(red), 'identical_entries': len(dup)}
    if env.quick:
        def allzero(c):
            return all(not failed(p) for p in case_procs(c).values())
        zs, za = [c for c in ser if allzero(c)], [c for c in asy if allzero(c)]
        ser = env.rng.sample(zs, min(len(zs), 25)) + env.rng.sample(ser, min(len(ser), 120))
        asy = env.rng.sample(za, min(len(za), 25)) + env.rng.sample(asy, min(len(asy), 110))
        key = lambda c: (c['step'], c['fault'], c['pos'])
        fser = stratified(env.rng, fser, key, 10)
        fasy = stratified(env.rng, fasy, key, 7)
        rnd = random_cases(env, 150)
        big = stratified(env.rng, big, lambda c: (c['kind'], c['shape'].split('/')[0]), 3)
        dec = stratified(env.rng, dec, lambda c: (c['kind'], c['decode'], c['fault']), 4)
        red = stratified(env.rng, red, lambda c: (c['kind'], c['redirect']), 3)
        dup = stratified(env.rng, dup, lambda c: (c['kind'], c['dup']), 5)
        hist = stratified(env.rng, hist, lambda c: (c['order'], c['how']), 2) + random_hist_cases(env, 40)
    else:
        rnd = random_cases(env, 1200)
        hist = hist + random_hist_cases(env, 600)
    cases = hist + dup + dec + red + fser + fasy + big + ser + asy + rnd
    k = 0
    for c in cases:
        if c['kind'] == 'serial' and 'prev' not in c:
            c['prev'] = ('str', 'list', 'absent')[k % 3]
            k += 1
    execute(env, res, cases)


def replay(env, res, case):
    c = case.get('case', case)
    if isinstance(c, dict) and 'first_diverging_case' in c:
        c = c['first_diverging_case']['case']
    if c.get('kind') == 'parse':
        run_parse_cases(env, res, [(c['present'], common.dec(c['value']) if c['present'] else None, c['async'], c['shell'])])
        return
    execute(env, res, [c])
