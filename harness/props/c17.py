"""C17 - command steps report exit status faithfully and in declaration order.

Model: lean/PypyrModel/Cmd.lean (`cmd.serial`, `cmd.async` driver ops); theorems Props/C17.lean.
Implementation: the real steps pypyr.steps.{cmd,shell,cmds,shells} on real subprocesses under an
explicit release protocol (harness/impl_c17.py). Monitors below are written from the property text
and look only at the case and at what the implementation did.

A command's outcome is one of: exit 0 / a positive exit code / a NEGATIVE return code (the command
kills itself with a signal) / it cannot be started at all (no such executable, file not executable,
instruction that cannot be split into arguments, missing cwd of its map). Its output is ASCII text of any
size (a family writes more than a pipe buffer to stdout / stderr / both).

Every case runs in a process group of its own under a deadline (impl.isolated): a step that never returns
(an event loop that never finishes, a pipe nobody drains) is the observation `hang` and the violation
"<kind>:step-never-returned", never a hang of the check. For the concurrent steps the moment the step returns
is observed too: every command it started must have finished by then ("wait for all of them").
"""
from __future__ import annotations

import copy
import itertools
import json
import multiprocessing
import os

from .. import common
from .. import impl_c17 as impl

LEAN_MODULES = ['Props.C17']
TRUSTED = ['harness/props/c17.py, harness/impl_c17.py (child script, release protocol, per-case process group with '
           'deadline, monitors, canonicaliser)',
           'CPython subprocess / asyncio subprocess / shlex, /bin/sh, OS process exit status and signal delivery']
ASSUMPTIONS = [
    'a command is characterised by whether it can be started (else: the exception type of the spawn call), its '
    'exit status (0, 1..255, or -N for death by signal N) and the ASCII text it writes; output redirection to '
    'files and non-default encodings are outside the model',
    'OS scheduling of concurrent commands is replaced by the release protocol: completion order = the order in '
    'which the harness lets the processes exit (each exit is awaited, incl. reaping, before the next release)',
    'under a shell (shell/shells) a missing or non-executable program is an ordinary exit 127/126 of the shell, '
    'not a spawn error: there the only unstartable commands generated are those of a map with a missing cwd',
]

OUTS = ['', 'out', 'two words\n', '  padded  \n\n', 'l1\nl2\n', ' \n', 'x=1 "q"\t\n']
CODES = (0, 1, 3)
SIGNALS = (-9, -15, -2)            # SIGKILL, SIGTERM, SIGINT
EXEC_FAULTS = ('missing', 'noexec', 'badquote', 'cwd')
FAULTS_EXEC = SIGNALS + EXEC_FAULTS          # cmd / cmds
FAULTS_SHELL = SIGNALS + ('cwd',)            # shell / shells


# --------------------------------------------------------------------------
# case generation
# --------------------------------------------------------------------------

def mk_proc(i, o, salt, k):
    """o: an exit status (int) or the name of a spawn fault."""
    if isinstance(o, str):
        return {'id': i, 'code': 0, 'out': '', 'err': '', 'spawn': o}
    return {'id': i, 'code': o, 'out': OUTS[(salt + 2 * k) % len(OUTS)], 'err': OUTS[(salt + 3 * k + 1) % len(OUTS)]}


def mk_procs(outcomes, salt):
    return [mk_proc(k + 1, o, salt, k) for k, o in enumerate(outcomes)]


def norm_cfg(cfg):
    """Make a generated configuration realisable: a `cwd` fault belongs to an expanded-syntax map and
    makes *every* command of that map unstartable (they share the missing cwd). Returns a deep copy."""
    cfg = copy.deepcopy(cfg)

    def fix_map(m):
        ps = impl.map_procs(m)
        if any(p.get('spawn') == 'cwd' for p in ps):
            key = min(p['id'] for p in ps)
            for p in ps:
                p.update({'code': 0, 'out': '', 'err': '', 'spawn': 'cwd', 'cwdkey': key})

    def fix_item(it):
        if 'map' in it:
            fix_map(it['map'])
            return it
        if 'str' in it and it['str'].get('spawn') == 'cwd':
            it = {'map': {'run': {'str': it['str']}}}
            fix_map(it['map'])
        elif 'sub' in it and any(p.get('spawn') == 'cwd' for p in it['sub']):
            it = {'map': {'run': {'list': [{'sub': it['sub']}]}}}
            fix_map(it['map'])
        return it
    if 'list' in cfg:
        cfg['list'] = [fix_item(it) for it in cfg['list']]
        return cfg
    return fix_item(cfg)


def serial_shapes(ps, n):
    """(shape name, cfg) for a list of processes."""
    out = []
    if n == 1:
        out.append(('str', {'str': ps[0]}))
        for save, byt in ((False, False), (True, False), (True, True)):
            out.append((f'map1/save={save}/bytes={byt}',
                        {'map': {'run': {'str': ps[0]}, 'save': save, 'bytes': byt}}))
    out.append(('flat', {'list': [{'str': p} for p in ps]}))
    for save in (False, True):
        out.append((f'expanded/save={save}',
                    {'list': [{'map': {'run': {'str': p}, 'save': save}} for p in ps]}))
    for save, byt in ((False, False), (True, False), (True, True)):
        out.append((f'runlist/save={save}/bytes={byt}', {'map': {'run': {'list': list(ps)}, 'save': save, 'bytes': byt}}))
    if n >= 2:
        h = (n + 1) // 2
        items = [{'map': {'run': {'list': ps[:h]}, 'save': True}}]
        for k, p in enumerate(ps[h:]):
            items.append({'str': p} if k % 2 == 0 else {'map': {'run': {'str': p}, 'save': True, 'bytes': True}})
        out.append(('mixed', {'list': items}))
        items = [{'str': ps[0]}, {'map': {'run': {'list': ps[1:]}, 'save': True}}]
        out.append(('mixed2', {'list': items}))
        # several list entries, each with its own save flag: [save, no save, save+bytes, ...], run lists of <= 2
        items = []
        for k in range(0, n, 2):
            chunk = ps[k:k + 2]
            save = (k // 2) % 2 == 0
            items.append({'map': {'run': {'list': chunk} if len(chunk) > 1 else {'str': chunk[0]},
                                  'save': save, 'bytes': save and k >= 4}})
        out.append(('ownsave', {'list': items}))
        items = [{'map': {'run': {'str': ps[0]}, 'save': False}}, {'map': {'run': {'list': ps[1:]}, 'save': True}}]
        out.append(('ownsave2', {'list': items}))
    return out


def serial_cases(env):
    cases = []
    maxn = 4
    for n in range(1, maxn + 1):
        for vi, codes in enumerate(itertools.product(CODES, repeat=n)):
            ps = mk_procs(codes, vi)
            for si, (shape, cfg) in enumerate(serial_shapes(ps, n)):
                step = 'cmd' if (vi + si) % 2 == 0 else 'shell'
                if n <= 2:
                    steps = ['cmd', 'shell']
                else:
                    steps = [step]
                for st in steps:
                    cases.append({'kind': 'serial', 'step': st, 'shape': shape, 'n': n, 'cfg': cfg})
    return cases


def fault_vectors(n, faults):
    """One fault at each position of n commands; the others exit 0 - and, so that a loop that wrongly goes
    on is seen twice (a marker *and* a second failure), a variant whose last command exits 1."""
    for pos in range(n):
        for f in faults:
            v = [0] * n
            v[pos] = f
            yield pos, f, v
            if pos < n - 1:
                w = list(v)
                w[n - 1] = 1
                yield pos, f, w


def serial_fault_cases(env):
    """Directed: a signal death / an unstartable command at each position (first, middle, last) of 1-4
    commands x every configuration shape x cmd (all faults) and shell (signals, missing cwd)."""
    cases = []
    for st, faults in (('cmd', FAULTS_EXEC), ('shell', FAULTS_SHELL)):
        for n in range(1, 5):
            for vi, (pos, f, v) in enumerate(fault_vectors(n, faults)):
                ps = mk_procs(v, vi + 1)
                for shape, cfg in serial_shapes(ps, n):
                    cases.append({'kind': 'serial', 'step': st, 'shape': shape, 'n': n, 'cfg': norm_cfg(cfg),
                                  'fault': fault_name(f), 'pos': pos_name(pos, n)})
    return dedup(cases)


def lane_partitions(n):
    """Ways of cutting n processes into consecutive lanes (compositions of n)."""
    if n == 0:
        yield []
        return
    for first in range(1, n + 1):
        for rest in lane_partitions(n - first):
            yield [first] + rest


def async_shapes(lanes, salt):
    """lanes: list of lists of P. Yields (shape, cfg)."""
    def entry(l):
        return {'str': l[0]} if len(l) == 1 else {'sub': l}
    flat = all(len(l) == 1 for l in lanes)
    out = []
    if len(lanes) == 1 and flat:
        out.append(('str', {'str': lanes[0][0]}))
        out.append(('map1/save', {'map': {'run': {'str': lanes[0][0]}, 'save': True}}))
    out.append(('toplist' if flat else 'toplist+sub', {'list': [entry(l) for l in lanes]}))
    for save, byt in ((False, False), (True, False), (True, True)):
        out.append((f'maprun/save={save}/bytes={byt}',
                    {'map': {'run': {'list': [entry(l) for l in lanes]}, 'save': save, 'bytes': byt}}))
    if len(lanes) >= 2:
        h = len(lanes) // 2
        items = [{'map': {'run': {'list': [entry(l) for l in lanes[:h]]}, 'save': True}}]
        for k, l in enumerate(lanes[h:]):
            if k % 2 == 0:
                items.append(entry(l))
            else:
                items.append({'map': {'run': {'list': [entry(l)]}, 'save': salt % 2 == 0}})
        out.append(('mixed', {'list': items}))
        # a one-element sub-list is also a serial lane
        items = [({'sub': l} if k == 0 else entry(l)) for k, l in enumerate(lanes)]
        out.append(('toplist+sub1', {'list': items}))
        # every lane its own map with its own save flag
        items = [{'map': {'run': {'list': [entry(l)]}, 'save': (k + salt) % 2 == 0}} for k, l in enumerate(lanes)]
        out.append(('ownsave', {'list': items}))
    return out


def schedules(lens, full):
    """Completion schedules for lanes of the given lengths: every lane permutation, played
    round-robin (interleaves the sub-lists) and lane-major (one lane after the other)."""
    idx = list(range(len(lens)))
    perms = list(itertools.permutations(idx))
    out = []
    for p in perms:
        rr = list(p) * max(lens)
        out.append(rr)
        if max(lens) > 1:
            out.append([i for i in p for _ in range(lens[i])])
    if not full:
        out = out[:1] + out[-1:]
    # de-duplicate
    seen, res = set(), []
    for s in out:
        if tuple(s) not in seen:
            seen.add(tuple(s))
            res.append(s)
    return res


def cut(ps, part):
    lanes, k = [], 0
    for ln in part:
        lanes.append(ps[k:k + ln])
        k += ln
    return lanes


def async_cases(env):
    cases = []
    for n in range(1, 5):
        for part in lane_partitions(n):
            nl = len(part)
            for vi, codes in enumerate(itertools.product(CODES, repeat=n)):
                ps = mk_procs(codes, vi)
                lanes = cut(ps, part)
                shapes = async_shapes(lanes, vi)
                scheds = schedules(part, full=True)
                if n <= 2:
                    combos = [(sh, sc) for sh in shapes for sc in scheds]
                elif n == 3:
                    # every schedule; shapes rotate
                    combos = [(shapes[(vi + j) % len(shapes)], sc) for j, sc in enumerate(scheds)]
                    combos += [(sh, scheds[(vi + j) % len(scheds)]) for j, sh in enumerate(shapes)]
                else:
                    combos = [(shapes[(vi + j) % len(shapes)], sc) for j, sc in enumerate(scheds)]
                for j, ((shape, cfg), sched) in enumerate(combos):
                    step = 'cmds' if (vi + j) % 3 else 'shells'
                    cases.append({'kind': 'async', 'step': step, 'shape': shape, 'n': n, 'lanes': nl,
                                  'cfg': cfg, 'sched': sched})
    return cases


def async_fault_cases(env):
    """Directed: a signal death / an unstartable command at each position of every cut of 1-4 commands into
    lanes (top level, and first / middle / last of a serial sub-list) x every shape; the completion schedule
    rotates through the lane permutations. cmds: all faults; shells: signals and missing cwd."""
    cases = []
    j = 0
    for st, faults in (('cmds', FAULTS_EXEC), ('shells', FAULTS_SHELL)):
        for n in range(1, 5):
            for part in lane_partitions(n):
                scheds = schedules(part, full=True)
                for vi, (pos, f, v) in enumerate(fault_vectors(n, faults)):
                    ps = mk_procs(v, vi + 2)
                    lanes = cut(ps, part)
                    # where the fault sits
                    k, where = 0, 'top'
                    for ln in part:
                        if k <= pos < k + ln and ln > 1:
                            where = 'sub:' + pos_name(pos - k, ln)
                        k += ln
                    for shape, cfg in async_shapes(lanes, vi):
                        j += 1
                        cases.append({'kind': 'async', 'step': st, 'shape': shape, 'n': n, 'lanes': len(part),
                                      'cfg': norm_cfg(cfg), 'sched': scheds[j % len(scheds)],
                                      'fault': fault_name(f), 'pos': where})
    return dedup(cases)


def big_output_cases(env):
    """Directed: commands that write more than a pipe buffer (64 KiB) to stdout, stderr or both - with save
    (captured: text / bytes) and without (inherited), exit 0 / non-zero, alone, first or last of a run list /
    of concurrent lanes / of a serial sub-list."""
    cases = []
    line = 'x' * 99 + '\n'
    for vi, (orep, erep) in enumerate(((700, 1), (1, 700), (3000, 3000))):
        for n, pos in ((1, 0), (2, 0), (3, 2)):
            for code in (0, 3):
                ps = mk_procs([0] * n, vi)
                ps[pos].update({'out': line, 'err': 'e ' + line, 'orep': orep, 'erep': erep, 'code': code})
                for si, (shape, cfg) in enumerate(serial_shapes(ps, n)):
                    if shape.split('/')[0] in ('map1', 'runlist', 'expanded', 'flat', 'str'):
                        cases.append({'kind': 'serial', 'step': 'cmd' if (vi + si + n) % 2 else 'shell', 'shape': shape,
                                      'n': n, 'cfg': cfg, 'big': True})
                for part in ([n], [1] * n):
                    lanes = cut(ps, part)
                    scheds = schedules(part, full=True)
                    for si, (shape, cfg) in enumerate(async_shapes(lanes, vi)):
                        if shape.split('/')[0] in ('maprun', 'toplist', 'toplist+sub', 'map1'):
                            cases.append({'kind': 'async', 'step': 'cmds' if (vi + si + n) % 2 else 'shells', 'shape': shape,
                                          'n': n, 'lanes': len(part), 'cfg': cfg, 'sched': scheds[(vi + si) % len(scheds)],
                                          'big': True})
    return dedup(cases)


def fault_name(f):
    if isinstance(f, str):
        return 'unstartable:' + f
    return 'signal' if f < 0 else ('exit>0' if f > 0 else 'none')


def pos_name(pos, n):
    if n == 1:
        return 'only'
    return 'first' if pos == 0 else ('last' if pos == n - 1 else 'middle')


def dedup(cases):
    seen, out = set(), []
    for c in cases:
        k = json.dumps([c['step'], c['cfg'], c.get('sched')], sort_keys=True)
        if k not in seen:
            seen.add(k)
            out.append(c)
    return out


def rnd_outcome(rng, shell):
    r = rng.random()
    if r < 0.45:
        return 0
    if r < 0.65:
        return rng.choice((1, 2, 3, 255))
    if r < 0.82:
        return rng.choice((-9, -15, -2, -1))
    return 'cwd' if shell else rng.choice(EXEC_FAULTS)


def random_cases(env, count):
    """Random stream: random lane structure, outcomes (exit 0 / positive / signal / unstartable, any number of
    them), outputs, settings and arbitrary schedules (repeats, out-of-range lanes: the model ignores what
    cannot happen, the drain finishes)."""
    rng = env.rng
    cases = []
    for _ in range(count):
        n = rng.randint(1, 4)
        serial = rng.random() < 0.4
        step = rng.choice(('cmd', 'shell')) if serial else rng.choice(('cmds', 'shells'))
        shell = step in ('shell', 'shells')
        ps = []
        for k in range(n):
            o = rnd_outcome(rng, shell)
            p = mk_proc(k + 1, o, 0, 0)
            if not isinstance(o, str):
                p['out'], p['err'] = rng.choice(OUTS), rng.choice(OUTS)
            ps.append(p)
        if serial:
            shape, cfg = rng.choice(serial_shapes(ps, n))
            cases.append({'kind': 'serial', 'step': step, 'shape': 'rnd:' + shape, 'n': n, 'cfg': norm_cfg(cfg)})
        else:
            part = rng.choice(list(lane_partitions(n)))
            lanes = cut(ps, part)
            shape, cfg = rng.choice(async_shapes(lanes, rng.randint(0, 9)))
            sched = [rng.randint(0, len(part)) for _ in range(rng.randint(0, 2 * n))]
            cases.append({'kind': 'async', 'step': step, 'shape': 'rnd:' + shape, 'n': n,
                          'lanes': len(part), 'cfg': norm_cfg(cfg), 'sched': sched})
    return cases


# --------------------------------------------------------------------------
# model side
# --------------------------------------------------------------------------

def model_requests(case):
    if case['kind'] == 'serial':
        return ('cmd.serial', {'cmds': impl.serial_model_cmds(case['cfg'])})
    return ('cmd.async', {'cmds': impl.async_model_cmds(case['cfg']), 'sched': case['sched']})


def case_procs(case):
    return impl.all_procs_serial(case['cfg']) if case['kind'] == 'serial' else impl.all_procs_async(case['cfg'])


def model_view(case, m):
    """Bring the model's observation to the shape of the implementation's."""
    procs = case_procs(case)

    def res(r):
        return {**r, 'cmd_ok': True}

    def err(e, exit_type):
        if 'spawn' in e:
            return {'spawn': impl.spawn_label(procs[e['id']]), 'type': impl.KIND_TYPE[e['spawn']]}
        return {**e, 'type': exit_type, 'cmd_ok': True}

    def item(i):
        # the implementation side renders a result as its fields and an exception as {'exc': ...}
        return res(i['res']) if 'res' in i else {'exc': err(i['exc'], None)}
    if case['kind'] == 'serial':
        e = None
        if m['err'] is not None:
            e = err(m['err'], 'subprocess.CalledProcessError')
        co = m['cmdOut']
        if co is not None:
            co = {'single': res(co['single'])} if 'single' in co else {'many': [res(r) for r in co['many']]}
        return {'started': m['started'], 'err': e, 'results': [res(r) for r in m['results']], 'cmdOut': co}
    co = m['cmdOut']
    if co is not None:
        co = [({'res': item(s['one'])} if 'one' in s else {'sub': [item(i) for i in s['sub']]}) for s in co]
    errors = [err(e, 'pypyr.errors.SubprocessError') for e in m['errors']]
    return {'trace': impl.canon_trace(m['trace']), 'started': sorted(m['started']),
            'err_type': 'pypyr.errors.MultiError' if errors else None, 'errors': errors, 'cmdOut': co,
            'running_at_return': m['running'], 'anomalies': []}


def impl_view(case, o):
    o = dict(o)
    o.pop('log', None)
    return o


# --------------------------------------------------------------------------
# monitors (from the property text; independent of the Lean model)
# --------------------------------------------------------------------------

def py_rstrip(s):
    return s.rstrip()


def expected_streams(p, text):
    if text:
        return py_rstrip(impl.eff_out(p)), py_rstrip(impl.eff_err(p))
    return impl.eff_out(p), impl.eff_err(p)


def stream_text(o):
    if o is None:
        return None
    return o.get('t', o.get('b'))


def failed(p):
    """Did not exit 0: a non-zero status - of either sign - or could not be started."""
    return bool(p.get('spawn')) or p['code'] != 0


def attempted_prefix(ps):
    """Serial execution: declaration prefix up to and including the first command that did not exit 0."""
    out = []
    for p in ps:
        out.append(p)
        if failed(p):
            break
    return out


def actually_run(ps):
    """... of which the ones for which a process existed."""
    return [p for p in attempted_prefix(ps) if not p.get('spawn')]


def fault_of(p):
    if p.get('spawn'):
        return 'unstartable:' + p['spawn']
    return 'signal' if p['code'] < 0 else ('exit>0' if p['code'] > 0 else 'none')


def failure_key(p):
    """What the error for a failed command must carry."""
    if p.get('spawn'):
        return ('spawn', impl.spawn_label(p), impl.KIND_TYPE[impl.SPAWN_KIND[p['spawn']]])
    return ('exit', p['id'], p['code'])


def error_key(e):
    if 'spawn' in e:
        return ('spawn', e['spawn'], e.get('type'))
    if 'id' in e:
        return ('exit', e['id'], e.get('code'))
    return ('other', e.get('type'), e.get('msg'))


def check_results(got, want, where):
    """got: result observations; want: [(P, text)] - one result per command run, in order."""
    bad = []
    if [r.get('id') for r in got] != [p['id'] for p, _ in want]:
        bad.append((where + ':results-not-one-per-command-run-in-declaration-order',
                    f"results for {[r.get('id', r) for r in got]}, commands run with save {[p['id'] for p, _ in want]}"))
        return bad
    for r, (p, text) in zip(got, want):
        so, se = expected_streams(p, text)
        if r['code'] != p['code'] or stream_text(r['stdout']) != so or stream_text(r['stderr']) != se:
            bad.append((where + ':result-content', f'command {p["id"]}: got {r}, scripted code={p["code"]} out={so!r} err={se!r}'))
        elif not r.get('cmd_ok'):
            bad.append((where + ':result-cmd', f'command {p["id"]}: result carries another command'))
    return bad


def monitor_hang(case, o):
    """Every step returns (successfully or with its error) once the commands it started have exited."""
    h = o['hang']
    return [(case['kind'] + ':step-never-returned',
             f"the step had not returned {h['after_s']} s after it was called (killed); commands started "
             f"{h['started']}, finished {h['finished']}")]


def monitor_serial(case, o):
    decls = impl.serial_decls(case['cfg'])
    procs = [p for p, _, _ in decls]
    att = attempted_prefix(procs)
    run = actually_run(procs)
    bad = []
    if o['started'] != [p['id'] for p in run]:
        bad.append(('serial:started-not-declaration-prefix-through-first-failure',
                    f"started {o['started']}, declaration {[(p['id'], fault_of(p), p['code']) for p in procs]}"))
    by_id = {p['id']: p for p in procs}
    # success iff every command it ran exited 0 - judged on what it did run (marker files) and on what it had
    # to attempt (a command that cannot be started has not exited 0 either)
    ran_nonzero = [(i, by_id[i]['code']) for i in o['started'] if i in by_id and by_id[i]['code'] != 0]
    should_fail = any(failed(p) for p in att)
    if (o['err'] is None) == should_fail or (o['err'] is None and ran_nonzero):
        bad.append(('serial:success-iff-all-exit-0', f"error={o['err']}; commands run that exited non-zero {ran_nonzero}; "
                    f"outcomes of the commands to attempt = {[(p['id'], fault_of(p), p['code']) for p in att]}"))
    if o['err'] is not None:
        ff = next((p for p in procs if failed(p)), None)
        if ff is None or error_key(o['err']) != failure_key(ff) or \
                ('id' in o['err'] and (not o['err'].get('cmd_ok') or o['err'].get('type') != 'subprocess.CalledProcessError')):
            bad.append(('serial:error-carries-first-failing-command-and-code',
                        f"error {o['err']}, first failure {ff and failure_key(ff)}"))
    want = [(p, t) for (p, s, t) in decls if s and p['id'] in o['started'] and not p.get('spawn')]
    bad += check_results(o['results'], want, 'serial')
    return bad


def monitor_async(case, o):
    lanes = impl.async_lanes(case['cfg'])
    bad = []
    for a in o['anomalies']:
        if a[0] == 'not_started_concurrently':
            bad.append(('async:top-level-entries-not-all-started-concurrently', f'not running while the others wait: {a[1]}'))
        elif a[0] == 'unexpected_start':
            bad.append(('async:command-started-after-failure-in-serial-sub-list', f'command {a[1]} started'))
        elif a[0] == 'never_happened' and a[1][0] == 'all_started':
            pass    # reported as not_started_concurrently
        elif a[0] == 'step_finished_before':
            what = a[1]
            clause = {'all_started': 'async:returned-before-every-top-level-entry-had-started',
                      'started': 'async:returned-before-the-next-command-of-a-sub-list-had-started',
                      'done': 'async:returned-before-every-started-command-finished',
                      'reaped': 'async:returned-before-every-started-command-finished'}.get(what[0], 'async:protocol:' + a[0])
            bad.append((clause, f'the step returned while the harness was still waiting for {what}'))
        else:
            bad.append(('async:protocol:' + a[0], str(a[1:])))
    if o.get('running_at_return'):
        bad.append(('async:returned-before-every-started-command-finished',
                    f"still running when the step returned: {o['running_at_return']}"))
    want_started, want_fail, want_res, want_exc = [], [], [], []
    for ps, save, text in lanes:
        att = attempted_prefix(ps)
        run = actually_run(ps)
        want_started += [p['id'] for p in run]
        want_fail += [failure_key(p) for p in att if failed(p)]
        if save:
            want_res += [(p, text) for p in run]
            want_exc += [failure_key(p)[:2] for p in att if p.get('spawn')]
    if o['started'] != sorted(want_started):
        bad.append(('async:started-set', f"started {o['started']}, expected {sorted(want_started)}"))
    got_fail = sorted(error_key(e) for e in o['errors'])
    if any(k[0] == 'other' for k in got_fail):
        bad.append(('async:unexpected-error', str([e for e in o['errors'] if error_key(e)[0] == 'other'])[:300]))
    elif got_fail != sorted(want_fail) or (o['err_type'] is None) != (not want_fail) or \
            any('id' in e and not e.get('cmd_ok') for e in o['errors']):
        bad.append(('async:aggregate-error-lists-every-failure',
                    f"error {o['err_type']} lists {got_fail}, failures {sorted(want_fail)}"))
    elif want_fail and o['err_type'] != 'pypyr.errors.MultiError':
        bad.append(('async:aggregate-error-type', str(o['err_type'])))
    co = o['cmdOut']
    if isinstance(co, dict):
        bad.append(('async:cmdOut-shape', str(co)))
    else:
        flat = []
        for s in co or []:
            flat += [s['res']] if 'res' in s else list(s['sub'])
        results = [r for r in flat if 'exc' not in r]
        excs = [r['exc'] for r in flat if 'exc' in r]
        if any('id' not in r for r in results):
            bad.append(('async:cmdOut-holds-non-result', str(flat)[:300]))
        else:
            bad += check_results(results, want_res, 'async')
        # anything else in cmdOut can only be the exception of a command that could not be started
        if sorted(error_key(e)[:2] for e in excs) != sorted(want_exc):
            bad.append(('async:cmdOut-exception-entries', f'{excs}, unstartable commands of save commands {want_exc}'))
    return bad


def case_fault(case):
    """Kinds of failure in the case, for counters and signatures."""
    if case['kind'] == 'serial':
        fs = [fault_of(p) for p in attempted_prefix([p for p, _, _ in impl.serial_decls(case['cfg'])]) if failed(p)]
    else:
        fs = [fault_of(p) for ps, _, _ in impl.async_lanes(case['cfg']) for p in attempted_prefix(ps) if failed(p)]
    return '+'.join(sorted(set(fs))) or 'none'


# --------------------------------------------------------------------------
# run
# --------------------------------------------------------------------------

def execute(env, res, cases):
    """Model first (one batch), then the implementation in worker processes, then compare + judge."""
    ctx = multiprocessing.get_context('fork')
    nproc = max(2, min(14, (os.cpu_count() or 4) - 2))
    impl.begin_run()
    pool = ctx.Pool(nproc, initializer=impl.worker_init)   # before the driver exists: no inherited pipes
    try:
        models = env.driver.ask_many([model_requests(c) for c in cases])
        jobs = []
        for i, (c, m) in enumerate(zip(cases, models)):
            if isinstance(m, common.Reject):
                res.count('rejected')
                continue
            jobs.append((i, c, m.get('trace')))
        got = {}
        nviol = 0
        it = pool.imap_unordered(impl.worker, jobs, chunksize=1)
        for _ in range(len(jobs)):
            try:
                # every job ends by itself (impl.isolated kills a case at its deadline): this is a backstop
                idx, o = it.next(timeout=impl.CASE_DEADLINE_S * 4 + 60)
            except multiprocessing.TimeoutError:
                raise common.Infra('C17: no case finished for too long although each has a deadline')
            if 'infra' in o:
                raise common.Infra(f'C17 case {idx}: {o["infra"]}')
            got[idx] = o
            nviol += judge(res, cases[idx], models[idx], o)
            if nviol >= 40:       # enough failing inputs; do not sit through thousands of timeouts
                res.extra['stopped_early'] = f'{nviol} violations after {len(got)} of {len(jobs)} cases'
                break
    finally:
        pool.terminate()
        pool.join()
        impl.end_run()


def judge(res, c, m, o):
    mv = model_view(c, m)
    iv = impl_view(c, o)
    failing = bool(mv.get('err') or mv.get('errors'))
    nstart = len(mv['started'])
    fault = case_fault(c)
    res.case(c, nontrivial=True)
    res.count(f"{c['kind']}:{c['step']}")
    res.count('shape:' + c['shape'].split('/')[0])
    res.count('outcome:' + ('error' if failing else 'ok'))
    res.count(f'started:{nstart}/{c["n"]}')
    res.count(f"failure:{c['kind']}:{fault}")
    if c.get('big'):
        res.count(f"big-output:{c['kind']}")
    if 'pos' in c:
        res.count(f"faultpos:{c['kind']}:{c['fault']}@{c['pos']}")
    if c['kind'] == 'async':
        res.count(f"lanes:{c['lanes']}")
    if 'hang' in o:
        bad = monitor_hang(c, o)
    else:
        bad = monitor_serial(c, o) if c['kind'] == 'serial' else monitor_async(c, o)
    for clause, detail in bad:
        res.violation(c, f'{clause}: {detail}', signature={'step': c['step'], 'clause': clause, 'failure': fault},
                      impl=iv)
    if mv != iv:
        res.mismatch(c, mv, iv)
    return len(bad)


def stratified(rng, cases, key, per):
    groups = {}
    for c in cases:
        groups.setdefault(key(c), []).append(c)
    out = []
    for k in sorted(groups):
        g = groups[k]
        out += rng.sample(g, min(len(g), per))
    return out


def run(env, res):
    res.rule = ('directed A: every exit-code vector over {0,1,3} for 1-4 commands x configuration shapes (single string, '
                'expanded map, flat list, list of maps with own save flags, run: list, mixed lists, nested serial '
                'sub-lists) x save off/text/bytes x cmd/shell; for cmds/shells every cut of 1-4 commands into lanes x '
                'every lane permutation as completion schedule (round-robin and lane-major). directed B: one signal '
                'death (SIGKILL/SIGTERM/SIGINT: negative return code) or one unstartable command (no such executable, '
                'not executable, unsplittable instruction, missing cwd) at each position of 1-4 commands (top level; '
                'first/middle/last of run lists and serial sub-lists) x the same shapes, sync and async, with and '
                'without a later exit 1. quick = seeded sample of A + sample of B stratified by (failure kind, '
                'position); then a random stream with any mix of outcomes and arbitrary schedules. Every case runs '
                'real subprocesses (marker files prove which commands started); non-trivial = all. directed C: a '
                'command writing more than a pipe buffer (70 KB / 300 KB) to stdout, stderr or both x save text / '
                'bytes / off x position x sync and async shapes. Each case runs in its own process group under a '
                '25 s deadline: a step that does not return is a violation (step-never-returned) with the case as '
                'replay; for cmds/shells the commands still running at the moment the step returns are observed '
                '(must be none).')
    ser, asy = serial_cases(env), async_cases(env)
    fser, fasy = serial_fault_cases(env), async_fault_cases(env)
    big = big_output_cases(env)
    res.extra['directed_set'] = {'serial': len(ser), 'async': len(asy), 'serial_faults': len(fser),
                                 'async_faults': len(fasy), 'big_outputs': len(big)}
    if env.quick:
        def allzero(c):
            return all(not failed(p) for p in case_procs(c).values())
        zs, za = [c for c in ser if allzero(c)], [c for c in asy if allzero(c)]
        ser = env.rng.sample(zs, min(len(zs), 30)) + env.rng.sample(ser, min(len(ser), 150))
        asy = env.rng.sample(za, min(len(za), 30)) + env.rng.sample(asy, min(len(asy), 140))
        key = lambda c: (c['step'], c['fault'], c['pos'])
        fser = stratified(env.rng, fser, key, 12)
        fasy = stratified(env.rng, fasy, key, 8)
        rnd = random_cases(env, 150)
        big = stratified(env.rng, big, lambda c: (c['kind'], c['shape'].split('/')[0]), 3)
    else:
        rnd = random_cases(env, 1200)
    execute(env, res, fser + fasy + big + ser + asy + rnd)


def replay(env, res, case):
    c = case.get('case', case)
    if isinstance(c, dict) and 'first_diverging_case' in c:
        c = c['first_diverging_case']['case']
    execute(env, res, [c])
