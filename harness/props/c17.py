"""C17 - command steps report exit status faithfully and in declaration order.

Model: lean/PypyrModel/Cmd.lean (`cmd.serial`, `cmd.async` driver ops); theorems Props/C17.lean.
Implementation: the real steps pypyr.steps.{cmd,shell,cmds,shells} on real subprocesses under an
explicit release protocol (harness/impl_c17.py). Monitors below are written from the property text
and look only at the case and at what the implementation did.
"""
from __future__ import annotations

import itertools
import multiprocessing
import os

from .. import common
from .. import impl_c17 as impl

LEAN_MODULES = ['Props.C17']
TRUSTED = ['harness/props/c17.py, harness/impl_c17.py (child script, release protocol, monitors, canonicaliser)',
           'CPython subprocess / asyncio subprocess / shlex, /bin/sh, OS process exit status']
ASSUMPTIONS = [
    'a spawned command is characterised by its exit code and the ASCII text it writes; signals, negative '
    'return codes, unspawnable executables, cwd, output redirection to files and non-default encodings are '
    'outside the model',
    'OS scheduling of concurrent commands is replaced by the release protocol: completion order = the order in '
    'which the harness lets the processes exit (each exit is awaited, incl. reaping, before the next release)',
]

OUTS = ['', 'out', 'two words\n', '  padded  \n\n', 'l1\nl2\n', ' \n', 'x=1 "q"\t\n']
CODES = (0, 1, 3)


# --------------------------------------------------------------------------
# case generation
# --------------------------------------------------------------------------

def mk_procs(codes, salt):
    ps = []
    for k, c in enumerate(codes):
        ps.append({'id': k + 1, 'code': c, 'out': OUTS[(salt + 2 * k) % len(OUTS)],
                   'err': OUTS[(salt + 3 * k + 1) % len(OUTS)]})
    return ps


def serial_shapes(ps, n):
    """(shape name, cfg) for a list of processes."""
    out = []
    if n == 1:
        out.append(('str', {'str': ps[0]}))
        for save, byt in ((False, False), (True, False), (True, True)):
            out.append((f'map1/save={save}/bytes={byt}',
                        {'map': {'run': {'str': ps[0]}, 'save': save, 'bytes': byt}}))
    out.append(('flat', {'list': [{'str': p} for p in ps]}))
    for save in (False, True):
        out.append((f'expanded/save={save}',
                    {'list': [{'map': {'run': {'str': p}, 'save': save}} for p in ps]}))
    for save, byt in ((False, False), (True, False), (True, True)):
        out.append((f'runlist/save={save}/bytes={byt}', {'map': {'run': {'list': list(ps)}, 'save': save, 'bytes': byt}}))
    if n >= 2:
        h = (n + 1) // 2
        items = [{'map': {'run': {'list': ps[:h]}, 'save': True}}]
        for k, p in enumerate(ps[h:]):
            items.append({'str': p} if k % 2 == 0 else {'map': {'run': {'str': p}, 'save': True, 'bytes': True}})
        out.append(('mixed', {'list': items}))
        items = [{'str': ps[0]}, {'map': {'run': {'list': ps[1:]}, 'save': True}}]
        out.append(('mixed2', {'list': items}))
    return out


def serial_cases(env):
    cases = []
    maxn = 4
    for n in range(1, maxn + 1):
        for vi, codes in enumerate(itertools.product(CODES, repeat=n)):
            ps = mk_procs(codes, vi)
            for si, (shape, cfg) in enumerate(serial_shapes(ps, n)):
                step = 'cmd' if (vi + si) % 2 == 0 else 'shell'
                if n <= 2:
                    steps = ['cmd', 'shell']
                else:
                    steps = [step]
                for st in steps:
                    cases.append({'kind': 'serial', 'step': st, 'shape': shape, 'n': n, 'cfg': cfg})
    return cases


def lane_partitions(n):
    """Ways of cutting n processes into consecutive lanes (compositions of n)."""
    if n == 0:
        yield []
        return
    for first in range(1, n + 1):
        for rest in lane_partitions(n - first):
            yield [first] + rest


def async_shapes(lanes, salt):
    """lanes: list of lists of P. Yields (shape, cfg)."""
    def entry(l):
        return {'str': l[0]} if len(l) == 1 else {'sub': l}
    flat = all(len(l) == 1 for l in lanes)
    out = []
    if len(lanes) == 1 and flat:
        out.append(('str', {'str': lanes[0][0]}))
        out.append(('map1/save', {'map': {'run': {'str': lanes[0][0]}, 'save': True}}))
    out.append(('toplist' if flat else 'toplist+sub', {'list': [entry(l) for l in lanes]}))
    for save, byt in ((False, False), (True, False), (True, True)):
        out.append((f'maprun/save={save}/bytes={byt}',
                    {'map': {'run': {'list': [entry(l) for l in lanes]}, 'save': save, 'bytes': byt}}))
    if len(lanes) >= 2:
        h = len(lanes) // 2
        items = [{'map': {'run': {'list': [entry(l) for l in lanes[:h]]}, 'save': True}}]
        for k, l in enumerate(lanes[h:]):
            if k % 2 == 0:
                items.append(entry(l))
            else:
                items.append({'map': {'run': {'list': [entry(l)]}, 'save': salt % 2 == 0}})
        out.append(('mixed', {'list': items}))
        # a one-element sub-list is also a serial lane
        items = [({'sub': l} if k == 0 else entry(l)) for k, l in enumerate(lanes)]
        out.append(('toplist+sub1', {'list': items}))
    return out


def schedules(lens, full):
    """Completion schedules for lanes of the given lengths: every lane permutation, played
    round-robin (interleaves the sub-lists) and lane-major (one lane after the other)."""
    idx = list(range(len(lens)))
    perms = list(itertools.permutations(idx))
    out = []
    for p in perms:
        rr = list(p) * max(lens)
        out.append(rr)
        if max(lens) > 1:
            out.append([i for i in p for _ in range(lens[i])])
    if not full:
        out = out[:1] + out[-1:]
    # de-duplicate
    seen, res = set(), []
    for s in out:
        if tuple(s) not in seen:
            seen.add(tuple(s))
            res.append(s)
    return res


def async_cases(env):
    cases = []
    for n in range(1, 5):
        for part in lane_partitions(n):
            nl = len(part)
            for vi, codes in enumerate(itertools.product(CODES, repeat=n)):
                ps = mk_procs(codes, vi)
                lanes, k = [], 0
                for ln in part:
                    lanes.append(ps[k:k + ln])
                    k += ln
                shapes = async_shapes(lanes, vi)
                scheds = schedules(part, full=True)
                if n <= 2:
                    combos = [(sh, sc) for sh in shapes for sc in scheds]
                elif n == 3:
                    # every schedule; shapes rotate
                    combos = [(shapes[(vi + j) % len(shapes)], sc) for j, sc in enumerate(scheds)]
                    combos += [(sh, scheds[(vi + j) % len(scheds)]) for j, sh in enumerate(shapes)]
                else:
                    combos = [(shapes[(vi + j) % len(shapes)], sc) for j, sc in enumerate(scheds)]
                for j, ((shape, cfg), sched) in enumerate(combos):
                    step = 'cmds' if (vi + j) % 3 else 'shells'
                    cases.append({'kind': 'async', 'step': step, 'shape': shape, 'n': n, 'lanes': nl,
                                  'cfg': cfg, 'sched': sched})
    return cases


def random_cases(env, count):
    """Random stream: random lane structure, codes, outputs, settings and arbitrary schedules
    (repeats, out-of-range lanes: the model ignores what cannot happen, the drain finishes)."""
    rng = env.rng
    cases = []
    for _ in range(count):
        n = rng.randint(1, 4)
        ps = [{'id': k + 1, 'code': rng.choice((0, 0, 1, 3, 2, 255)), 'out': rng.choice(OUTS), 'err': rng.choice(OUTS)}
              for k in range(n)]
        if rng.random() < 0.4:
            shapes = serial_shapes(ps, n)
            shape, cfg = rng.choice(shapes)
            cases.append({'kind': 'serial', 'step': rng.choice(('cmd', 'shell')), 'shape': 'rnd:' + shape, 'n': n, 'cfg': cfg})
        else:
            part = rng.choice(list(lane_partitions(n)))
            lanes, k = [], 0
            for ln in part:
                lanes.append(ps[k:k + ln])
                k += ln
            shape, cfg = rng.choice(async_shapes(lanes, rng.randint(0, 9)))
            sched = [rng.randint(0, len(part)) for _ in range(rng.randint(0, 2 * n))]
            cases.append({'kind': 'async', 'step': rng.choice(('cmds', 'shells')), 'shape': 'rnd:' + shape, 'n': n,
                          'lanes': len(part), 'cfg': cfg, 'sched': sched})
    return cases


# --------------------------------------------------------------------------
# model side
# --------------------------------------------------------------------------

def model_requests(case):
    if case['kind'] == 'serial':
        return ('cmd.serial', {'cmds': impl.serial_model_cmds(case['cfg'])})
    return ('cmd.async', {'cmds': impl.async_model_cmds(case['cfg']), 'sched': case['sched']})


def model_view(case, m):
    """Bring the model's observation to the shape of the implementation's."""
    def res(r):
        return {**r, 'cmd_ok': True}
    if case['kind'] == 'serial':
        err = None
        if m['err'] is not None:
            err = {**m['err'], 'type': 'subprocess.CalledProcessError', 'cmd_ok': True}
        co = m['cmdOut']
        if co is not None:
            co = {'single': res(co['single'])} if 'single' in co else {'many': [res(r) for r in co['many']]}
        return {'started': m['started'], 'err': err, 'results': [res(r) for r in m['results']], 'cmdOut': co}
    co = m['cmdOut']
    if co is not None:
        co = [({'res': res(s['res'])} if 'res' in s else {'sub': [res(r) for r in s['sub']]}) for s in co]
    errors = [{**e, 'type': 'pypyr.errors.SubprocessError', 'cmd_ok': True} for e in m['errors']]
    return {'trace': impl.canon_trace(m['trace']), 'started': sorted(m['started']),
            'err_type': 'pypyr.errors.MultiError' if errors else None, 'errors': errors, 'cmdOut': co,
            'anomalies': []}


def impl_view(case, o):
    o = dict(o)
    o.pop('log', None)
    return o


# --------------------------------------------------------------------------
# monitors (from the property text; independent of the Lean model)
# --------------------------------------------------------------------------

def py_rstrip(s):
    return s.rstrip()


def expected_streams(p, text):
    if text:
        return py_rstrip(p['out']), py_rstrip(p['err'])
    return p['out'], p['err']


def stream_text(o):
    if o is None:
        return None
    return o.get('t', o.get('b'))


def prefix_through_first_failure(ps):
    out = []
    for p in ps:
        out.append(p)
        if p['code'] != 0:
            break
    return out


def check_results(got, want, where):
    """got: result observations; want: [(P, text)] - one result per command run, in order."""
    bad = []
    if [r.get('id') for r in got] != [p['id'] for p, _ in want]:
        bad.append((where + ':results-not-one-per-command-run-in-declaration-order',
                    f"results for {[r.get('id', r) for r in got]}, commands run with save {[p['id'] for p, _ in want]}"))
        return bad
    for r, (p, text) in zip(got, want):
        so, se = expected_streams(p, text)
        if r['code'] != p['code'] or stream_text(r['stdout']) != so or stream_text(r['stderr']) != se:
            bad.append((where + ':result-content', f'command {p["id"]}: got {r}, scripted code={p["code"]} out={so!r} err={se!r}'))
        elif not r.get('cmd_ok'):
            bad.append((where + ':result-cmd', f'command {p["id"]}: result carries another command'))
    return bad


def monitor_serial(case, o):
    decls = impl.serial_decls(case['cfg'])
    procs = [p for p, _, _ in decls]
    run = prefix_through_first_failure(procs)
    bad = []
    if o['started'] != [p['id'] for p in run]:
        bad.append(('serial:started-not-declaration-prefix-through-first-failure',
                    f"started {o['started']}, declaration {[(p['id'], p['code']) for p in procs]}"))
    by_id = {p['id']: p for p in procs}
    ran_all_zero = all(by_id[i]['code'] == 0 for i in o['started'] if i in by_id)
    if (o['err'] is None) != ran_all_zero:
        bad.append(('serial:success-iff-all-exit-0', f"error={o['err']} but exit codes of commands run = "
                    f"{[by_id[i]['code'] for i in o['started'] if i in by_id]}"))
    if o['err'] is not None:
        ff = next((p for p in procs if p['code'] != 0), None)
        if ff is None or o['err'].get('id') != ff['id'] or o['err'].get('code') != ff['code'] or not o['err'].get('cmd_ok'):
            bad.append(('serial:error-carries-first-failing-command-and-code',
                        f"error {o['err']}, first failure {ff and (ff['id'], ff['code'])}"))
    want = [(p, t) for (p, s, t) in decls if s and p['id'] in o['started']]
    bad += check_results(o['results'], want, 'serial')
    return bad


def monitor_async(case, o):
    lanes = impl.async_lanes(case['cfg'])
    bad = []
    for a in o['anomalies']:
        if a[0] == 'not_started_concurrently':
            bad.append(('async:top-level-entries-not-all-started-concurrently', f'not running while the others wait: {a[1]}'))
        elif a[0] == 'unexpected_start':
            bad.append(('async:command-started-after-failure-in-serial-sub-list', f'command {a[1]} started'))
        elif a[0] == 'never_happened' and a[1][0] == 'all_started':
            pass    # reported as not_started_concurrently
        else:
            bad.append(('async:protocol:' + a[0], str(a[1:])))
    want_started, want_fail, want_res = [], [], []
    for ps, save, text in lanes:
        run = prefix_through_first_failure(ps)
        want_started += [p['id'] for p in run]
        want_fail += [(p['id'], p['code']) for p in run if p['code'] != 0]
        if save:
            want_res += [(p, text) for p in run]
    if o['started'] != sorted(want_started):
        bad.append(('async:started-set', f"started {o['started']}, expected {sorted(want_started)}"))
    got_fail = sorted((e.get('id'), e.get('code')) for e in o['errors'] if 'id' in e)
    other = [e for e in o['errors'] if 'id' not in e]
    if other:
        bad.append(('async:unexpected-error', str(other)[:300]))
    elif got_fail != sorted(want_fail) or (o['err_type'] is None) != (not want_fail) or \
            any(not e.get('cmd_ok') for e in o['errors']):
        bad.append(('async:aggregate-error-lists-every-failure',
                    f"error {o['err_type']} lists {got_fail}, failures {sorted(want_fail)}"))
    elif want_fail and o['err_type'] != 'pypyr.errors.MultiError':
        bad.append(('async:aggregate-error-type', str(o['err_type'])))
    co = o['cmdOut']
    if isinstance(co, dict):
        bad.append(('async:cmdOut-shape', str(co)))
    else:
        flat = []
        for s in co or []:
            flat += [s['res']] if 'res' in s else list(s['sub'])
        if any('id' not in r for r in flat):
            bad.append(('async:cmdOut-holds-non-result', str(flat)[:300]))
        else:
            bad += check_results(flat, want_res, 'async')
    return bad


# --------------------------------------------------------------------------
# run
# --------------------------------------------------------------------------

def execute(env, res, cases):
    """Model first (one batch), then the implementation in worker processes, then compare + judge."""
    ctx = multiprocessing.get_context('fork')
    nproc = max(2, min(14, (os.cpu_count() or 4) - 2))
    pool = ctx.Pool(nproc, initializer=impl.worker_init)   # before the driver exists: no inherited pipes
    try:
        models = env.driver.ask_many([model_requests(c) for c in cases])
        jobs = []
        for i, (c, m) in enumerate(zip(cases, models)):
            if isinstance(m, common.Reject):
                res.count('rejected')
                continue
            jobs.append((i, c, m.get('trace')))
        got = {}
        nviol = 0
        for idx, o in pool.imap_unordered(impl.worker, jobs, chunksize=1):
            if 'infra' in o:
                raise common.Infra(f'C17 case {idx}: {o["infra"]}')
            got[idx] = o
            nviol += judge(res, cases[idx], models[idx], o)
            if nviol >= 40:       # enough failing inputs; do not sit through thousands of timeouts
                res.extra['stopped_early'] = f'{nviol} violations after {len(got)} of {len(jobs)} cases'
                break
    finally:
        pool.terminate()
        pool.join()


def judge(res, c, m, o):
    mv, iv = model_view(c, m), impl_view(c, o)
    failing = bool(mv.get('err') or mv.get('errors'))
    nstart = len(mv['started'])
    res.case(c, nontrivial=True)
    res.count(f"{c['kind']}:{c['step']}")
    res.count('shape:' + c['shape'].split('/')[0])
    res.count('outcome:' + ('error' if failing else 'ok'))
    res.count(f'started:{nstart}/{c["n"]}')
    if c['kind'] == 'async':
        res.count(f"lanes:{c['lanes']}")
    bad = monitor_serial(c, o) if c['kind'] == 'serial' else monitor_async(c, o)
    for clause, detail in bad:
        res.violation(c, f'{clause}: {detail}', signature={'step': c['step'], 'clause': clause}, impl=iv)
    if mv != iv:
        res.mismatch(c, mv, iv)
    return len(bad)


def run(env, res):
    res.rule = ('directed: every exit-code vector over {0,1,3} for 1-4 commands x configuration shapes (single string, '
                'expanded map, flat list, list of maps, run: list, mixed lists, nested serial sub-lists) x save '
                'off/text/bytes x cmd/shell; for cmds/shells every cut of 1-4 commands into lanes x every lane '
                'permutation as completion schedule (round-robin and lane-major). quick = seeded sample of that set; '
                'then a random stream with arbitrary schedules. Every case runs real subprocesses; non-trivial = all')
    ser, asy = serial_cases(env), async_cases(env)
    res.extra['directed_set'] = {'serial': len(ser), 'async': len(asy)}
    if env.quick:
        def allzero(c):
            return all(p['code'] == 0 for p in (impl.all_procs_serial(c['cfg']) if c['kind'] == 'serial'
                                                else impl.all_procs_async(c['cfg'])).values())
        zs, za = [c for c in ser if allzero(c)], [c for c in asy if allzero(c)]
        ser = env.rng.sample(zs, min(len(zs), 30)) + env.rng.sample(ser, min(len(ser), 150))
        asy = env.rng.sample(za, min(len(za), 30)) + env.rng.sample(asy, min(len(asy), 140))
        rnd = random_cases(env, 40)
    else:
        rnd = random_cases(env, 400)
    execute(env, res, ser + asy + rnd)


def replay(env, res, case):
    c = case.get('case', case)
    if isinstance(c, dict) and 'first_diverging_case' in c:
        c = c['first_diverging_case']['case']
    execute(env, res, [c])
