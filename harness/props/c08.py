"""C08 — formatting expressions resolve by the documented substitution/recursion rules.

Correspondence of the faithful Lean model (PypyrModel/FmtParse.lean, Format.lean, FormatSpec.lean) with
`Context.get_formatted_value`, `string.Formatter().parse`, `_string.formatter_field_name_split`, plus
monitors that judge the implementation alone (harness/impl_c08.py) and the Lean `Spec.format` as oracle.

SESSION stream: 2+ formatting calls on ONE Context with context updates in between (model: `Format.runCalls`,
PypyrModel/FormatSession.lean, with `!py` assignment expressions at the top level of a call: `Format.evalPyW`).
Monitors from the property text: every `!py` call gives what plain Python `eval(src, dict(context))` gives for the
context as it is at that call (a missing name raises NameError), any call gives what it gives on a new Context with
the same items, `{name}` gives the context value / KeyNotInContextError, no call changes the context. Calls whose
source is outside the modelled sub-language (:= in comprehensions / lambdas) are IMPLEMENTATION-ONLY.
"""
from __future__ import annotations

import hashlib
import multiprocessing
import random
import re

from .. import common
from .. import impl_c08 as I
from ..common import canon

LEAN_MODULES = ['Props.C08']
TRUSTED = [
    'harness/props/c08.py + harness/impl_c08.py (generators, canonicaliser, monitors)',
    'CPython 3.12: _string.formatter_parser / formatter_field_name_split, str.format_map, format(), repr/str/ascii, '
    'json.dumps, eval — modelled, validated by this correspondence',
    'CPython eval(src, dict(context)) as the oracle of "evaluates as Python with context keys as variables" (sessions)',
]
ASSUMPTIONS = [
    'format(value, spec) (Format.formatField, domain predicate Format.specInDomain) is modelled for str / int / bool on the '
    'whole standard mini-language [[fill]align][sign][z][#][0][width][, or _][.precision][type] exactly as '
    'Python/formatter_unicode.c does it: precision truncates a str and is an error on an int, grouping `,` (d / none) and '
    '`_` (d: 3 digits; b o x X: 4 digits) including its interplay with zero padding (`{:08,}` -> 0,001,234), alternate '
    'form `#` for b o x X, the integer types b o x X c n d, `+`/space signs, every error text (Cannot specify \',\' with '
    '\'x\'., Precision not allowed …, Sign not allowed with integer format specifier \'c\', %c arg not in range(0x110000), '
    '…); and the empty spec for every kind. OUTSIDE the domain (rejected by the driver, not compared): any non-empty spec '
    'on a float and the float presentation types e E f F g G % on an int (repr algorithm of floats); a non-ASCII '
    'character anywhere but the fill position; a width or precision of more than 4 digits; type c on a surrogate code '
    'point. Type n is modelled under the C locale for LC_NUMERIC (no grouping; locale.localeconv() is checked at start-up)',
    'str()/repr() of bytes, of sets with 2+ members and of floats outside the dyadic range are outside the domain',
    'attribute access (Format.getAttr): the special-tag objects of pypyr/dsl.py have .value (SicString: its text; PyString: '
    'its source text = common.py_src of the wire expression = Lean PyExpr.src; Jsonify: its payload) and the class '
    'attribute .yaml_tag (!sic / !py / !jsonify); Opaque has .ident; every other name that is a real attribute of a '
    'modelled type (Format.knownAttrs, checked against dir() at start-up: bound methods, int.real, Jsonify.scalar, …) '
    'and every dunder name is rejected (outside the domain); anything else is AttributeError',
    '!py evaluator (PypyrModel/PyEval.lean evalPy, FormatSession.lean evalPyW) - two known inaccuracies, both kept out of '
    'the compared cases by harness/impl_c08.py py_in_domain (asserted in Gen.py_expr, filter + distribution keys '
    'py-domain:* for both streams): (1) `len(…)` is SYNTAX of PyExpr, always the builtin - in Python `len` is a name '
    'resolved in the namespace where a context key `len` (or an assignment expression `(len := …)` of the same '
    'evaluation) wins, so the comment "Context keys win over builtins" in PyEval.lean does not hold for len: no generated '
    'context key / assignment target is named len; (2) Num.add / sub / mul are exact on dyadic rationals and never round '
    'to 53 bits, Python does: no generated !py applies + - * to an operand that can be a float (any name read by an '
    'expression with + - * has a float-free context value; constants are never floats). Comparisons, ==, and/or/not, '
    'len, indexing of floats are exact in both. A read of a builtin name that is not a context key is NameError in the '
    'model and the builtin in Python: not generated in the grammar stream, skipped at comparison in sessions',
    'the id-keyed memo of _get_formatted_iterable is not part of the tree-level models: Props/C09.lean proves it sound '
    '(fmtH_memo_sound: any memo whose entries hold the formatted value of the CURRENT object at their address gives the '
    'memo-free result) as long as no address of a memoised object is re-used while the memo lives — which the code '
    'guarantees by keeping a reference (since /repo 2cfa9de; the lazy stream exercises containers whose members die '
    'during the traversal)',
    'json.dumps TypeError messages are compared by kind only',
    'divergence: the model reports OutOfFuel where the implementation raises RecursionError',
    'sessions: !py with assignment expressions is modelled at the top level of a call (Format.PyW, getEvalString); '
    ':= inside comprehensions / lambdas and nested-scope reads run as IMPLEMENTATION-ONLY calls (distribution keys '
    'session:call:pysrc(implonly)): judged by the monitors against plain Python eval(src, dict(context)), the model '
    'answers `opaque`',
    'session monitors peek at context._pystring_namespace (raw dict slot) only to CONFIRM the cause of a deviation '
    'already established against plain Python',
]

CHUNK = 2500
PARSE_ERRORS = {"Single '}' encountered in format string", "Single '{' encountered in format string",
                "expected '}' before end of string", "unmatched '{' in format spec", "unexpected '{' in field name",
                "end of string while looking for conversion specifier", "expected ':' after conversion specifier"}

DIRECTED_CTX = {'d': [
    ['d', {'d': [['k', 1], [1, 'one'], ['', 'empty'], ['a b', 2], ['n', {'d': [['m', [1, 'x{i}']]]}]]}],
    ['l', [10, 20, '{i}']], ['t', {'t': [1, 2]}], ['s', 'héy'], ['b', {'b': '01ff'}], ['n', None], ['i', 5],
    ['bo', True], ['f', {'f': [3, 1]}], ['set', {'set': [1]}], ['sic', {'sic': 'x{y}'}],
    ['py', {'py': {'op': '+', 'a': {'n': 'i'}, 'b': {'c': 1}}}], ['js', {'jsonify': [1, '{i}']}], ['o', {'o': 3}],
    ['', 'emptykey'], ['neg', -5], ['e', ''], ['r1', '{r2}'], ['r2', 'v{i}'], ['r3', ['{r1}', 'a{r1}', 'a{r1:rf}']],
    ['w', 6], ['sp', '>4'], ['rfk', 'rf'], ['esc', '{{i}}'], ['big', 1234567], ['h', 255], ['ch', 65], ['ffk', 'ff'],
    ['gsp', '012,']]}
DIRECTED = [
    '', 'plain', '{{', '}}', '{{}}', '{{i}}', 'a{{b}}c', '{i}', '{s}', '{l}', '{d}', '{t}', '{n}', '{bo}', '{f}', '{set}', '{o}',
    '{sic}', '{py}', '{js}', '{b}', '{e}', '{e:rf}', '{e:ff}', 'a{e}', '{r1}', '{r1:ff}', '{r1:rf}', 'x{r1}', 'x{r1:rf}',
    'x{r1:ff}', '{r3}', '{r3:rf}', '{r3:ff}', '{r3[1]}', '{r3[2]}', '{esc}', 'x{esc}', '{esc:rf}',
    '{0}', '{}', '{0.a}', '{.a}', '{[0]}', '{zz}', '{d[k]}', '{d[1]}', '{d[zz]}', '{d[2]}', '{d[]}', '{d.k}', '{l[0]}', '{l[2]}',
    '{l[3]}', '{l[k]}', '{l[-1]}', '{t[5]}', '{t[k]}', '{s[0]}', '{s[9]}', '{s[k]}', '{b[0]}', '{b[1]}', '{b[5]}', '{b[k]}',
    '{n[0]}', '{i[0]}', '{bo[0]}', '{f[0]}', '{set[0]}', '{sic[0]}', '{py[0]}', '{js[0]}', '{o[0]}', '{o.ident}', '{o.zz}',
    '{d.zz}', '{l.zz}', '{n.zz}', '{i.zz}', '{sic.zz}', '{d[a b]}', '{d[n][m][1]}', '{d[n][m][1]:rf}', '{d[k]!r}', '{s!a}',
    '{s!r}', '{s!s}', '{s!x}', '{s!}', '{s!:}', '{i!r:>5}', 'a{sic}', 'a{sic!r}', 'a{py}', 'a{py!r}', 'a{js}', 'a{js!r}', 'a{o}',
    'a{o!r}', '{d[k]:{i}}', '{d[k]:{}}', '{d[k]:{0}}', '{i:{d[k]:{i:{i}}}}', '{i:{d[k]:{i}}}', '{i:{i:{{}}}}', '{0}{}', '{}{0}',
    '{i}{}', '{l[00]}', '{l[01]}', '{d[01]}', '{l[1]:{zz}}', '{zz:{yy}}', '{i:{zz}}', '{i!x:{zz}}', '{zz!x}', '{i:{l!x}}',
    '{l[99999999999999999999]}', '{99999999999999999999}', '{i:rf}', '{i:rf3}', '{i:ff>4}', '{s:rf>6}', '{l:rf}', '{l:ff}',
    '{l:rf5}', '{s:{sp}}', '{s:{rfk}}', 'x{r1:{rfk}}', '{i:{w}d}', '{i:x>{w}}', '{s:^{w}}|{i:0{w}}', '{neg:=+{w}}', '{bo:>5}',
    '{bo:d}', '{bo:s}', '{s:d}', '{i:s}', '{n:5}', '{l:5}', '{s:+5}', '{s: 5}', '{s:=5}', '{s:05}', '{neg:05}', '{neg:<05}',
    '{i:zz}', '{s:zz}', '{s:5 }', '{i:>>5}', '{s!r:>8}', '{s!a:>12}', '{d!r}', '{d!s}', '{t!r}', '{l!r}', '{n!r}', '{r1!r}',
    '{r1!r:rf}', '{r1!s}', '{d!r:ff}', '{a} }', '{zz} }', '{i} {', '{i}{zz}', '{zz}{i:q}', '{s:q}{zz}', '{i!x}{zz}',
    '{l[0]x}', '{l[0].}', '{l[', '{l[0]', '{l!', '{l!r', '{l:', '{l:{', '{l!r:', '{l!rx}', '{l!r }', '{ i}', '{i }', '{i:}', '{i!r:}',
    'x{i:{d[k]:{i}}}', 'x{i:{w:{i:{i}}}}', 'x{i:{w:{d[k]}}}', '{i:{w:{d[k]}}}', 'x{s:>{w:{d[k]}}}', '{i:{w}}{i:{d[k]:{w}}}', '{s[0]}{s[1]}{s[2]}', 'é{s}€', '{s:é>6}', '{s:é^7}', '{i:😀<4}',
    # nested specs: rf / ff / the whole spec from the context, second-level fields, positional names, lazy parse errors
    '{r1:{rfk}}', 'x{r1:{ffk}}', '{r1:{ffk}}', '{r1!r:{rfk}}', '{big:{gsp}}', 'x{big:{gsp}}', '{i:{w:>3}}', '{s:>{w}}{i:{bo:0>2}}|',
    '{i:{w:{zz}}}', '{i:{w!x:{zz}}}', '{i:{0}}', '{i:{}{}}', '{i:{w}{}}', '{i:{zz}{}', '{i:{w}{', '{i:>{w}{{}}}', '{s:{{}}}',
    '{i:{w}}}', '{i:{l[9]}}', '{i:{l[k]}}', '{i:{d.k}}', '{i:{w.zz}}', '{i:{w!r}}', '{i:{s!a}}', '{i:{n}}', '{s:{e}}', '{s:{e}{rfk}}',
    # the standard mini-language beyond [[fill]align][sign][0][width][s|d]
    '{big:,}', '{big:_}', '{big:012,}', '{big:015_}', '{big:03,}', '{big:09,}', '{big:010,}', '{big:0=12,}', '{big:<012,}',
    '{h:#x}', '{h:#X}', '{h:#b}', '{h:#o}', '{h:x}', '{h:X}', '{h:o}', '{h:b}', '{h:_b}', '{h:#010_b}', '{h:#_x}', '{h:,x}',
    '{h:,_}', '{h:_,}', '{big:,,}', '{big:__}', '{neg:+,}', '{neg: #x}', '{neg:=+#8x}', '{neg:^#9b}', '{i:+}', '{i: }',
    '{i:.2}', '{i:.2d}', '{i:5.1x}', '{i:.}', '{s:.2}', '{s:.0}', '{s:6.2}', '{s:*^7.2}', '{s:.}', '{s:.2s}', '{s:.2d}',
    '{s:,}', '{s:_}', '{s:,_}', '{s:#}', '{s:z}', '{s:#s}', '{i:z}', '{i:zd}', '{ch:c}', '{ch:5c}', '{ch:05c}', '{ch:<4c}x',
    '{ch:+c}', '{ch:#c}', '{ch:,c}', '{ch:.1c}', '{neg:c}', '{big:c}', '{i:n}', '{big:n}', '{big:,n}', '{big:9n}', '{bo:,}',
    '{bo:#x}', '{bo:c}', '{bo:05}', '{i:e}', '{i:.2f}', '{i:,.1f}', '{f:.2f}', '{f:,}', '{n:,}', '{l:.2}', 'a{big:{w},}',
    '{big:{w}_x}', '{h:#{w}b}', '{s:.{w}}', '{s:{w}.{bo:d}}',
    # attributes of the special-tag objects
    '{sic.value}', '{sic.yaml_tag}', '{py.value}', '{py.yaml_tag}', '{js.value}', '{js.yaml_tag}', '{js.value[1]}',
    '{sic.value[0]}', 'a{sic.value}', '{sic.value:ff}', '{sic.value:rf}', '{i.value}', '{d.value}', '{o.value}', '{o.yaml_tag}',
    '{s.yaml_tag}', '{js.scalar}', '{sic.value!r}', '{py.value!r:>12}', '{js.value!r}', 'x{js.value[1]:rf}', '{sic.value.zz}',
    '{sic.yaml_tag[0]}{py.yaml_tag[1]}',
    # a missing key at a later position: the key-lookup error, whatever surrounds it
    '{i!r:>{w}} {r1:rf}|{zz[0]:>4}{i:q} {', '{i}{s:q}{zz}', '{i:{w}}{zz}{', '{r1:rf}{zz}', '{i!x}{s:=5}{zz.a}{', '{l[9]}{zz}',
    '{i!x:ff}{zz}', '{i:{zz}}{nokey}', '{r1:{rfk}}{zz}}', '{i:{w:{w}}}{zz}', '{i:{w:>3}}{zz}', '{s:{w}}{i:{}}{zz}',
]


def attr_table_check(drv, res):
    """Format.knownAttrs must cover every real attribute name of the modelled Python types."""
    from pypyr.dsl import SicString, PyString, Jsonify
    vals = [None, True, 1, 1.5, 's', b'b', [], (), {}, set(), frozenset(), SicString('x'), PyString('1'), Jsonify(1),
            common.Opaque(1)]
    names = sorted({n for v in vals for n in dir(v)} - {'ident'})
    flags = drv.ask('format.attrs', names=names)
    bad = [n for n, f in zip(names, flags) if f]
    if bad:
        res.mismatch({'kind': 'attr-table'}, 'in domain (model says getattr fails)', bad,
                     'real attribute names the model treats as missing')
    # `value` / `yaml_tag` are modelled: instance / class attribute of the three special tags, of nothing else
    tags = (SicString, PyString, Jsonify)
    wrong = [(type(v).__name__, a) for v in vals for a in ('value', 'yaml_tag') if hasattr(v, a) != isinstance(v, tags)]
    want = {'SicString': '!sic', 'PyString': '!py', 'Jsonify': '!jsonify'}
    wrong += [(t.__name__, t.yaml_tag) for t in tags if t.yaml_tag != want[t.__name__]]
    if wrong:
        res.mismatch({'kind': 'attr-table'}, 'value / yaml_tag on the special tags only', wrong,
                     'Format.getAttr models .value / .yaml_tag on SicString, PyString, Jsonify only')
    # the presentation type `n` is modelled under the C locale for LC_NUMERIC
    import locale
    lc = locale.localeconv()
    if lc.get('thousands_sep') or lc.get('grouping') or lc.get('decimal_point') != '.':
        res.mismatch({'kind': 'locale'}, 'C locale for LC_NUMERIC', {k: lc.get(k) for k in ('thousands_sep', 'grouping', 'decimal_point')},
                     "format type 'n' is modelled without locale grouping")


def case_key(case):
    return hashlib.sha1(canon(case).encode()).hexdigest()


def check_cases(drv, cases, out):
    """Run `cases` through implementation, model and monitors. `out` is a plain dict:
    n, nontrivial (list of hashes), counts, mismatches, violations, samples."""
    reqs, index = [], []
    for ci, c in enumerate(cases):
        k = c['kind']
        if k in ('grammar', 'cyclic', 'malformed', 'directed'):
            reqs.append(('format.fmt', {'ctx': c['ctx'], 'v': c['v']}))
            index.append((ci, 'fmt'))
            if isinstance(c['v'], str):
                reqs.append(('format.spec', {'ctx': c['ctx'], 's': c['v']}))
                index.append((ci, 'spec'))
            if k in ('grammar', 'directed'):
                reqs.append(('format.both', {'ctx': c['ctx'], 'v': c['v']}))
                index.append((ci, 'both'))
        elif k == 'parse':
            reqs.append(('format.parse', {'s': c['s']}))
            index.append((ci, 'parse'))
        elif k == 'split':
            reqs.append(('format.split', {'s': c['s']}))
            index.append((ci, 'split'))
    answers = drv.ask_many(reqs)
    per = {}
    for (ci, what), a in zip(index, answers):
        per.setdefault(ci, {})[what] = a
    cnt = out['counts']

    def count(key, by=1):
        cnt[key] = cnt.get(key, 0) + by

    for ci, c in enumerate(cases):
        k = c['kind']
        a = per[ci]
        if k == 'parse':
            impl = I.impl_parse(c['s'])
            model = a['parse']
            out['n'] += 1
            out['nontrivial'].append(case_key(c))
            count('parse:' + ('error:' + impl['err']['msg'][:34] if impl['err'] else 'ok'))
            count(f'parse:tuples={min(len(impl["tuples"]), 4)}')
            if impl != model:
                out['mismatches'].append((c, model, impl, 'formatter_parser'))
            continue
        if k == 'split':
            impl = I.impl_split(c['s'])
            model = a['split']
            out['n'] += 1
            out['nontrivial'].append(case_key(c))
            e = impl.get('early') or impl.get('err')
            count('split:' + ('error:' + e['msg'][:30] if e else 'ok'))
            if impl != model:
                out['mismatches'].append((c, model, impl, 'formatter_field_name_split'))
            continue
        # formatting cases
        m = a['fmt']
        if isinstance(m, common.Reject):
            count('rejected:' + str(m)[:48])
            continue
        impl = I.impl_fmt(c['ctx'], c['v'])
        if 'unencodable' in impl:
            count('unencodable-result')
            continue
        model = I.model_obs(m)
        out['n'] += 1
        nontrivial = not isinstance(c['v'], str) or '{' in c['v'] or '}' in c['v']
        if nontrivial:
            out['nontrivial'].append(case_key(c))
        if len(out['samples']) < 3:
            out['samples'].append(c)
        cls = ('ok:' + result_kind(impl['ok'])) if 'ok' in impl else 'err:' + impl['err']['name']
        count(f'{k}:{cls}')
        if k == 'grammar' and 'ok' in impl:
            count(f'reference-depth={min(I.DEPTH["max"], 6)}')
        if k == 'cyclic':
            if impl != {'err': {'name': 'OutOfFuel', 'msg': ''}}:
                out['violations'].append((c, 'cyclic references must not terminate with a value; implementation gave '
                                          + repr(impl)[:200], {'monitor': 'divergence'}, impl))
        if impl != model:
            if 'ok' in impl and 'ok' in model and I.has_multi_set({'t': [c['v'], c['ctx']]}) and I.py_equal(model['ok'], impl['ok']):
                # which of two ==-equal members (True / 1) of a set survives depends on the set's iteration order:
                # CPython's hash order vs the wire order the model iterates in - not an observable
                count('set-survivor-depends-on-iteration-order')
            else:
                out['mismatches'].append((c, model, impl, 'get_formatted_value'))
        # features
        if isinstance(c['v'], str) and k in ('grammar', 'directed'):
            feature_counts(c['v'], count)
        # the basic model agrees with the faithful one on the simple grammar
        b = a.get('both')
        if b is not None and not isinstance(b, common.Reject):
            # the basic grammar has well-formed strings only: it parses eagerly, the real parser is lazy
            if any('err' in x and x['err']['name'] == 'ValueError' and x['err']['msg'] in PARSE_ERRORS
                   for x in (b['basic'], b['faithful'])):
                count('basic_agrees:skipped-malformed')
            elif 'err' in b['faithful'] and b['faithful']['err']['msg'].startswith('unhashable type'):
                count('basic_agrees:skipped-unhashable-key')   # not in the basic model
            elif 'ok' in b['basic'] and I.numeric_collision(b['basic']['ok']):
                # True == 1 == 1.0 as set members / dict keys: the basic model compares keys structurally
                # (Python key equality is outside its domain), the faithful model and the code merge them
                count('basic_agrees:skipped-numerically-equal-keys')
            else:
                count('basic_agrees:compared')
                if I.model_obs(b['basic']) != I.model_obs(b['faithful']):
                    out['mismatches'].append((c, b['faithful'], b['basic'], 'basic model (Fmt.lean) vs faithful model'))
        # Lean Spec as the oracle for the implementation
        sp = a.get('spec')
        if sp is not None and not isinstance(sp, common.Reject) and k != 'cyclic':
            if spec_hypotheses(c['v']):
                count('spec-oracle:compared')
                if any(n is not None and '{' in sp for _, n, sp, _ in I.top_fields(c['v'])):
                    count('spec-oracle:compared:nested-spec')
                if I.model_obs(sp) != impl:
                    if single_conversion(c['v']):
                        # known deviation: the converted text is formatted again (see Props/C08.lean,
                        # single_conversion_formats_converted_text)
                        sig = {'monitor': 'single-conversion', 'site': '_format_keep_type.single-expression',
                               'cause': 'converted-text-formatted-again'}
                    else:
                        sig = {'monitor': 'spec', 'shape': shape_of(c['v'])}
                    out['violations'].append((c, f'documented result (Lean Spec.format) {sp!r} != implementation {impl!r}'[:700],
                                              sig, impl))
        # python-side monitors
        if isinstance(c['v'], str):
            for clause, detail, sig, obs in I.monitor_string(c['ctx'], c['v'], count):
                out['violations'].append((c, f'{clause}: {detail}'[:600], sig, obs))
            count('monitor:string')
        else:
            ms = I.monitor_value(c['ctx'], c['v'])
            for clause, detail, sig, obs in ms:
                out['violations'].append((c, f'{clause}: {detail}'[:600], sig, obs))
            if isinstance(c['v'], dict) and ({'sic', 'py', 'jsonify'} & set(c['v'])):
                count('monitor:special-tag')


# ---- LAZILY MATERIALISING containers (the parent of the id-keyed memo defect repaired by /repo 2cfa9de) --------
#
# case = {'kind': 'lazy', 'shape': 'seq'|'seqgen'|'map'|'set', 'place': 'top'|'member'|'ctx'|'ctx-rf',
#         'ctx': wire dict, 'items': [format strings of the C08 grammar …] (map: [[key, value] …])}
# The container classes live in harness/impl_c09.py (LazySeq / LazyGenSeq / LazyMap / LazySet: iteration creates
# fresh equal-content members). Monitor from the property text: EACH MEMBER IS FORMATTED AS ITSELF — the result
# holds, member by member, what `get_formatted_value` of that member alone gives. Model: Format.fmtVal of the
# plain list / dict / set with the same members.

def make_lazy_cases(rng, n):
    g = I.Gen(rng)
    cases = []
    while len(cases) < n:
        ctxw, refs = g.context()
        want = rng.choice([2, 4, 5, 6, 8, 9, 12])
        shape = rng.choice(['seq', 'seq', 'seqgen', 'map', 'set'])
        strings, tries = [], 0
        while len(strings) < want and tries < 6 * want:
            tries += 1
            s = g.fmt_string(refs, small=rng.random() < 0.7)
            if ('{' not in s) and rng.random() < 0.7:
                continue
            alone = I.impl_fmt(ctxw, s)
            # mostly members that format on their own (else the whole call just raises the first error)
            if 'ok' in alone or rng.random() < 0.03:
                strings.append(s)
        if shape == 'map':
            items = [[rng.choice(['p%d', 'key %d']) % j if rng.random() < 0.6 else f'{j}-' + s, s2]
                     for j, (s, s2) in enumerate(zip(strings, strings[1:] + strings[:1]))]
        elif shape == 'set':
            items = list(dict.fromkeys(strings))
        else:
            q = rng.random()
            items = strings if q < 0.7 else [{'t': [s, j]} for j, s in enumerate(strings)] if q < 0.85 \
                else [[s] if j % 2 else s for j, s in enumerate(strings)]
        cases.append({'kind': 'lazy', 'shape': shape, 'place': rng.choice(['top', 'top', 'member', 'ctx', 'ctx-rf']),
                      'ctx': ctxw, 'items': items})
    return cases


LAZY_DIRECTED = [
    {'kind': 'lazy', 'shape': sh, 'place': pl, 'ctx': DIRECTED_CTX, 'items': items}
    for sh in ('seq', 'seqgen', 'set') for pl in ('top', 'member', 'ctx', 'ctx-rf')
    for items in (['a{i}', 'b{s}', 'c{w}', 'd{neg}', 'e{bo}', 'f{n}', 'g{i:>4}', 'h{s!r}', 'i{d[k]}', 'j{l[1]}', 'k{r2}', 'l{e}'],
                  ['{i:{w}}', '{s:>{w}}', '{neg:=+{w}}', '{r1}', '{r1:ff}', '{r1:rf}', '{r3[1]}', 'x{r1:rf}', '{sic}', 'a{py}'])
] + [
    {'kind': 'lazy', 'shape': 'map', 'place': pl, 'ctx': DIRECTED_CTX,
     'items': [['k{i}', 'v{w}'], ['k{w}', '{l}'], ['k{neg}', '{d[n]}'], ['k{s}', 'a{r1}'], ['k{bo}', '{r1:rf}'], ['k{e}', '{i:03}'],
               ['plain', '{s!a}'], ['k{d[k]}', ['{i}', '{w}']]]}
    for pl in ('top', 'member', 'ctx', 'ctx-rf')]


def check_lazy(drv, cases, out):
    from .. import impl_c09 as L
    reqs = []
    for c in cases:
        plain = L.lazy_model_value(c)
        ctx = {'d': list(c['ctx']['d'])}
        if c['place'] in ('ctx', 'ctx-rf'):
            ctx['d'] = ctx['d'] + [['lz', plain]]
        v = {'top': plain, 'member': [plain, 'tail'], 'ctx': '{lz}', 'ctx-rf': '{lz:rf}'}[c['place']]
        reqs.append(('format.fmt', {'ctx': ctx, 'v': v}))
    answers = drv.ask_many(reqs)
    cnt = out['counts']

    def count(key, by=1):
        cnt[key] = cnt.get(key, 0) + by

    for c, m in zip(cases, answers):
        obs, fails = L.run_lazy(dict(c, ctx=c['ctx']['d']), encode=common.enc)
        out['n'] += 1
        out['nontrivial'].append(case_key(c))
        count(f'lazy:{c["shape"]}:{c["place"]}')
        count(f'lazy:members={min(len(c["items"]), 12)}')
        count('lazy:outcome:' + ('ok' if 'ok' in obs else obs['err']))
        for mon, detail in fails:
            out['violations'].append((c, f'{mon}: {detail}'[:700],
                                      {'monitor': mon, 'stream': 'lazy', 'container': c['shape']}, obs))
        if isinstance(m, common.Reject):
            count('lazy:rejected:' + str(m)[:40])
            continue
        if 'ok' in obs and isinstance(obs['ok'], dict) and 'unencodable' in obs['ok']:
            count('lazy:unencodable-result')
            continue
        if 'ok' in m:
            w = m['ok']
            if c['place'] == 'member':
                w = w[0]
            model = {'ok': I.canon_w(w)}
        else:
            model = {'err': 'RecursionError' if m['err']['name'] == 'OutOfFuel' else m['err']['name']}
        impl = {'err': obs['err']} if 'err' in obs else {'ok': I.canon_w(obs['ok'])}
        if model != impl:
            if c['shape'] == 'set' and ('err' in model or 'err' in impl or I.py_equal(model['ok'], impl['ok'])):
                count('lazy:set-order-dependent')          # which member fails first / survives is not an observable
            elif 'ok' in model and 'ok' in impl and I.has_multi_set({'t': [c['items'], c['ctx']]}) \
                    and I.py_equal(model['ok'], impl['ok']):
                count('set-survivor-depends-on-iteration-order')
            else:
                out['mismatches'].append((c, model, impl, 'lazily materialising container vs Format.fmtVal of the plain one'))


def model_call(call):
    return {'opaque': True} if 'pysrc' in call else call


def check_sessions(drv, cases, out):
    """Sessions: 2+ formatting calls on ONE Context with updates in between. Model = Format.runCalls."""
    answers = drv.ask_many([('format.session', {'ctx': c['ctx'], 'calls': [model_call(x) for x in c['calls']]})
                            for c in cases])
    cnt = out['counts']

    def count(key, by=1):
        cnt[key] = cnt.get(key, 0) + by

    for c, a in zip(cases, answers):
        if isinstance(a, common.Reject):
            count('rejected:session:' + str(a)[:40])
            continue
        obs, viol, hidden = I.run_session(c)
        out['n'] += 1
        out['nontrivial'].append(case_key(c))
        if len(out['samples']) < 3 and len(cases) > 1:
            out.setdefault('session_samples', []).append(c)
        implonly = any('pysrc' in x for x in c['calls'])
        count('session:' + ('with-implonly-call' if implonly else 'fully-modelled'))
        count(f'session:calls={min(len(c["calls"]), 9)}')
        if hidden:
            count('session:raw-namespace-slot-written(observation)')
        walrus_seen = False
        excused = set()
        keys = {k for k, _ in c['ctx']['d']}        # the context keys at each call (set / del applied)
        for clause, detail, sig, o in viol:
            out['violations'].append((c, f'{clause}: {detail}'[:700], sig, o))
            if sig.get('construct') == I.LEFTOVER_SIG['construct']:
                # reported as a violation with its precise cause; the model (which has the documented behaviour)
                # is not compared at this call a second time
                excused.add(detail.split(':')[0])          # 'call <i>'
                count('finding:walrus-in-comprehension:' + sig['effect'])
        for i, (call, io, mo) in enumerate(zip(c['calls'], obs, a['steps'])):
            kind = next(iter(call))
            if kind == 'pyw':
                f = I.walrus_facts(I.py_src_w(call['pyw']))
                w = bool(f and f['top'])
                count('session:call:pyw' + (':walrus' if w else (':after-walrus' if walrus_seen else '')))
                walrus_seen = walrus_seen or w
            elif kind == 'pysrc':
                count('session:call:pysrc(implonly)')
            else:
                count('session:call:' + kind)
            if kind == 'set':
                keys.add(call['set'][0])
            elif kind == 'del':
                keys.discard(call['del'])
            if io is None:
                continue
            if 'unencodable' in io:
                count('session:unencodable-result')
                continue
            count('session:outcome:' + ('ok' if 'ok' in io else io['err']['name']))
            if mo is None:                      # opaque: the model has no opinion
                continue
            if f'call {i}' in excused:
                count('session:model-compare-skipped(violation with known cause reported at this call)')
                continue
            reads = (I.walrus_facts(I.py_src_w(call['pyw']))['reads'] if kind == 'pyw' else I._py_names_w(call.get('fmt')))
            if (reads & I.BUILTIN_NAMES) - keys:
                # a name that is no context key but a builtin: the model has no builtins (Python gives the builtin)
                count('session:model-compare-skipped(reads a builtin name that is not a context key)')
                continue
            m = I.model_obs(mo)
            if kind == 'pyw' and 'err' in m and m['err']['name'] != 'NameError':
                m = {'err': {'name': m['err']['name'], 'msg': ''}}
            if m != io:
                out['mismatches'].append((c, {'call': i, 'model': m}, {'call': i, 'impl': io}, 'session: Format.runCalls'))


DIRECTED_SESSIONS = [
    # the shape of seeded/C08-2's demo: a := name, later the context key of that name
    {'ctx': {'d': [['items', [3, 8, 12]]]}, 'calls': [
        {'pyw': {'op': '+', 'a': {'w': ['limit', {'c': 10}]}, 'b': {'len': {'n': 'items'}}}}, {'pyw': {'n': 'limit'}},
        {'fmt': '{limit}'}, {'set': ['limit', 3]}, {'pyw': {'op': '*', 'a': {'n': 'limit'}, 'b': {'c': 2}}},
        {'fmt': '{limit}'}, {'fmt': 'limit is {limit}'}, {'pysrc': '[i for i in items if i > limit]'}]},
    {'ctx': {'d': [['limit', 3]]}, 'calls': [
        {'pyw': {'op': '+', 'a': {'w': ['limit', {'c': 10}]}, 'b': {'c': 1}}},
        {'pyw': {'op': '*', 'a': {'n': 'limit'}, 'b': {'c': 2}}}, {'fmt': '{limit}'}, {'del': 'limit'},
        {'pyw': {'n': 'limit'}}, {'fmt': '{limit}'}]},
    # evaluation order and short circuit inside ONE evaluation
    {'ctx': {'d': [['x', 5]]}, 'calls': [
        {'pyw': {'op': '+', 'a': {'n': 'x'}, 'b': {'op': '+', 'a': {'w': ['x', {'c': 1}]}, 'b': {'n': 'x'}}}},
        {'pyw': {'n': 'x'}},
        {'pyw': {'op': '+', 'a': {'op': 'and', 'a': {'c': False}, 'b': {'w': ['y', {'c': 1}]}}, 'b': {'n': 'y'}}},
        {'pyw': {'op': 'or', 'a': {'w': ['y', {'c': 0}]}, 'b': {'w': ['z', {'n': 'y'}]}}}, {'pyw': {'n': 'y'}},
        {'pyw': {'n': 'z'}}, {'fmt': '{y}'}, {'fmt': ['{x}', {'py': {'n': 'x'}}, {'t': ['a{x}b']}]}]},
    {'ctx': {'d': [['a', 1], ['b', 'txt']]}, 'calls': [
        {'pyw': {'w': ['a', {'w': ['b', {'op': '+', 'a': {'n': 'a'}, 'b': {'c': 1}}]}]}}, {'pyw': {'n': 'a'}},
        {'pyw': {'n': 'b'}}, {'fmt': '{a}{b}'}, {'set': ['b', [1, '{a}']]}, {'fmt': '{b}'}, {'pyw': {'n': 'b'}},
        {'pyw': {'idx': [{'n': 'b'}, {'w': ['i', {'c': 0}]}]}}, {'pyw': {'n': 'i'}}, {'set': ['i', 9]}, {'pyw': {'n': 'i'}},
        {'fmt': '{i}'}]},
    # := inside comprehensions / lambdas, nested-scope reads (implementation-only calls)
    {'ctx': {'d': [['items', [1, 2, 3]], ['k', 4]]}, 'calls': [
        {'pysrc': '[(y := i) for i in items]'}, {'pyw': {'n': 'y'}}, {'fmt': '{y}'},
        {'pysrc': '(lambda: (z := 5))()'}, {'pyw': {'n': 'z'}}, {'pysrc': '[w for i in items if (w := i * 2) > 2]'},
        {'pysrc': '[i + k for i in items]'}, {'pysrc': '(lambda: k + 1)()'}, {'pysrc': '[(k := i) for i in items]'},
        {'pyw': {'n': 'k'}}, {'fmt': '{k}'}]},
]


def result_kind(w):
    if w is None:
        return 'None'
    if isinstance(w, bool):
        return 'bool'
    if isinstance(w, int):
        return 'int'
    if isinstance(w, str):
        return 'str'
    if isinstance(w, list):
        return 'list'
    return next(iter(w))


def spec_hypotheses(s):
    """the hypotheses of fmtKeepType_refines_spec: the string parses and every TOP-LEVEL field is named (not empty /
    all-digit). Format specs are unrestricted: nested replacement fields (any names, any depth) are covered by
    Spec.expandSpec."""
    tups = I.top_fields(s)
    if tups is None:
        return False
    for _, n, sp, _ in tups:
        if n is None:
            continue
        if n == '' or n.isdigit():
            return False
    return True


def single_conversion(s):
    """'{name!c}' / '{name!c:spec}' without rf/ff: the one shape where the code is known to deviate"""
    tups = I.top_fields(s) or []
    return len(tups) == 1 and tups[0][0] == '' and tups[0][1] is not None and tups[0][3] is not None \
        and tups[0][2][:2] not in ('rf', 'ff')


def shape_of(s):
    tups = I.top_fields(s) or []
    n = sum(1 for l, _, _, _ in tups if l) + sum(1 for _, f, _, _ in tups if f is not None)
    flags = sorted({sp[:2] for _, f, sp, _ in tups if f is not None and sp[:2] in ('rf', 'ff')})
    return ('single' if n == 1 else 'mixed') + (':' + '+'.join(flags) if flags else '')


SPEC_RE = re.compile(r'^(?:(?P<fill>.)?(?P<align>[<>=^]))?(?P<sign>[+\- ])?(?P<z>z)?(?P<alt>#)?(?P<zero>0)?(?P<width>\d+)?'
                     r'(?P<sep>[,_]+)?(?P<prec>\.\d*)?(?P<type>.)?$', re.S)


def feature_counts(s, count):
    tups = I.top_fields(s)
    if tups is None:
        count('feature:parse-error')
        return
    nf = sum(1 for _, n, _, _ in tups if n is not None)
    nl = sum(1 for l, _, _, _ in tups if l)
    count(f'pieces={min(nf + nl, 6)}')
    for _, n, sp, cv in tups:
        if n is None:
            continue
        depth = n.count('[') + n.count('.')
        count(f'path-depth={min(depth, 4)}')
        if cv:
            count('feature:conv-' + (cv if cv in 'rsa' else 'bad'))
        if sp[:2] in ('rf', 'ff'):
            count('feature:' + sp[:2])
        if '{' in sp:
            count('feature:nested-spec')
        elif sp and sp not in ('rf', 'ff'):
            count('feature:spec')
            body = sp[2:] if sp[:2] in ('rf', 'ff') else sp
            m = SPEC_RE.match(body)
            if m:
                if m.group('sep'):
                    count('feature:spec-grouping')
                    if m.group('zero') or (m.group('fill') == '0' and m.group('align') == '='):
                        count('feature:spec-grouping+zero-pad')
                if m.group('prec') is not None:
                    count('feature:spec-precision')
                if m.group('alt'):
                    count('feature:spec-alt')
                if m.group('z'):
                    count('feature:spec-z')
                if m.group('type') and m.group('type') in 'boxXcn':
                    count('feature:spec-inttype')
                    count('feature:spec-inttype:' + m.group('type'))
                if m.group('type') and m.group('type') in 'eEfFgG%':
                    count('feature:spec-floattype(out of domain on int)')
        for a in ('.value', '.yaml_tag'):
            if a in n:
                count('feature:attr' + a)
    if '{{' in s or '}}' in s:
        count('feature:escape')


def make_cases(stream, rng, n, counts=None):
    cases = _make_cases(stream, rng, n)
    if stream in ('grammar', 'session'):
        # the domain guard of the !py evaluator (I.py_in_domain): a case with a `len` shadowed by a context key /
        # assignment target, with + - * that can meet a float, or reading a builtin name is dropped, and counted
        kept = []
        for c in cases:
            why = I.case_py_domain(c)
            if counts is not None:
                key = f'py-domain:{stream}:' + ('in-domain' if why is None else 'filtered:' + why)
                counts[key] = counts.get(key, 0) + 1
            if why is None:
                kept.append(c)
        cases = kept
    return cases


def _make_cases(stream, rng, n):
    g = I.Gen(rng)
    cases = []
    if stream == 'grammar':
        for _ in range(n):
            cases.append(g.cyclic() if rng.random() < 0.02 else g.case())
    elif stream == 'session':
        sg = I.SessGen(rng)
        for _ in range(n):
            cases.append(sg.case())
    elif stream == 'lazy':
        cases = make_lazy_cases(rng, n)
    else:
        for _ in range(n):
            q = rng.random()
            if q < 0.25:
                cases.append({'kind': 'parse', 's': I.malformed(rng)})
            elif q < 0.35:
                cases.append({'kind': 'parse', 's': I.biased_malformed(rng)})
            elif q < 0.5:
                s = ''.join(rng.choice('[].a0 ') for _ in range(rng.randrange(0, 10)))
                cases.append({'kind': 'split', 's': s})
            elif q < 0.7:
                cases.append({'kind': 'malformed', 'ctx': I.MAL_CTX, 'v': I.malformed(rng)})
            else:
                cases.append({'kind': 'malformed', 'ctx': I.MAL_CTX, 'v': I.biased_malformed(rng)})
    return cases


def new_out():
    return {'n': 0, 'nontrivial': [], 'counts': {}, 'mismatches': [], 'violations': [], 'samples': []}


def check_stream(drv, stream, cases, out):
    if stream == 'session':
        check_sessions(drv, cases, out)
    elif stream == 'lazy':
        check_lazy(drv, cases, out)
    else:
        check_cases(drv, cases, out)


def run_chunk(args):
    stream, seed, n = args
    common.use_repo()
    rng = random.Random(seed)
    drv = common.Driver()
    out = new_out()
    try:
        check_stream(drv, stream, make_cases(stream, rng, n, out['counts']), out)
    finally:
        drv.close()
    # keep the payload small
    out['mismatches'] = out['mismatches'][:20]
    other = [v for v in out['violations'] if v[2].get('monitor') != 'single-conversion']
    known = [v for v in out['violations'] if v[2].get('monitor') == 'single-conversion']
    out['counts']['finding:single-conversion'] = len(known)
    out['violations'] = other[:20] + known[:2]
    return out


def absorb(res, out):
    res.evaluations += out['n']
    res.nontrivial.update(out['nontrivial'])
    for k, v in out['counts'].items():
        res.count(k, v)
    for c, model, impl, note in out['mismatches']:
        res.mismatch(c, model, impl, note)
    for c, detail, sig, obs in sorted(out['violations'], key=lambda x: x[2].get('monitor') == 'single-conversion'):
        res.violation(c, detail, signature=sig, impl=obs)
    for s in out['samples']:
        if len(res.samples) < 3:
            res.samples.append(s)
    for s in out.get('session_samples', []):
        if len(res.extra.setdefault('session_samples', [])) < 2:
            res.extra['session_samples'].append(s)


def run(env, res):
    res.rule = (
        'grammar stream: context of 1-6 keys whose values (nested dict/list/tuple/set/scalars/!sic/!py/!jsonify, depth<=3) '
        'refer to later keys only (reference depth 0-4), formatted value = string of 0-5 pieces (literals incl. {{ }}, fields '
        'with type-directed key/index/attribute paths of depth 0-3, conversions r s a and invalid ones, specs from the '
        'sub-language, rf/ff, nested specs, truncated fields) or a container/special tag; 2% cyclic contexts (divergence '
        'class: RecursionError vs OutOfFuel). malformed stream: random strings over "{}[].:!a0 " of length 0-12 plus a biased '
        'variant, through string.Formatter().parse, _string.formatter_field_name_split and Context.get_formatted_value. '
        'non-trivial = distinct case whose formatted value contains a brace or is not a plain string. '
        'session stream: ONE Context of 1-7 keys (ints, bools, lists of ints, a str), 2-4 primary calls — !py over '
        'names/constants/+-*/comparisons/and/or/not/len/index with assignment expressions (x := e) at any depth, '
        'targets that are / are not / later become context keys; formatted strings and containers reading those names; '
        'context[k] = v and pop(k) between calls; arbitrary-Python !py with := inside comprehensions / lambdas and '
        'nested-scope reads (implementation-only calls) — each binding call followed by reads of the bound names via '
        '!py name and {name}; every session is distinct and non-trivial. '
        'lazy stream: LAZILY MATERIALISING containers (custom Sequence / generator-Sequence / Mapping / Set whose iteration '
        'creates fresh equal-content members, harness/impl_c09.py) of 2-12 grammar-stream strings (or fresh tuples / lists of '
        'them) at top level, inside a list, as the target of {k} / {k:rf}: monitor "each member is formatted as itself" + '
        'Format.fmtVal of the plain container with the same members')
    drv = env.driver
    attr_table_check(drv, res)
    # 1. directed cases
    out = new_out()
    directed = [{'kind': 'directed', 'ctx': DIRECTED_CTX, 'v': s} for s in DIRECTED]
    directed += [{'kind': 'directed', 'ctx': DIRECTED_CTX, 'v': v} for v in (
        {'sic': 'x{y}'}, {'py': {'n': 'i'}}, {'py': {'n': 'nokey'}}, {'jsonify': {'d': [['k', '{i}'], ['{s}', [1, '{r1}']]]}},
        {'jsonify': {'set': [1]}}, ['{i}', {'t': ['{s}', 'x{i}']}, {'d': [['{s}', '{l}'], ['{r1}', 1]]}],
        {'d': [['{l}', 1], ['{zz}', 2]]}, {'set': ['{i}', 5]}, {'d': [['{i}', 'first'], [5, 'second']]},
        {'d': [['a', '{zz}'], ['{l}', 2]]}, {'t': []}, [], {'d': []}, {'b': '00'}, None, True, 7, {'f': [3, 1]}, {'o': 9})]
    for s in ('{a}', '{a:rf}', 'x{a:rf}', ['{a}']):
        directed.append({'kind': 'cyclic', 'ctx': {'d': [['a', '{b}'], ['b', '{a}']]}, 'v': s})
    check_cases(drv, directed, out)
    check_sessions(drv, [dict(kind='session', **d) for d in DIRECTED_SESSIONS], out)
    check_lazy(drv, LAZY_DIRECTED, out)
    absorb(res, out)
    # 2. random streams
    n_g = env.n(3000, 200000)
    n_m = env.n(3000, 200000)
    n_s = env.n(1500, 60000)
    n_l = env.n(300, 12000)
    jobs = []
    for stream, total in (('grammar', n_g), ('malformed', n_m), ('session', n_s), ('lazy', n_l)):
        left = total
        while left > 0:
            n = min(CHUNK, left)
            jobs.append((stream, env.rng.getrandbits(64), n))
            left -= n
    if env.quick:
        for j in jobs:
            rng = random.Random(j[1])
            out = new_out()
            check_stream(drv, j[0], make_cases(j[0], rng, j[2], out['counts']), out)
            absorb(res, out)
    else:
        with multiprocessing.get_context('fork').Pool(min(12, len(jobs))) as pool:
            for out in pool.imap_unordered(run_chunk, jobs):
                absorb(res, out)


def replay(env, res, payload):
    case = payload.get('case', payload)
    if 'case' in case and 'kind' not in case:
        case = case['case']
    out = new_out()
    check_stream(env.driver, case.get('kind') if case.get('kind') in ('session', 'lazy') else 'other', [case], out)
    absorb(res, out)
    res.rule = 'replay of one recorded case'
