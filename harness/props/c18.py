"""C18 - CLI exit codes and the argument-to-context contract.

Model: lean/PypyrModel/Cli.lean (driver ops cli.exit/main/phases/classify/argv/process/parser/parseinput/initctx/shortcut);
theorems Props/C18.lean. Implementation: harness/impl_c18.py (in-process and `python -m pypyr`).
Monitors are written from the property text and judge the implementation's observation directly.

"Any error escaped" is checked phase by phase (section 4b/5b): configuration look-up, logging set-up,
pipeline load, pipeline run - by breaking the environment / command line for real, by making the call
of each phase raise, and by making every source line of cli.main after argument parsing raise. What is
expected never depends on where the `try` of cli.main is; the extractor (harness/extract_c18.py ->
lean/Generated/CliMain.lean) ties the model's placement of the calls to the source.
"""
from __future__ import annotations

import concurrent.futures
import itertools
import json
import os
import re

from .. import common
from ..common import canon
from .. import impl_c18 as impl

LEAN_MODULES = ['Props.C18', 'Props.Translated_C18']
TRUSTED = ['harness/props/c18.py, harness/impl_c18.py (generators, pipeline renderer, SIGINT hand-off, monitors, '
           'fault-injection shim and reference child)',
           'harness/extract_c18.py (ast -> Generated/CliMain.lean, Generated/CliOptions.lean)',
           'CPython argparse / int() / str.partition / str.join / json.loads / pathlib.Path / sys.exit and the '
           "interpreter's handling of an unhandled SystemExit / BaseException / signal delivery",
           "Lean's Lean.Json.parse as stand-in for json.loads in the driver (integers only, compared up to key order; not "
           "asked for NaN/Infinity literals, surrogate escapes, lone surrogates: there only the monitor against the "
           "stdlib strict decoder judges)",
           'harness/translate.py: json.loads is an opaque function of one str (parameter `loads` of the translated json '
           'parser); any other call shape - a keyword such as strict=False, a second positional - is refused']
ASSUMPTIONS = [
    'argv domain: every list of strings EXCEPT: a string that starts with "-", matches no option/abbreviation and '
    'contains a non-ASCII character (argparse\'s negative-number matcher uses \\d = any Unicode digit); an explicit '
    'option argument that is exactly "--" (--success=--: CPython 3.12 stores the empty list); a --log value with a '
    'non-ASCII character, a control character other than \\t\\n\\v\\f\\r, or longer than 4000 characters (int() takes '
    'Unicode digits/blanks; int max str digits). The driver rejects these, the generators produce a few to count them. '
    'Inside the domain: exact option strings, unique-prefix abbreviations (allow_abbrev), --opt=value, -h/--help/'
    '--version (status 0, nothing runs), negative-number-like and blank-containing dash strings (arguments), unknown '
    'options and surplus positionals (usage error at the end), "--"; --log takes what int() takes (+5, " 5 ", 5_0, -5)',
    'how a run ended is an input of the exit-status model (nothing / Stop family / KeyboardInterrupt / other '
    'Exception with type name and message / SystemExit(code) / another BaseException); which of these a given pipeline '
    'produces is C01/C02 territory and is fixed here by construction of the generated pipelines',
    'the "exits 0 exactly when", "130", "255" theorems carry the explicit hypothesis "no BaseException other than '
    'KeyboardInterrupt escaped"; what happens without it is modelled (SystemExit(code): the interpreter exits with 0 '
    'for None, code & 0xFF for an int in [-2^63, 2^63), 1 and str(code) on stderr otherwise, no traceback; another '
    'BaseException: status 1 and a traceback whose last line is not modelled) and compared with real processes. The '
    'monitor reads the property text literally: status 0 after sys.exit(0|None|256..) in a step is reported as a '
    'violation (signature part=exit clause=exit-0-iff-completed-or-stopped fault=SystemExit); a non-zero SystemExit '
    'and other BaseExceptions are not "errors" in Python\'s sense (not derived from Exception) and are not judged '
    'against the 255 clause, only against the model',
    'the default of --dir is config.cwd = the module constant pypyr.config.CWD (Path.cwd() when pypyr.config was '
    'imported); the model writes it as "none"; the harness checks it is that very object, also after a chdir',
    'the traceback after the "type: message" line is printed iff the log level is given, non-zero and < 10 '
    '(mirrored: showsTraceback; tied to the source by the extractor: errorTail)',
    'shortcuts (config.shortcuts / Pipeline.new_pipe_and_args): string keys; pipeline_name, success, failure, loader, '
    'py_dir absent / null / str; parser_args absent / null / str / list of str; skip_parse absent / null / bool; args '
    'absent / null / dict with str keys; groups absent / null / str / list of str. Other value kinds are rejected by '
    'the driver. Path(py_dir) normalisation is pathlib\'s. "passes ... through unchanged" is judged only for names '
    'without a shortcut; with one, the documented rewrite (docstring of pipelinerunner.run / new_pipe_and_args)',
    'the exit-code clause covers what the command does after its arguments are parsed (config.init, logging set-up, '
    'pipeline load and run - every statement of cli.main after the get_args statement, wherever it sits relative to '
    'the try); interpreter start-up / module import and faults inside the exception handlers themselves are outside it',
]

PARSERS = ['pypyr.parser.keyvaluepairs', 'pypyr.parser.argskwargs', 'pypyr.parser.dict', 'pypyr.parser.list',
           'pypyr.parser.string', 'pypyr.parser.keys', 'pypyr.parser.json']

CTX_WORDS = ['k=v', 'k=v=w', '=v', 'k=', 'a b', ' lead', 'trail ', "q'uote", '"dq"', 'ünï=ø', '', '-', 'x', 'k=--',
             'k=other', 'argList=zz', 'a', 'b=1', 'key with space=val ue', '✓', 'x=✓=y', '==', 'a\tb', 'k=\n']
# arguments that start with '-' and that argparse still takes as arguments (negative numbers, blanks)
DASH_ARGS = ['-1', '-1.5', '-.5', '-007', '-x y', '- ', '-1 x', '--x y', '-1\n', '-']
NAMES = ['pipe', 'dir/sub', 'a=b', 'with space', 'ünï', '', '-', "it's", '"q"', '-1', '-x y']
TAIL_WORDS = CTX_WORDS + ['-x', '--success', '--groups', '-1', '--log', '--nope=1', '-h', '--version', '--lo', '-ü']
GROUP_WORDS = ['g1', 'steps', 'a b', '', 'ü', 'on_success', 'g=2', '-1', '-']
VALS = ['s', 'on_success', 'a b', '', 'ü', 'x=y', '/tmp/some dir', '-', '-1', '-x y']
JOINED_VALS = VALS + ['-x', '--groups', '--x', '=', 'a=b=c', '-h']     # after '=' anything goes (but exactly '--')
LOGS = ['10', '0', '007', '25', '50', '+5', ' 5 ', '5_0', '-5', '-0', '\t7\n', '1_2_3', '9']
BAD_LOGS = ['x', '', '5__0', '_5', '5_', '0x10', '1e3', '1.0', '+ 5', '5 5', '--5']
OPTS = ['--groups', '--success', '--failure', '--dir', '--log', '--loglevel', '--logpath']
# every way argparse lets an option be spelled: the exact strings and all unique prefixes
FLAGS = {'groups': ['--groups', '--group', '--gro', '--g'], 'success': ['--success', '--succ', '--s'],
         'failure': ['--failure', '--fail', '--f'], 'dir': ['--dir', '--di', '--d'],
         'log': ['--log', '--loglevel', '--logl', '--logleve'], 'logpath': ['--logpath', '--logp', '--logpat']}
AMBIGUOUS = ['--l', '--lo', '--=x', '--lo=5']


# --------------------------------------------------------------------------
# 1. argv
# --------------------------------------------------------------------------

def gen_opt(rng, spell=True):
    """[kind, value(s), flag as written, joined?]"""
    k = rng.choice(['groups', 'success', 'failure', 'dir', 'log', 'logpath'])
    flag = rng.choice(FLAGS[k]) if spell and rng.random() < 0.6 else FLAGS[k][0]
    joined = spell and rng.random() < 0.35
    if k == 'groups':
        if joined:
            return ['groups', [rng.choice([w for w in JOINED_VALS if w != '--'])], flag, True]
        return ['groups', [rng.choice(GROUP_WORDS) for _ in range(rng.randint(0, 3))], flag, False]
    if k == 'log':
        return ['log', rng.choice(LOGS), flag, joined]
    return [k, rng.choice(JOINED_VALS if joined else VALS), flag, joined]


def render_opt(o):
    k, v = o[0], o[1]
    flag = o[2] if len(o) > 2 else FLAGS[k][0]
    joined = o[3] if len(o) > 3 else False
    if k == 'groups':
        return [flag + '=' + v[0]] if joined else [flag] + list(v)
    return [flag + '=' + v] if joined else [flag, v]


def intended(pre_post, name, ctx):
    a = {'name': name, 'ctx': list(ctx), 'groups': None, 'success': None, 'failure': None, 'dir': None, 'log': None,
         'logpath': None}
    for o in pre_post:
        a[o[0]] = int(o[1]) if o[0] == 'log' else (list(o[1]) if o[0] == 'groups' else o[1])
    return a


def opens_groups(o):
    return o[0] == 'groups' and not (len(o) > 3 and o[3])


def gen_cmdline(rng):
    """A structured command line in one of the three accepted layouts + the values it means. Options are
    written with their exact strings, abbreviations and/or `=`-joined values; names and context arguments
    include dash-leading strings argparse takes as arguments."""
    layout = rng.choice(['opts-name-ctx-opts', 'opts-dd-name-any', 'opts-name-ctx-dd-any'])
    pre = [gen_opt(rng) for _ in range(rng.randint(0, 3))]
    name = rng.choice(NAMES)
    words = CTX_WORDS + DASH_ARGS
    ctx = [rng.choice(words) for _ in range(rng.choice([0, 1, 2, 3, 5]))]
    if layout == 'opts-dd-name-any':
        name = rng.choice(NAMES + ['-n', '--groups'])
        ctx = [rng.choice(TAIL_WORDS) for _ in range(rng.choice([0, 1, 2, 4]))]
        argv = [x for o in pre for x in render_opt(o)] + ['--', name] + ctx
        return {'layout': layout, 'argv': argv, 'means': intended(pre, name, ctx)}
    while pre and opens_groups(pre[-1]):      # an open --groups list would swallow the name
        pre.pop()
    if layout == 'opts-name-ctx-opts':
        post = [gen_opt(rng) for _ in range(rng.randint(0, 3))]
        argv = [x for o in pre for x in render_opt(o)] + [name] + ctx + [x for o in post for x in render_opt(o)]
        return {'layout': layout, 'argv': argv, 'means': intended(pre + post, name, ctx)}
    tail = [rng.choice(TAIL_WORDS) for _ in range(rng.choice([0, 1, 2, 4]))]
    argv = [x for o in pre for x in render_opt(o)] + [name] + ctx + ['--'] + tail
    return {'layout': layout, 'argv': argv, 'means': intended(pre, name, ctx + tail)}


def gen_exit0(rng):
    """--version / -h / --help (any spelling) among options that parse: status 0, nothing runs - whatever follows,
    unless an ambiguous abbreviation stands anywhere before a `--` (found first, in the pattern pass)."""
    pre = [gen_opt(rng) for _ in range(rng.randint(0, 2))]
    flag = rng.choice(['--version', '--vers', '--v', '-h', '--help', '--he', '--h', '-hh', '-h=h'])
    rest = [rng.choice(['pipe', 'a=b', '--success', '--groups', '-x', '--nope', '--log', 'x', '--', '--version', '-1'])
            for _ in range(rng.randint(0, 4))]
    argv = [x for o in pre for x in render_opt(o)] + [flag] + rest
    return {'layout': 'exit0', 'argv': argv, 'means_exit0': True}


SOUP_POOL = (OPTS * 2 + ['--', '--'] + CTX_WORDS[:8] + GROUP_WORDS[:3] + LOGS + BAD_LOGS[:4] + DASH_ARGS +
             ['pipe', 'abc', '--version', '-h', '--help', '-x', '--gr', '--gro=a', '--groups=a', '--groups=', '--suc', '--s',
              '--success=s', '--succ=a b', '--f=x', '--fail', '--d', '--dir=x', '--di=', '--l', '--lo', '--log=10', '--log=x',
              '--logl', '--logl=5', '--logp', '--logp=p', '--logpath=', '--v', '--ver', '--version=1', '--h', '--he',
              '--help=x', '--=x', '--=', '--x', '--nope=1', '--x y', '-1.', '-hh', '-hx', '-h=', '-h=h', '-hh=', '-1x', '--1',
              '-=', '-=x', '--success s', '--log=-5', '--log= 5 ', '--log=+5', '--log=5_0', '--log=5__0', '--log=', '--loglevel=0x10',
              '--success=--', '--groups=--', '-ü', '-١', '--log=٣', '+5', '--logx', '--loglevelx', '-.', '-..5', '-1.2.3', '-\n'])


def gen_soup(rng):
    """Adversarial: any order of option strings (all spellings), values, words, dash strings and `--`."""
    n = rng.randint(0, 7)
    return {'layout': 'soup', 'argv': [rng.choice(SOUP_POOL) for _ in range(n)]}


DIRECTED_ARGV = [
    ['name'], ['name', 'a', 'b'], ['name', '--groups'], ['name', 'a', '--groups', 'g1', 'g2', '--success', 's'],
    ['--groups', 'g1', 'g2', '--', 'name', 'a'], ['--groups', 'g1', 'name'], ['--success', 's', 'name', 'a', '--failure', 'f'],
    ['name', 'a', '--', '-b', 'c'], ['name', '--', 'a', '--', 'b'], ['name', 'a', '--', 'b', '--', 'c'],
    ['--', 'name', '--', 'x'], ['name', 'a', '--success', 's', 'b'], ['name', '--success', 's', 'a'],
    ['name', '--success', 's', '--', 'a'], ['name', '--success'], ['name', '--success', '--failure', 'f'],
    ['name', '--log', '10'], ['name', '--log', 'x'], ['name', ''], ['', 'a'], ['name', '-'], ['--success', '', 'name'],
    ['--', '--', 'x'], ['--'], [], ['name', '--groups', 'a', '--groups', 'b'],
    ['name', '--dir', '/x', '--logpath', 'p', '--loglevel', '20'], ['name', 'a', '--groups', 'g', '--', 'b'],
    ['--groups', '--', 'name'], ['name', '--', '--'], ['name', '--', '--', '--'], ['name', 'a', '--', '--', 'b'],
    ['--log', '5', '--log', '7', 'n'], ['n', '--success', 'a', '--success', 'b'], ['--dir', 'd', '--', 'n', '--dir', 'e'],
    # abbreviations, = forms
    ['name', '--gro', 'a', 'b'], ['name', '--suc', 's'], ['name', '--log=10'], ['name', '--dir=x'], ['name', '--success=s'],
    ['name', '--lo', '5'], ['name', '--l=5'], ['name', '--logl', '5'], ['name', '--logp=p'], ['name', '--groups=a', 'b'],
    ['--groups=a', 'name', 'b'], ['name', '--groups=a b'], ['name', '--groups='], ['name', '--log=x'], ['name', '--log='],
    ['name', '--success=a=b'], ['name', '--success='], ['name', '--succ=x', '--fail=y', '--di=z', '--g=q'],
    ['name', '--success=--'], ['name', '--groups=--'], ['name', '--log=--'],
    # --log takes what int() takes
    ['name', '--log', '+5'], ['name', '--log', ' 5 '], ['name', '--log', '5_0'], ['name', '--log', '-5'], ['name', '--log=-5'],
    ['name', '--log', '5__0'], ['name', '--log', '٣'], ['name', '--log', '0'], ['name', '--log', '-0'],
    # dash-leading arguments
    ['name', '-1'], ['name', '-1', '-2.5', '-.5'], ['-1', 'a'], ['name', '-x'], ['name', '-x y'], ['name', '-1x'], ['name', '-1.'],
    ['name', '--success', '-1'], ['name', '--success', '-x'], ['name', '--groups', '-1', '-2'], ['name', '--x y'],
    ['name', 'a', '-1', 'b', '--groups', 'g'], ['name', '-ü'], ['name', '-١'],
    # help / version: exit 0, nothing runs; what wins over what
    ['--version'], ['-h'], ['--help'], ['name', '--version'], ['--ver'], ['--v'], ['--he'], ['-hh'], ['-hx'], ['-h=h'], ['-h='],
    ['--version=1'], ['--help=x'], ['name', 'a', '--success', 's', 'extra', '--version'], ['--success', '--version'],
    ['--version', '--success'], ['--version', '--lo'], ['--lo', '--version'], ['-x', '--version'], ['--log', 'x', '--version'],
    ['--version', '--log', 'x'], ['--', '--version'], ['name', '--', '-h'],
    # unknown options / surplus
    ['name', '--nope'], ['--nope', 'name'], ['name', '--nope=1'], ['name', 'a', '--success', 's', 'b', 'c'],
]


def check_argv(env, res, n_struct, n_soup, n_exit0=None):
    drv = env.driver
    cases = [{'layout': 'directed', 'argv': a} for a in DIRECTED_ARGV]
    cases += [gen_cmdline(env.rng) for _ in range(n_struct)]
    cases += [gen_exit0(env.rng) for _ in range(n_struct // 10 if n_exit0 is None else n_exit0)]
    cases += [gen_soup(env.rng) for _ in range(n_soup)]
    models = drv.ask_many([('cli.argv', {'argv': c['argv']}) for c in cases])
    for c, m in zip(cases, models):
        case = {'kind': 'argv', **c}
        if isinstance(m, common.Reject):
            res.count('argv:outside-model')
            if 'means' not in c and 'means_exit0' not in c:
                continue
            m = None
        real = impl.get_args_obs(c['argv'])
        res.case(case, nontrivial=True)
        res.count('argv:' + c['layout'])
        res.count('argv-result:' + ('usage' if 'usage' in real else 'exit0' if 'exit0' in real else 'ok'))
        if m is not None:
            mv = {'usage': True} if 'usage' in m else ({'exit0': True} if 'exit0' in m else {'ok': m['ok']})
            if mv != real:
                res.mismatch(case, mv, real)
        if 'means_exit0' in c:
            # monitor: --version / -h / --help print and exit 0 (unless an ambiguous abbreviation precedes a `--`)
            amb = False
            for a in c['argv']:
                if a == '--':
                    break
                if a in AMBIGUOUS:
                    amb = True
            if not amb and real != {'exit0': True}:
                res.violation(case, f'help/version option among valid options does not exit 0: {real}',
                              signature={'part': 'argv', 'clause': 'help-version-exit-0'}, impl=real)
        if 'means' in c:
            # monitor: a command line written in an accepted layout comes back unchanged. The one
            # documented exception (argparse drops the first literal "--" of the tail) is not judged.
            means = c['means']
            if '--' in means['ctx']:
                continue
            if real != {'ok': means}:
                diff = sorted(k for k in means if 'ok' not in real or real['ok'].get(k) != means[k])
                res.violation(case, f'get_args does not pass {diff} through unchanged: got {real}, written {means}',
                              signature={'part': 'argv', 'clause': 'passthrough', 'fields': ','.join(diff)}, impl=real)
        # the call main makes
        if m is not None and ('ok' in m or 'exit0' in m) and env.rng.random() < 0.5:
            call = impl.main_call_obs(c['argv'])
            case2 = {'kind': 'main-call', 'argv': c['argv']}
            res.case(case2, nontrivial=True)
            if 'exit0' in m:
                res.count('main-call:exit0')
                want = {'exit0': True, 'called': False}
                if call != want:
                    res.mismatch(case2, want, call)
                if call.get('called') or 'call' in call:
                    res.violation(case2, f'the runner is called although the command line asks for help/version: {call}',
                                  signature={'part': 'main', 'clause': 'help-version-no-run'}, impl=call)
                continue
            want = {'call': m['call'], 'ret': None}
            res.count('main-call')
            if call != want:
                res.mismatch(case2, want, call)
            if 'means' in c and '--' not in c['means']['ctx']:
                mm = c['means']
                exp = {'pipeline_name': mm['name'], 'args_in': mm['ctx'], 'parse_args': True, 'groups': mm['groups'],
                       'success_group': mm['success'], 'failure_group': mm['failure'], 'py_dir': mm['dir']}
                if call.get('call') != exp:
                    diff = sorted(k for k in exp if (call.get('call') or {}).get(k) != exp[k])
                    res.violation(case2, f'cli.main does not pass {diff} to the runner unchanged: {call} vs {exp}',
                                  signature={'part': 'main', 'clause': 'passthrough', 'fields': ','.join(diff)}, impl=call)


def classify_pool(rng, n):
    """Strings for the one-string tie with argparse's `_parse_optional`."""
    S = set()
    longs = ['--help', '--groups', '--success', '--failure', '--dir', '--log', '--loglevel', '--logpath', '--version']
    for o in longs + ['-h']:
        for k in range(1, len(o) + 1):
            p = o[:k]
            if p == '--':
                continue
            S.add(p)
            for v in ('', 'x', 'a b', '=', '--', 'h', '-1', 'ü'):
                S.add(p + '=' + v)
            S.add(p + 'x')
            S.add(p + ' x')
    S.update(DASH_ARGS + ['-x', '-1.', '-1x', '-.', '-..5', '-1.2.3', '-\n', '-1\n', '-1\n\n', '-1 \n', '-h', '-hh', '-hhh', '-hx', '-h=',
                          '-h=h', '-hh=', '-h=hh', '-hxh', '-=', '-=x', '--=', '--=x', '--x', '--x y', '--1', '---', '---x', '----groups',
                          '-', '', 'x', 'a=b', '+5', '-ü', '-١', '--ü', '--gröups', '-é 1', '-0', '-00.0', '-.0', '-0.', '- 1', '-1_0'])
    chars = '-hgl=x 1.\nü_'
    for _ in range(n):
        k = rng.randint(1, 7)
        S.add(rng.choice(['-', '--', '-h', '--lo', '--g', '-1', '-.']) + ''.join(rng.choice(chars) for _ in range(k)))
    S.discard('--')
    return sorted(S)


def check_classify(env, res, n):
    """`classify` vs `ArgumentParser._parse_optional` on single strings: exact options, every prefix, `=` forms,
    the negative-number matcher, the blank rule, unknown options."""
    drv = env.driver
    pool = classify_pool(env.rng, n)
    models = drv.ask_many([('cli.classify', {'s': x}) for x in pool])
    for x, m in zip(pool, models):
        case = {'kind': 'classify', 's': x}
        if isinstance(m, common.Reject):
            res.count('classify:outside-model')
            continue
        real = impl.classify_obs(x)
        res.case(case, nontrivial=True)
        res.count('classify:' + real['cls'])
        if m != real:
            res.mismatch(case, m, real)


# --------------------------------------------------------------------------
# 2. parsers
# --------------------------------------------------------------------------

def ref_parser(parser, args):
    """The documented shapes, written from the property text (monitor oracle)."""
    short = parser.rsplit('.', 1)[1]
    if short == 'keyvaluepairs':
        if not args:
            return None
        d = {}
        for a in args:
            i = a.find('=')
            k, v = (a, '') if i < 0 else (a[:i], a[i + 1:])
            d[k] = v
        return d
    if short == 'dict':
        return {'argDict': ref_parser('x.keyvaluepairs', args) or {}}
    if short == 'argskwargs':
        d, lst = {}, []
        for a in args or []:
            i = a.find('=')
            if i < 0:
                lst.append(a)
            else:
                d[a[:i]] = a[i + 1:]
        d['argList'] = lst
        return d
    if short == 'list':
        return {'argList': list(args or [])}
    if short == 'string':
        s = ''
        for k, a in enumerate(args or []):
            s += (' ' if k else '') + a
        return {'argString': s}
    if short == 'keys':
        return {a: True for a in args} if args else None
    raise ValueError(parser)


def sort_keys(w):
    if isinstance(w, list):
        return [sort_keys(x) for x in w]
    if isinstance(w, dict) and 'd' in w:
        return {'d': sorted(([sort_keys(k), sort_keys(v)] for k, v in w['d']), key=canon)}
    if isinstance(w, dict):
        return {k: sort_keys(v) for k, v in w.items()}
    return w


# What one argument can hold when a shell / an exec*() caller hands it over: raw control characters (a multi-line
# quoted value: LF, TAB, CR, ESC, U+0001 …), DEL and C1, non-ASCII of every plane, combining marks, unicode
# spaces and line separators, a BOM, quotes and backslashes of both kinds, text that looks like an escape, and
# NUL-free binary-ish text (bytes that are not UTF-8 arrive in sys.argv as lone surrogates U+DC80..U+DCFF).
HOSTILE_WORDS = ['line1\nline2', 'tab\there', 'k=\x01', '\x01', '\x1f=\x7f', 'cr\r\nlf', '\x0b\x0c', 'k=\x1b[31mred', 'k\n=v\n',
                 '\x80\x9f', '\xfc=✓', '\U0001f600=\U0001f389', 'é=́', 'nb\xa0sp', ' = ', '﻿bom',
                 '　', '"', "'", '\\', 'k="v"', "k='v'", 'a\\nb', '\\u0041=\\x41', '{"a": "b"}', '"k"="v"', 'k=\\"',
                 'k=\udc80\udcff', '\udcfe', '\x01\x02\x7f\udc80=\udcff\x1e', 'İ=\xdf', '٣=१']
PARSER_WORDS = CTX_WORDS + HOSTILE_WORDS


def has_surrogate(args):
    return any(0xD800 <= ord(ch) <= 0xDFFF for a in args or [] for ch in a)


def cut_at_spaces(rng, txt):
    """`' '.join` restores the text exactly."""
    parts = txt.split(' ')
    out, cur = [], parts[0]
    for p in parts[1:]:
        if rng.random() < 0.5:
            out.append(cur)
            cur = p
        else:
            cur += ' ' + p
    return out + [cur]


def gen_json_value(rng):
    def val(depth):
        r = rng.random()
        if depth > 2 or r < 0.45:
            return rng.choice([0, 1, -7, 123456789012345678901234567890, True, False, None, 'x', 'a b', '', 'ünï ✓',
                               'q"uo\\te', 'k=v', ' sp ', 'e.g. 1e5', 'l1\nl2', 'a\tb', '\x01\x1f', '😀', '\x7f\x80', "it's", ' '])
        if r < 0.7:
            return [val(depth + 1) for _ in range(rng.randint(0, 3))]
        return {rng.choice(['a', 'b', 'key c', 'ü', '', 'k=v', 'l\nf', '\t', '"']) + str(i): val(depth + 1) for i in range(rng.randint(0, 3))}
    return {rng.choice(['a', 'b', 'key c', 'ü', 'k=v', 'l\nf', '\x01', "'"]) + str(i): val(0) for i in range(rng.randint(0, 4))}


def gen_json_args(rng):
    kind = rng.random()
    if kind < 0.7:
        top = gen_json_value(rng)
    elif kind < 0.85:
        top = rng.choice([[1, 2], 'str', 5, None, True, [], [{}]])
    else:
        txt = rng.choice(['{bad', '{"a": }', "{'a': 1}", '{"a": 1,}', '', '{"a": 1} x', '{"a" 1}', 'nul'])
        return txt.split(' ') if txt else ['']
    # json.dumps ESCAPES every control character: these are the well-formed documents
    txt = json.dumps(top, ensure_ascii=rng.random() < 0.3, separators=rng.choice([(', ', ': '), (',', ':')]))
    return cut_at_spaces(rng, txt)


# one character / escape put INSIDE a string literal of a well-formed document …
IN_STRING_RAW = ['\n', '\t', '\r', '\x01', '\x08', '\x0b', '\x0c', '\x1b', '\x1f',          # strict json: refused
                 '\x7f', '\x80', '\xa0', ' ', '\xfc', '✓', '\U0001f600', "'", '/', ' ']       # accepted as they are
IN_STRING_ESC = ['\\n', '\\t', '\\r', '\\b', '\\f', '\\"', '\\\\', '\\/', '\\u0001', '\\u000a', '\\u00fc', '\\ud83d\\ude00',  # fine
                 '\\x01', '\\a', '\\u12', '\\u', '\\U0001f600', "\\'", '\\0', '\\\n', '\\ud800', '\\udc00\\ud800']   # mostly refused
# … or BETWEEN two tokens (json whitespace is space, TAB, LF, CR and nothing else)
BETWEEN_TOKENS = ['\t', '\n', '\r', '\r\n', ' \t ', '\x0b', '\x0c', '\x01', '\x1f', '\xa0', ' ', '﻿', '　', '\x7f']
# … or standing where a value stands (Python's decoder takes NaN / Infinity / -Infinity; nothing else here is json)
ODD_LITERALS = ['NaN', 'Infinity', '-Infinity', 'nan', '-NaN', '+Infinity', 'TRUE', 'None', 'undefined', '01', '-01', '+1', '1.', '.5',
                '1e', '0x10', '1_000', '-', '--1', '1.5', '-0', '-0.0', '1E2', '1e-2', '00', "'s'", '"a" "b"', '1 2', '']
JSON_SKELETONS = ['{"k": %s}', '{"k": [%s]}', '[%s]', '%s', '{%s: 1}', '{"a": 1, "k": %s, "a": 2}']
_JSON_STR = re.compile(r'"(?:[^"\\]|\\.)*"')


def gen_json_hostile(rng):
    """-> (variant, args): a well-formed document with ONE thing a strict decoder must refuse / must take in it."""
    v = rng.choice(['in-string-raw', 'in-string-raw', 'in-string-esc', 'between', 'literal', 'duplicate', 'whole-arg'])
    if v == 'literal':
        return v, cut_at_spaces(rng, rng.choice(JSON_SKELETONS) % rng.choice(ODD_LITERALS))
    if v == 'duplicate':
        k = rng.choice(['"a"', '"\\u0061"', '"a b"', '""'])
        return v, cut_at_spaces(rng, '{%s: 1, "b": {%s: [1], %s: null}, %s: "last"}' % (k, k, k, rng.choice([k, '"a"'])))
    if v == 'whole-arg':
        # the control character is a whole argument of its own / the end of one
        ch = rng.choice(['\n', '\t', '\x01', '\r', '\x0c'])
        return v, rng.choice([['{"a":', ch, '1}'], ['{"a": "x', ch, 'y"}'], ['{"a": "x' + ch, '"}'], [ch, '{}', ch], ['{"a', ch + '": 1}']])
    top = gen_json_value(rng)
    top['s' + rng.choice(['', ' ', 'ü'])] = rng.choice(['v', '', 'a b', 'ü'])
    txt = json.dumps(top, ensure_ascii=rng.random() < 0.3, separators=rng.choice([(', ', ': '), (',', ':')]))
    if v == 'between':
        spots = [m.end() for m in re.finditer(r'[{\[,:]', _JSON_STR.sub(lambda m: '_' * len(m.group()), txt))] + [0, len(txt)]
        i = rng.choice(spots)
        return v, cut_at_spaces(rng, txt[:i] + rng.choice(BETWEEN_TOKENS) + txt[i:])
    m = rng.choice(list(_JSON_STR.finditer(txt)))
    i = rng.choice([m.start() + 1, m.end() - 1])          # right after the opening / before the closing quote
    ins = rng.choice(IN_STRING_RAW if v == 'in-string-raw' else IN_STRING_ESC)
    return v, cut_at_spaces(rng, txt[:i] + ins + txt[i:])


def json_standin_ok(txt):
    """Lean's Json.parse stands in for json.loads in the driver; where the two are KNOWN to differ the model is not
    asked (the monitor below still judges the code against the stdlib strict decoder): NaN/Infinity literals,
    surrogate escapes (python keeps a lone surrogate), floats (outside the model's values)."""
    return not (re.search(r'NaN|Infinity|\\u[dD][89a-fA-F]', txt) or has_surrogate([txt]))


JSON_DIRECTED = [['{"msg": "line1\nline2"}'], ['{"msg":', '"a\tb"}'], ['{"k\x01": 1}'], ['{"msg": "line1\\nline2"}'], ['{"a":\n1,\t"b":\r2}'],
                 ['{"a":\x0b1}'], ['{"a": "\x7f\x80"}'], ['{"a": NaN}'], ['{"a": -Infinity}'], ['{"a": "\\ud800"}'], ['﻿{}'],
                 ['{"a": 1, "a": 2}'], ['{"\xfc": "\U0001f600"}'], ['{"a": "\\x01"}'], ['{"a": "q\\"uote"}'], ["{'a': 1}"], ['{"a": 01}'],
                 ['{"a": "\x1f"}'], ['{"a": "x', 'y"}'], ['{"a": "x\n', '\ny"}'], ['{}', '\n'], ['\n{"a": "b"}\n']]


def check_parsers(env, res, n):
    drv = env.driver
    rng = env.rng
    cases = []
    for p in PARSERS:
        cases.append((p, []))
        cases.append((p, None))
    directed = [['a=1', 'b=2'], ['a=1', 'a=2'], ['a=1', 'b=x', 'a=3', 'b='], ['k=v=w'], ['=v'], ['k='], ['bare'],
                ['a', 'b', 'a'], ['one', 'two  spaces', '', 'x'], ['', ''], [' '], ['argList=1', 'x'], ['x', 'argList=1'],
                ['ünï=ø', 'ünï=å'], ['{"a":', '1}'], ['{"a":1}'], ['a=b', 'a', 'a=c'], ['=', '==', '=']]
    # every hostile word alone, as first and as last of several, for EVERY parser
    directed += [[w] for w in HOSTILE_WORDS] + [[w, 'k=v'] for w in HOSTILE_WORDS[::3]] + [['a', w] for w in HOSTILE_WORDS[1::3]]
    for p in PARSERS:
        for a in directed:
            cases.append((p, a))
    jp = [p for p in PARSERS if p.endswith('json')][0]
    variant = {}
    for a in JSON_DIRECTED:
        variant[len(cases)] = 'directed'
        cases.append((jp, a))
    for _ in range(n):
        p = rng.choice(PARSERS)
        if p.endswith('json') and rng.random() < 0.9:
            if rng.random() < 0.5:
                variant[len(cases)], a = gen_json_hostile(rng)
                cases.append((p, a))
            else:
                cases.append((p, gen_json_args(rng)))
        else:
            words = PARSER_WORDS if rng.random() < 0.6 else HOSTILE_WORDS
            cases.append((p, [rng.choice(words) for _ in range(rng.choice([1, 2, 3, 4, 6, 9]))]))
    # the json parser's own quota of hostile documents (it is one of seven parsers in the draw above)
    for _ in range(max(200, n // 4)):
        variant[len(cases)], a = gen_json_hostile(rng)
        cases.append((jp, a))
    # the model is asked wherever the wire format carries the strings (not lone surrogates) and, for json, where
    # the driver's stand-in for json.loads is the same function of the text; the monitors run on every case
    askable = [i for i, (p, a) in enumerate(cases)
               if not has_surrogate(a) and (not p.endswith('json') or json_standin_ok(' '.join(a or [])))]
    answers = drv.ask_many([('cli.parser', {'parser': cases[i][0], 'args': cases[i][1] or []}) for i in askable])
    models = dict(zip(askable, answers))
    for i, (p, a) in enumerate(cases):
        m = models.get(i)
        case = {'kind': 'parser', 'parser': p, 'args': a}
        if isinstance(m, common.Reject):
            res.count('parser:outside-model')
            m = None
        real = impl.parser_obs(p, a)
        res.case(case, nontrivial=True)
        short = p.rsplit('.', 1)[1]
        res.count('parser:' + short)
        res.count('parser-n:' + ('empty' if not a else ('1' if len(a) == 1 else '2+')))
        if any(ord(ch) < 32 for x in a or [] for ch in x):
            res.count('parser-args:raw-control-character:' + short)
        if any(ord(ch) > 126 for x in a or [] for ch in x):
            res.count('parser-args:non-ascii:' + short)
        if i in variant:
            res.count('json-hostile:' + variant[i])
        if m is None:
            res.count('parser:monitor-only' + (':surrogate' if has_surrogate(a) else ':json-standin'))
        rv = real
        if short == 'json':
            rv = sort_keys(real)
            res.count('json-result:' + ('err:' + rv['err']['name'] if 'err' in rv else 'ok'))
        if m is not None:
            mv = {'err': {'name': m['err']['name']}} if 'err' in m else {'ok': m['ok']}
            if short == 'json':
                mv = sort_keys(mv)
            if mv != rv:
                res.mismatch(case, mv, rv)
        # determinism: a second call gives the same
        again = impl.parser_obs(p, a)
        if again != real:
            res.violation(case, f'parser is not deterministic: {real} then {again}',
                          signature={'part': 'parser', 'parser': short, 'clause': 'deterministic'}, impl=real)
        if short != 'json':
            want = ref_parser(p, a)
            want = {'ok': None if want is None else common.enc(want)}
            if real != want:
                res.violation(case, f'{short} parser: documented shape {want}, got {real}',
                              signature={'part': 'parser', 'parser': short, 'clause': 'shape'}, impl=real)
        else:
            # json: an object comes back as loaded; anything else / invalid text is an error
            txt = ' '.join(a or [])
            try:
                loaded = json.loads(txt) if a else None
                want = {'ok': impl.enc_total(loaded)} if isinstance(loaded, dict) or loaded is None and not a else \
                    {'err': {'name': 'TypeError'}}
            except ValueError:
                want = {'err': {'name': 'json.decoder.JSONDecodeError'}}
            if sort_keys(real) != sort_keys(want):
                res.violation(case, f'json parser: expected {want}, got {real}',
                              signature={'part': 'parser', 'parser': 'json', 'clause': 'shape'}, impl=real)



# --------------------------------------------------------------------------
# 2b. parsers are functions of the argument list: SEQUENCES in one process
# --------------------------------------------------------------------------

MUTATIONS = ['nested-fill', 'nested-clear', 'top-add', 'top-clear', 'top-replace-values', 'all']


def want_parser(p, a):
    """{'ok': …} | {'err': {'name'}} from the property text (ref_parser; json: the stdlib loader)."""
    short = p.rsplit('.', 1)[1]
    if short != 'json':
        w = ref_parser(p, a)
        return {'ok': None if w is None else common.enc(w)}
    if not a:
        return {'ok': None}
    try:
        loaded = json.loads(' '.join(a))
    except ValueError:
        return {'err': {'name': 'json.decoder.JSONDecodeError'}}
    return {'ok': impl.enc_total(loaded)} if isinstance(loaded, dict) else {'err': {'name': 'TypeError'}}


def gen_parser_seq(rng, parser=None):
    """call - mutate the returned containers in place - call again with the SAME argument list (and other lists,
    other parsers, in between)."""
    p = parser or rng.choice(PARSERS)
    pool = [None, [], ['a=1', 'b=2'], ['a=1'], ['x', 'y'], ['k=v', 'bare'], ['{"a":', '{"b":', '[1]}}'],
            ['{"a": "l1\nl2"}'], ['k=\x01', 'l1\nl2', 'ü=😀'], ['{"a\t":', '{"b": "\\n"}}']]
    ops, ncalls = [], 0
    for _ in range(rng.randint(2, 5)):
        a = rng.choice(pool[:2] if rng.random() < 0.5 else pool)
        ops.append(['call', p if rng.random() < 0.85 else rng.choice(PARSERS), a])
        ncalls += 1
        if rng.random() < 0.85:
            ops.append(['mutate', rng.randrange(ncalls), rng.choice(MUTATIONS)])
    return ops


def check_parser_sequences(env, res, n):
    drv = env.driver
    rng = env.rng
    seqs = []
    for p in PARSERS:
        for a in (None, [], ['a=1', 'b=2'], ['x']):
            for how in MUTATIONS:
                # parse, mutate what came back, parse again with the same list: the second result is the first one's value
                seqs.append([['call', p, a], ['mutate', 0, how], ['call', p, a]])
        seqs.append([['call', p, None], ['mutate', 0, 'all'], ['call', p, []], ['mutate', 1, 'all'], ['call', p, None], ['call', p, ['k=v']]])
    seqs += [gen_parser_seq(rng) for _ in range(n)]
    reqs = [('cli.parsecalls', {'ops': [[o[0], o[1], (o[2] or [])] if o[0] == 'call' else ['mutate', o[1], None] for o in ops]})
            for ops in seqs]
    models = drv.ask_many(reqs)
    for ops, m in zip(seqs, models):
        case = {'kind': 'parser-seq', 'ops': ops}
        if isinstance(m, common.Reject):
            res.count('parser-seq:outside-model')
            continue
        real = impl.parser_seq_obs(ops)
        res.case(case, nontrivial=True)
        res.count('parser-seq')
        calls = [o for o in ops if o[0] == 'call']
        for k, (o, rv, mv) in enumerate(zip(calls, real, m)):
            short = o[1].rsplit('.', 1)[1]
            mv = {'err': {'name': mv['err']['name']}} if 'err' in mv else {'ok': mv['ok']}
            want = want_parser(o[1], o[2])
            if sort_keys(rv) != sort_keys(want):
                earlier = [i for i, c in enumerate(calls[:k]) if c[1] == o[1]]
                res.violation(case, f'call {k} of the sequence: {short} parser on {o[2]!r} gives {rv}, a function of the argument '
                              f'list gives {want} (earlier calls of this parser: {earlier}; their results were rewritten in place '
                              f'in between - {[x for x in ops if x[0] == "mutate"]})',
                              signature={'part': 'parser', 'parser': short, 'clause': 'function-of-the-argument-list',
                                         'args': 'none' if not o[2] else 'some'}, impl=real)
                break
            if sort_keys(mv) != sort_keys(rv):
                res.mismatch(case, m, real)
                break


def check_api_sequences(env, res, n):
    """Two or three `pipelinerunner.run()` calls in one process on pipelines with the same context parser; the first step of each
    run fills / empties the containers the parser put into the context. Every run must start from what the parser gives for ITS arguments."""
    rng = env.rng
    drv = env.driver
    combos = []
    for p in PARSERS:
        for how in ('fill', 'clear'):
            for args in (None, [], ['a=1', 'b=2']):
                combos.append((p, how, [{'args_in': args, 'dict_in': None, 'parse_args': True}] * 2))
        combos.append((p, 'fill', [{'args_in': None, 'dict_in': {'outdir': 'x'}, 'parse_args': True},
                                   {'args_in': [], 'dict_in': {'outdir': 'x'}, 'parse_args': True},
                                   {'args_in': ['k=v'], 'dict_in': None, 'parse_args': None}]))
    if len(combos) > n:
        keep = [c for c in combos if c[1] == 'fill' and not c[2][0]['args_in']]
        combos = keep + rng.sample([c for c in combos if c not in keep], max(0, n - len(keep)))
    for p, how, runs in combos:
        case = {'kind': 'api-seq', 'parser': p, 'how': how, 'runs': runs}
        real = impl.api_two_runs_obs(p, runs, how)
        res.case(case, nontrivial=True)
        res.count('api-seq:' + p.rsplit('.', 1)[1])
        for k, (r, rv) in enumerate(zip(runs, real)):
            want = want_parser(p, r['args_in'])
            if 'ok' in want:
                ctx = dict(r['dict_in'] or {})
                ctx.update(common.dec(want['ok']) or {})
                want = {'ok': common.enc(ctx)}
            m = drv.ask('cli.initctx', parser=p, parse_args=r['parse_args'], args_in=r['args_in'],
                        dict_in=None if r['dict_in'] is None else common.enc(r['dict_in']))
            mv = {'err': {'name': m['err']['name']}} if 'err' in m else {'ok': m['ok']}
            if sort_keys(rv) != sort_keys(want):
                res.violation(case, f'run {k} in this process ({p} on {r["args_in"]!r}): its first step saw {rv}, the arguments mean '
                              f'{want} - the earlier run(s) wrote into the containers the parser handed out',
                              signature={'part': 'api', 'parser': p.rsplit('.', 1)[1], 'clause': 'function-of-the-argument-list'}, impl=real)
                break
            if sort_keys(mv) != sort_keys(rv):
                res.mismatch(case, mv, rv)
                break

# --------------------------------------------------------------------------
# 3. parse_input table and the initial context through the API
# --------------------------------------------------------------------------

def check_api(env, res, n):
    drv = env.driver
    rng = env.rng
    args_opts = [None, [], ['a'], ['a', 'b=c']]
    dict_opts = [None, {}, {'k': 'v'}]
    for pa, ai, di in itertools.product([None, True, False], args_opts, dict_opts):
        case = {'kind': 'parse_input', 'parse_args': pa, 'args_in': ai, 'dict_in': di}
        m = drv.ask('cli.parseinput', parse_args=pa, args_in=ai, dict_given=di is not None)
        real = impl.parse_input_obs(pa, ai, di)
        res.case(case, nontrivial=True)
        res.count('parse_input')
        if m != real:
            res.mismatch(case, m, real)
        want = pa if pa is not None else not (di is not None and not ai)
        if real != want:
            res.violation(case, f'_get_parse_input({pa}, {ai}, {di}) = {real}: the parser must run unless a dict was '
                          'supplied without arguments or parsing was explicitly disabled',
                          signature={'part': 'parse_input', 'parse_args': str(pa), 'args': 'some' if ai else 'none',
                                     'dict': 'given' if di is not None else 'none'}, impl=real)
    sc = impl.ApiScratch(PARSERS)
    try:
        combos = []
        dicts = [None, {}, {'k': 'v'}, {'a': 'old', 'argList': ['keep'], 'n': 1}]
        arglists = [None, [], ['a=1'], ['a=1', 'b', 'a=2'], ['x y', 'z'], ['{"a":', '{"b": [1, 2]}}']]
        for p in PARSERS + [None]:
            for pa in (None, True, False):
                for ai in arglists:
                    for di in dicts:
                        combos.append((p, pa, ai, di))
        if len(combos) > n:
            keep = [c for c in combos if c[1] is None and c[3] is not None and not c[2]]   # the interesting row
            rest = [c for c in combos if c not in keep]
            combos = keep[:n // 3] + rng.sample(rest, n - min(len(keep), n // 3))
        reqs = [('cli.initctx', {'parser': p, 'parse_args': pa, 'args_in': ai,
                                 'dict_in': None if di is None else common.enc(di)}) for p, pa, ai, di in combos]
        models = drv.ask_many(reqs)
        for (p, pa, ai, di), m in zip(combos, models):
            case = {'kind': 'api', 'parser': p, 'parse_args': pa, 'args_in': ai, 'dict_in': di}
            if isinstance(m, common.Reject):
                res.count('api:outside-model')
                continue
            real = sc.run(p, pa, ai, di)
            res.case(case, nontrivial=True)
            res.count('api:' + (p.rsplit('.', 1)[1] if p else 'no-parser'))
            res.count('api-parser-runs:' + str(m['parser_runs']))
            mv = {'err': {'name': m['err']['name']}} if 'err' in m else {'ok': m['ok']}
            rv = real
            if p and p.endswith('json'):
                mv, rv = sort_keys(mv), sort_keys(rv)
            if mv != rv:
                res.mismatch(case, mv, rv)
            # monitor for the parsers whose result always leaves a trace: did it run exactly when it should?
            if p and p.rsplit('.', 1)[1] in ('list', 'string', 'dict', 'argskwargs') and 'ok' in real:
                key = {'list': 'argList', 'string': 'argString', 'dict': 'argDict', 'argskwargs': 'argList'}[p.rsplit('.', 1)[1]]
                should = pa if pa is not None else not (di is not None and not ai)
                ref = ref_parser(p, ai)[key]
                got = dict((k, v) for k, v in real['ok']['d']).get(key, '<absent>')
                before = common.enc(di[key]) if di and key in di else '<absent>'
                ran = got == common.enc(ref) and (got != before or should)
                if should and got != common.enc(ref):
                    res.violation(case, f'parser should have run: context[{key}] = {got}, parser gives {ref}',
                                  signature={'part': 'api', 'clause': 'parser-must-run'}, impl=real)
                if not should and got != before:
                    res.violation(case, f'parser must not run: context[{key}] = {got}, supplied {before}',
                                  signature={'part': 'api', 'clause': 'parser-must-not-run'}, impl=real)
                del ran
    finally:
        sc.close()


# --------------------------------------------------------------------------
# 3b. shortcuts: Pipeline.new_pipe_and_args under config.shortcuts
# --------------------------------------------------------------------------

ABSENT = '<absent>'


def gen_shortcut(rng, wild):
    sc = {}

    def put(key, choices):
        v = rng.choice(choices)
        if v is not ABSENT:
            sc[key] = v
    put('pipeline_name', ['real', 'real', 'dir/p', 'real', '', None, ABSENT] if rng.random() < 0.3 else ['real', 'dir/p'])
    put('parser_args', [ABSENT, ABSENT, None, [], ['a=1'], ['a=1', 'b c'], ['x=sc'], 'a=1 b=2', ''])
    put('skip_parse', [ABSENT, ABSENT, None, True, False])
    put('args', [ABSENT, ABSENT, None, {}, {'k': 'sc'}, {'k': 'sc', 'nested': {'x': [1, 2]}, 'only': 1}])
    put('groups', [ABSENT, ABSENT, None, 'g', ['g1', 'g2'], [], ''])
    put('success', [ABSENT, ABSENT, None, 's', ''])
    put('failure', [ABSENT, ABSENT, None, 'f'])
    put('loader', [ABSENT, ABSENT, ABSENT, None, 'my.loader'])
    put('py_dir', [ABSENT, ABSENT, None, '', '/abs/dir', 'rel//dir/', '.'])
    if wild and rng.random() < 0.5:
        k, v = rng.choice([('skip_parse', 0), ('skip_parse', 'false'), ('parser_args', [1, 2]), ('args', [1]), ('groups', 5),
                           ('groups', ['g', 1]), ('success', 3), ('py_dir', 7), ('pipeline_name', 5), ('args', {1: 2})])
        sc[k] = v
    return sc


def gen_api_call(rng, names):
    return {'name': rng.choice(names), 'context_args': rng.choice([None, [], ['x=1'], ['x=1', 'y'], ['a=mine']]),
            'parse_input': rng.choice([None, True, False]),
            'dict_in': rng.choice([None, None, {}, {'k': 'mine'}, {'k': 'mine', 'z': [1], 'nested': {'y': 0}}]),
            'loader': rng.choice([None, None, 'caller.loader']), 'groups': rng.choice([None, [], ['cg'], ['cg1', 'cg2']]),
            'success_group': rng.choice([None, 'cs']), 'failure_group': rng.choice([None, 'cf']),
            'py_dir': rng.choice([None, '/caller/dir'])}


def ref_shortcut(sc, call):
    """What the documentation says a shortcut does (docstrings of pipelinerunner.run / new_pipe_and_args), for a
    well-formed shortcut: every property the shortcut does not specify falls back to the caller's; the caller's
    arguments are appended to parser_args; the caller's dict is merged into args."""
    out = dict(call)
    out['name'] = sc['pipeline_name']
    pa = sc.get('parser_args')
    if pa:
        out['context_args'] = list(pa) + list(call['context_args'] or [])
    a = sc.get('args')
    if a:
        out['dict_in'] = {**a, **(call['dict_in'] or {})}
    for key, field in (('groups', 'groups'), ('success', 'success_group'), ('failure', 'failure_group'), ('loader', 'loader')):
        if key in sc:
            out[field] = sc[key]
    if isinstance(out['groups'], str):
        out['groups'] = [out['groups']]
    if sc.get('py_dir'):
        out['py_dir'] = {'path': sc['py_dir']}
    else:
        out['py_dir'] = {'caller': call['py_dir']}
    sp = sc.get('skip_parse')
    out['parse_input'] = (not sp) if sp is not None else not (not out['context_args'] and out['dict_in'] is not None)
    out['dict_in'] = None if out['dict_in'] is None else common.enc(out['dict_in'])
    del out['parse_input_caller']
    return out


DIRECTED_SHORTCUTS = [
    ({}, 'sc'), ({'sc': None}, 'sc'), ({'sc': {}}, 'sc'), ({'other': {'pipeline_name': 'x'}}, 'sc'),
    ({'sc': {'pipeline_name': 'real'}}, 'sc'), ({'sc': {'groups': 'g'}}, 'sc'), ({'sc': {'pipeline_name': ''}}, 'sc'),
    ({'sc': {'pipeline_name': 'real', 'parser_args': 'a b'}}, 'sc'),
    ({'sc': {'pipeline_name': 'real', 'parser_args': ['a=1'], 'args': {'k': 'sc'}, 'groups': ['g'], 'success': 's', 'failure': 'f',
             'loader': 'l', 'py_dir': '/d', 'skip_parse': True}}, 'sc'),
    ({'sc': {'pipeline_name': 'real', 'args': {'k': 'sc'}}}, 'sc'), ({'sc': {'pipeline_name': 'real', 'groups': None, 'success': None}}, 'sc'),
]


def check_shortcuts(env, res, n):
    from pathlib import Path
    drv = env.driver
    rng = env.rng
    cases = []
    for table, name in DIRECTED_SHORTCUTS:
        for pi in (None, True, False):
            for ca, di in ((None, None), (['x=1'], None), ([], {'k': 'mine'}), (['x=1'], {'k': 'mine'}), (None, {})):
                cases.append((table, {'name': name, 'context_args': ca, 'parse_input': pi, 'dict_in': di, 'loader': None,
                                      'groups': ['cg'], 'success_group': 'cs', 'failure_group': None, 'py_dir': '/caller'}))
    while len(cases) < n:
        wild = rng.random() < 0.15
        table = {}
        if rng.random() < 0.85:
            table['sc'] = gen_shortcut(rng, wild)
        if rng.random() < 0.3:
            table['zzz'] = gen_shortcut(rng, False)
        if rng.random() < 0.05:
            table['sc'] = rng.choice([None, {}, 'just a string'])
        cases.append((table, gen_api_call(rng, ['sc', 'sc', 'sc', 'other', 'zzz'])))
    models = drv.ask_many([('cli.shortcut', {'shortcuts': common.enc(t), 'call': {**c, 'dict_in': None if c['dict_in'] is None
                                                                                   else common.enc(c['dict_in'])}}) for t, c in cases])
    for (table, call), m in zip(cases, models):
        case = {'kind': 'shortcut', 'shortcuts': table, 'call': call}
        if isinstance(m, common.Reject):
            res.count('shortcut:outside-model')
            continue
        real = impl.shortcut_obs(table, call)
        res.case(case, nontrivial=True)
        sc = table.get(call['name']) if table else None
        kind = 'none' if not sc else ('error' if 'err' in real else 'applies')
        res.count('shortcut:' + kind)
        mv = m
        if 'ok' in m and 'path' in m['ok']['py_dir']:
            mv = {'ok': {**m['ok'], 'py_dir': {'path': str(Path(m['ok']['py_dir']['path']))}}}
        if mv != real:
            res.mismatch(case, mv, real)
        if real.get('config_mutated'):
            res.violation(case, 'new_pipe_and_args changed config.shortcuts', signature={'part': 'shortcut', 'clause': 'config-untouched'},
                          impl=real)
        if 'ok' not in real:
            continue
        got = real['ok']
        if not sc:
            # monitor (property text): without a shortcut of that name everything passes through unchanged and the
            # parser runs unless a dict was supplied without arguments or parsing was explicitly disabled
            want = {'name': call['name'], 'context_args': call['context_args'],
                    'parse_input': call['parse_input'] if call['parse_input'] is not None
                    else not (call['dict_in'] is not None and not call['context_args']),
                    'dict_in': None if call['dict_in'] is None else common.enc(call['dict_in']), 'loader': call['loader'],
                    'groups': call['groups'], 'success_group': call['success_group'], 'failure_group': call['failure_group'],
                    'py_dir': {'caller': call['py_dir']}}
            if got != want:
                diff = sorted(k for k in want if got.get(k) != want[k])
                res.violation(case, f'no shortcut named {call["name"]!r}: {diff} do not pass through unchanged: {got} vs {want}',
                              signature={'part': 'shortcut', 'clause': 'no-shortcut-identity', 'fields': ','.join(diff)}, impl=real)
        elif isinstance(sc, dict) and sc.get('pipeline_name'):
            want = ref_shortcut(sc, {**call, 'parse_input_caller': call['parse_input']})
            want['py_dir'] = {k: (str(Path(v)) if k == 'path' else v) for k, v in want['py_dir'].items()}
            if got != want:
                diff = sorted(k for k in want if got.get(k) != want[k])
                res.violation(case, f'shortcut {call["name"]!r}: documented rewrite gives {want}, new_pipe_and_args gives {got}',
                              signature={'part': 'shortcut', 'clause': 'documented-rewrite', 'fields': ','.join(diff)}, impl=real)


# --------------------------------------------------------------------------
# 4. exit status: the ladders in-process
# --------------------------------------------------------------------------

MSGS = ['boom', 'k=v', 'with "quotes"', "it's", 'ünï ✓', 'line1\nline2', '', ' spaced ', '{braces}', '%s %d']
TYPES = ['ValueError', 'RuntimeError', 'TypeError', 'AssertionError', 'KeyNotInContextError', 'PipelineNotFoundError',
         'ContextError', 'MyOwnError', 'OSError', 'Error']
# BaseExceptions that are neither Exception nor KeyboardInterrupt: nothing in pypyr catches them
EXIT_CODES = [0, None, 3, 1, 2, 130, 255, 256, 512, 257, -1, -256, {'text': 'bye now'}, {'text': ''},
              {'text': 'ünï ✓'}, {'text': '[1]'}, {'text': '1.5'}, 2 ** 40, -(2 ** 40) + 7]
BASES = ([{'kind': 'systemExit', 'code': c} for c in EXIT_CODES] +
         [{'kind': 'systemExit', 'code': 1, 'bool': True}, {'kind': 'systemExit', 'code': 0, 'bool': True}] +
         [{'kind': 'baseOther', 'ty': t, 'msg': m} for t, m in (('GeneratorExit', ''), ('GeneratorExit', 'ge'), ('MyBase', 'bb'),
                                                                 ('MyBase', ''), ('AbortRun', 'ünï ✓'))])
LOG_LEVELS = [None, None, 0, 1, 5, 9, 10, 25, 50, -5, -1]
SIG_EXIT0 = {'part': 'exit', 'clause': 'exit-0-iff-completed-or-stopped', 'fault': 'SystemExit'}
# one fixed opening sentence, so that every instance of this finding collapses into one VIOLATION line
EXIT0_TEXT = ('the command exits 0 although the pipeline neither ran to completion nor was ended by a Stop instruction: '
              'a SystemExit whose code means status 0 (sys.exit(0) / sys.exit() / sys.exit(256)) raised inside the run '
              'passes every handler of pypyr (all of them say `except Exception` or `except Stop`) - ')


def code_status(c):
    """Status the interpreter exits with for an unhandled SystemExit(code) - the harness's own reference."""
    if c is None:
        return 0
    if isinstance(c, dict):
        return 1
    return int(c) & 0xFF


def check_ladders(env, res, n):
    drv = env.driver
    rng = env.rng
    raiseds = [{'kind': k} for k in ('nothing', 'stop', 'stopPipeline', 'stopStepGroup', 'keyboardInterrupt')]
    fixed = len(raiseds) + len(BASES)
    errors = [{'kind': 'error', 'ty': t, 'msg': m} for t in TYPES for m in MSGS]
    raiseds += BASES + (errors if len(errors) + fixed <= n else rng.sample(errors, max(5, n - fixed)))
    for r in raiseds:
        lvl = rng.choice(LOG_LEVELS)
        case = {'kind': 'ladder', 'raised': r, 'log_level': lvl}
        try:
            m = drv.ask('cli.main', raised=r, log_level=lvl)
        except common.Reject:
            res.count('ladder:outside-model')
            continue
        real = impl.main_ladder_obs(r, log_level=lvl)
        real_pr = impl.pipeline_run_obs(r)
        res.case(case, nontrivial=True)
        res.count('ladder:' + r['kind'])
        res.count('ladder-log:' + ('none' if lvl is None else '0' if lvl == 0 else '<10' if lvl < 10 else '>=10'))
        if real['outcome'] == 'returned':
            mv = {k: m.get(k) for k in ('outcome', 'ret', 'stdout', 'stderr', 'main_traceback')}
            rv = {k: real.get(k) for k in ('outcome', 'ret', 'stdout', 'stderr', 'main_traceback')}
        else:
            mv = {'outcome': m['outcome'], 'escaped': m.get('escaped')}
            rv = {'outcome': 'escaped', 'escaped': real['escaped']}
        if mv != rv:
            res.mismatch(case, mv, {**rv, 'exc': real.get('exc')})
        if m['pipeline_run'] != real_pr:
            res.mismatch({**case, 'layer': 'Pipeline.run'}, m['pipeline_run'], real_pr)
        # monitors
        stop_family = r['kind'] in ('stop', 'stopPipeline', 'stopStepGroup')
        if stop_family and real_pr != 'nothing':
            res.violation(case, f'Pipeline.run lets {r["kind"]} escape ({real_pr}): the command would not exit 0',
                          signature={'part': 'exit', 'clause': 'stop-is-success', 'kind': r['kind']}, impl=real_pr)
        if r['kind'] in ('systemExit', 'baseOther'):
            # not an Exception: judged only on the "exits 0 exactly when" clause
            if real['outcome'] == 'escaped' and real['escaped'] == 'systemExit' and code_status(real.get('code')) == 0:
                res.violation(case, EXIT0_TEXT + f'in-process: SystemExit({real.get("code")!r}) raised by the runner leaves '
                              'cli.main, the interpreter will exit 0', signature=SIG_EXIT0, impl=real)
            elif real['outcome'] == 'returned' and (real['ret'] in (None, 0)):
                res.violation(case, EXIT0_TEXT + f'in-process: {r} raised by the runner: cli.main returns {real["ret"]}',
                              signature=SIG_EXIT0, impl=real)
            continue
        if real['outcome'] == 'escaped':
            res.violation(case, f'{r["kind"]} raised by the runner leaves cli.main ({real["exc"]}): the command dies with a '
                          'traceback and the interpreter\'s status',
                          signature={'part': 'exit', 'clause': 'escapes-main', 'kind': r['kind']}, impl=real)
            continue
        if r['kind'] == 'nothing' and real['ret'] not in (None, 0):
            res.violation(case, f'completed run returns {real["ret"]}', signature={'part': 'exit', 'clause': 'ok-0'}, impl=real)
        if r['kind'] == 'keyboardInterrupt' and real['ret'] != 130:
            res.violation(case, f'KeyboardInterrupt returns {real["ret"]}, not 130',
                          signature={'part': 'exit', 'clause': 'interrupt-130'}, impl=real)
        if r['kind'] == 'error':
            if real['ret'] != 255:
                res.violation(case, f'escaped {r["ty"]} returns {real["ret"]}, not 255',
                              signature={'part': 'exit', 'clause': 'error-255'}, impl=real)
            elif f"{r['ty']}: {r['msg']}" not in real['stderr']:
                res.violation(case, f'stderr lacks "{r["ty"]}: {r["msg"]}": {real["stderr"]!r}',
                              signature={'part': 'exit', 'clause': 'stderr-type-message'}, impl=real)


# --------------------------------------------------------------------------
# 4a. the run phase in-process: StepsRunner.run_step_groups with every group's step list ending as scripted
# --------------------------------------------------------------------------

def gen_group_end(rng, tag, allow_nothing=True):
    k = rng.choice(['nothing'] * (3 if allow_nothing else 0) + ['stop', 'stopPipeline', 'stopStepGroup', 'keyboardInterrupt',
                                                              'keyboardInterrupt', 'error', 'error', 'systemExit', 'baseOther'])
    if k == 'error':
        return {'kind': 'error', 'ty': rng.choice(['ValueError', 'RuntimeError', 'MyOwnError', 'OSError', 'ContextError']),
                'msg': f'{tag}: ' + rng.choice(MSGS)}
    if k == 'systemExit':
        c = rng.choice([0, None, 3, 1, 130, 255, 256, {'text': 'bye now'}])
        return {'kind': 'systemExit', 'code': c}
    if k == 'baseOther':
        return {'kind': 'baseOther', 'ty': rng.choice(['MyBase', 'GeneratorExit']), 'msg': f'{tag} base'}
    return {'kind': k}


def check_runphase_inproc(env, res, n):
    """model `runStepGroups` vs the real StepsRunner over scripted group endings; monitor from the property text: an
    interrupt that leaves a step of the main groups / the success group must be what leaves run_step_groups (else the
    command cannot exit 130), whatever the failure group does; an interrupt inside the failure handler likewise."""
    drv, rng = env.driver, env.rng
    kinds = ['nothing', 'stop', 'stopPipeline', 'stopStepGroup', 'keyboardInterrupt', 'error', 'systemExit', 'baseOther']
    E = {'kind': 'error', 'ty': 'ValueError', 'msg': 'orig'}
    fix = {'nothing': {'kind': 'nothing'}, 'stop': {'kind': 'stop'}, 'stopPipeline': {'kind': 'stopPipeline'},
           'stopStepGroup': {'kind': 'stopStepGroup'}, 'keyboardInterrupt': {'kind': 'keyboardInterrupt'}, 'error': E,
           'systemExit': {'kind': 'systemExit', 'code': 0}, 'baseOther': {'kind': 'baseOther', 'ty': 'MyBase', 'msg': 'bb'}}
    handler_err = {'kind': 'error', 'ty': 'OSError', 'msg': 'handler broke'}
    scripts = []
    # directed: every kind in main / success x every handler ending (incl. none, a missing group, an error of its own)
    for b in kinds:
        for h in [None, 'missing'] + [fix[k] for k in kinds if k != 'error'] + [handler_err]:
            scripts.append(([fix[b]], None, h))
            scripts.append(([fix['nothing'], fix['stopStepGroup'], fix[b], E], fix['nothing'], h))
            if b != 'nothing':
                scripts.append(([fix['nothing']], fix[b], h))
    directed = len(scripts)
    while len(scripts) < max(n, directed):
        mains = [gen_group_end(rng, f'g{i}') for i in range(rng.choice([1, 1, 2, 3, 4]))]
        success = rng.choice([None, 'missing', gen_group_end(rng, 'success'), gen_group_end(rng, 'success')])
        failure = rng.choice([None, 'missing', gen_group_end(rng, 'failure'), gen_group_end(rng, 'failure'),
                              gen_group_end(rng, 'failure', allow_nothing=False)])
        scripts.append((mains, success, failure))
    for mains, success, failure in scripts:
        case = {'kind': 'runphase-inproc', 'mains': mains, 'success': success, 'failure': failure}
        w = lambda r: None if r in (None, 'missing') else r
        try:
            m = drv.ask('cli.runphase', mains=mains, success=w(success), failure=w(failure))
        except common.Reject:
            res.count('runphase-inproc:outside-model')
            continue
        o = impl.run_step_groups_obs(mains, success, failure)
        res.case(case, nontrivial=True)
        res.count(f"runphase-inproc:body={m['body']}:handler={'none' if w(failure) is None else failure['kind']}")
        mstarted = [f'g{i}' for i in range(m['mains_started'])] + (['success'] if m['success_started'] else []) + \
                   (['failure'] if m['handler_runs'] else [])
        mv = {'leaves': m['leaves'], 'started': mstarted}
        if mv != o:
            res.mismatch(case, mv, o)
        # ---- monitor (independent of the model): walk the script the way the statement reads
        body = {'kind': 'nothing'}
        for r in mains:
            if r['kind'] not in ('nothing', 'stopStepGroup'):
                body = r
                break
        else:
            if w(success) is not None and success['kind'] != 'stopStepGroup':
                body = success
        if body['kind'] == 'keyboardInterrupt' and o['leaves']['kind'] != 'keyboardInterrupt':
            res.violation(case, f"a KeyboardInterrupt leaves a step of the main / success groups, the failure group ends with "
                          f"{failure if w(failure) else 'nothing (none given)'}: run_step_groups "
                          f"{'returns normally' if o['leaves']['kind'] == 'nothing' else 'raises ' + json.dumps(o['leaves'])} - "
                          f"the command cannot exit 130 (groups started: {o['started']})",
                          signature={**SIG_INTERRUPT, 'part': 'run_step_groups', 'handler': 'none' if w(failure) is None else failure['kind']},
                          impl=o)
        if body['kind'] == 'error' and w(failure) is not None and failure['kind'] == 'keyboardInterrupt' and \
                o['leaves']['kind'] != 'keyboardInterrupt':
            res.violation(case, f"an error in the steps, then a KeyboardInterrupt inside the failure handler: run_step_groups "
                          f"leaves with {json.dumps(o['leaves'])} - the command cannot exit 130",
                          signature={**SIG_INTERRUPT, 'part': 'run_step_groups', 'handler': 'interrupted'}, impl=o)


# --------------------------------------------------------------------------
# 4b. exit status: a fault in every phase of cli.main, in-process
# --------------------------------------------------------------------------

PHASES = ('config', 'logger', 'run')


def check_phase_ladders(env, res, n):
    """cli.main with a scripted fault in each phase (config.init / set_root_logger / below Pipeline.run),
    alone and in pairs (the earlier phase must win): model `cli.phases` vs the real function, and the
    monitor from the property text - whatever phase raised, main must return 130 / 255+text, never let it out
    (a BaseException that is no Exception is not judged against that clause; SystemExit with a status-0 code is
    reported against the "exits 0 exactly when" clause)."""
    drv = env.driver
    rng = env.rng
    NOTHING = {'kind': 'nothing'}
    singles = [{'kind': k} for k in ('keyboardInterrupt', 'stop', 'stopPipeline', 'stopStepGroup')]
    singles += [{'kind': 'error', 'ty': t, 'msg': m} for t, m in
                (('ValueError', 'boom'), ('ConfigError', 'Could not open config file at /x/y.yaml.'),
                 ('FileNotFoundError', "[Errno 2] No such file or directory: '/nodir/x.log'"), ('MyOwnError', ''),
                 ('TOMLDecodeError', 'line1\nline2'), ('OSError', 'ünï ✓'))]
    bases = [{'kind': 'systemExit', 'code': c} for c in (0, None, 3, 256, {'text': 'bye'})] + \
            [{'kind': 'baseOther', 'ty': 'GeneratorExit', 'msg': ''}, {'kind': 'baseOther', 'ty': 'MyBase', 'msg': 'bb'}]
    every = [{'kind': 'error', 'ty': t, 'msg': m} for t in TYPES for m in MSGS]
    cases = [{}]
    for ph in PHASES:
        for r in singles + bases:
            cases.append({ph: r})
    for a, b in (('config', 'logger'), ('config', 'run'), ('logger', 'run')):
        for ra in singles[:1] + singles[4:6] + bases[:1] + bases[5:6]:
            for rb in singles[:1] + singles[4:5] + bases[2:3]:
                cases.append({a: ra, b: rb})
    cases.append({'config': singles[4], 'logger': singles[0], 'run': singles[5]})
    extra = max(0, n - len(cases))
    for _ in range(extra):
        f = {}
        for ph in PHASES:
            if rng.random() < 0.45:
                f[ph] = rng.choice(every + singles + BASES)
        cases.append(f)
    for f in cases:
        faults = {ph: f.get(ph, NOTHING) for ph in PHASES}
        lvl = rng.choice(LOG_LEVELS)
        case = {'kind': 'phase-ladder', 'faults': faults, 'log_level': lvl}
        try:
            m = drv.ask('cli.phases', faults=faults, log_level=lvl)
        except common.Reject:
            res.count('phase-ladder:outside-model')
            continue
        real = impl.main_phases_obs(faults, log_level=lvl)
        res.case(case, nontrivial=True)
        # the first phase (source order of the property text: config, logging, run) whose call raises;
        # a Stop-family signal in the run phase is absorbed below main
        first = None
        for ph in PHASES:
            k = faults[ph]['kind']
            if k == 'nothing' or (ph == 'run' and k in ('stop', 'stopPipeline', 'stopStepGroup')):
                continue
            first = ph
            break
        res.count('phase-ladder:' + (f'{first}:{faults[first]["kind"]}' if first else 'none'))
        if real['outcome'] == 'returned':
            rv = {k: real.get(k) for k in ('outcome', 'ret', 'stdout', 'stderr', 'main_traceback')}
            mv = {k: m.get(k) for k in ('outcome', 'ret', 'stdout', 'stderr', 'main_traceback')}
        else:
            rv = {'outcome': 'escaped', 'escaped': real['escaped']}
            mv = {'outcome': m['outcome'], 'escaped': m.get('escaped')}
        if mv != rv:
            res.mismatch(case, mv, {**rv, 'exc': real.get('exc')})
        # which calls were reached: everything up to and including the first raising phase
        want_reached = list(PHASES[:PHASES.index(first) + 1]) if first else list(PHASES)
        if first is None and any(faults[ph]['kind'] != 'nothing' for ph in PHASES):
            want_reached = list(PHASES)
        if real.get('reached') != want_reached:
            res.mismatch({**case, 'layer': 'reached'}, want_reached, real.get('reached'))
        # ---- monitor
        fk = faults[first]['kind'] if first else 'none'
        cls = 'none' if not first else ('keyboardInterrupt' if fk == 'keyboardInterrupt' else
                                        'base' if fk in ('systemExit', 'baseOther') else 'exception')
        sig = {'part': 'exit', 'phase': first or 'none', 'fault': cls}
        if cls == 'base':
            if real['outcome'] == 'escaped' and real['escaped'] == 'systemExit' and code_status(real.get('code')) == 0:
                res.violation(case, EXIT0_TEXT + f'in-process, {first} phase: SystemExit({real.get("code")!r}) leaves cli.main, '
                              'the interpreter will exit 0', signature=SIG_EXIT0, impl=real)
            elif real['outcome'] == 'returned' and real['ret'] in (None, 0):
                res.violation(case, EXIT0_TEXT + f'in-process, {first} phase: {faults[first]}: cli.main returns {real["ret"]}',
                              signature=SIG_EXIT0, impl=real)
            continue
        if real['outcome'] == 'escaped':
            res.violation(case, f'{first} phase, {cls}: what this phase raises leaves cli.main uncaught (here {real["exc"]}): '
                          'the command dies with a traceback and the interpreter\'s status instead of ' +
                          ('130' if cls == 'keyboardInterrupt' else '255 with "<type>: <message>" on stderr'),
                          signature={**sig, 'clause': 'escapes-main'}, impl=real)
            continue
        status = 0 if real['ret'] is None else real['ret']
        if first is None:
            if status != 0:
                res.violation(case, f'nothing escaped any phase, main returns {real["ret"]}',
                              signature={**sig, 'clause': 'ok-0'}, impl=real)
        elif faults[first]['kind'] == 'keyboardInterrupt':
            if status != 130:
                res.violation(case, f'KeyboardInterrupt in the {first} phase: main returns {real["ret"]}, not 130',
                              signature={**sig, 'clause': 'interrupt-130'}, impl=real)
        else:
            r = faults[first]
            ty = r['ty'] if r['kind'] == 'error' else {'stop': 'Stop', 'stopPipeline': 'StopPipeline',
                                                      'stopStepGroup': 'StopStepGroup'}[r['kind']]
            msg = r.get('msg', '')
            if status != 255:
                res.violation(case, f'{ty} escaped the {first} phase: main returns {real["ret"]}, not 255',
                              signature={**sig, 'clause': 'error-255'}, impl=real)
            elif f'{ty}: {msg}' not in real['stderr']:
                res.violation(case, f'stderr lacks "{ty}: {msg}": {real["stderr"]!r}',
                              signature={**sig, 'clause': 'stderr-type-message'}, impl=real)


# --------------------------------------------------------------------------
# 5. exit status and pass-through: real processes
# --------------------------------------------------------------------------

def jpipe(**groups):
    return json.dumps(groups, indent=1, ensure_ascii=True)


def py(code, **deco):
    return {'name': 'pypyr.steps.py', 'in': {'py': code}, **deco}


def raise_step(ty, msg, **deco):
    pre = f'class {ty}(Exception): pass\n' if ty == 'MyOwnError' else ''
    return py(f'{pre}raise {ty}({msg!r})', **deco)


ECHO = {'name': 'pypyr.steps.echo', 'in': {'echoMe': 'hello'}}
NEVER = raise_step('RuntimeError', 'this step must never run')
BLOCK = ("import time\nopen('@TMP@/marker', 'w').close()\n"
         "t0 = time.monotonic()\nwhile time.monotonic() - t0 < 40: time.sleep(0.05)\n")
# a custom step module next to the pipeline: creates the marker, then blocks in ordinary Python code
BLOCKMOD = {'work/blocker.py': "import time\ndef run_step(context):\n    open('@TMP@/marker', 'w').close()\n"
                               "    t0 = time.monotonic()\n    while time.monotonic() - t0 < 40:\n        time.sleep(0.05)\n"}


def blk(**deco):
    return {'name': 'blocker', **deco} if deco else 'blocker'


def proc_cases(env, full):
    rng = env.rng
    C = []

    def add(term, variant, steps=None, expect=None, argv=None, files=None, raised=None, sigint=False, **groups):
        f = dict(files or {})
        if steps is not None:
            f['work/pipe.yaml'] = jpipe(steps=steps, **groups)
        C.append({'kind': 'proc', 'term': term, 'variant': variant, 'files': f, 'argv': ['pipe'] if argv is None else argv,
                  'expect': expect, 'raised': raised, 'sigint': sigint})

    OK = {'status': 0}
    # --- ran to completion
    add('ok', 'plain', [ECHO], OK)
    add('ok', 'swallowed-error', [raise_step('ValueError', 'x', swallow=True), ECHO], OK)
    add('ok', 'skipped-error', [raise_step('ValueError', 'x', skip=True), ECHO], OK)
    add('ok', 'with-on_success', [ECHO], OK, on_success=[ECHO])
    add('ok', 'retry-then-pass', [py("import os\nn = len(os.listdir('@TMP@/work'))\nopen(f'@TMP@/work/t{n}', 'w').close()\n"
                                     "if n < 3: raise ValueError('again')", retry={'max': 4})], OK)
    add('ok', 'empty-groups-arg', [ECHO], OK, argv=['pipe', '--groups', 'steps'])
    add('ok', 'log-50', [ECHO], OK, argv=['pipe', '--log', '50'])
    # --- ended by a Stop instruction
    for stopper in ('pypyr.steps.stop', 'pypyr.steps.stoppipeline', 'pypyr.steps.stopstepgroup'):
        short = stopper.rsplit('.', 1)[1]
        add(short, 'plain', [ECHO, stopper, NEVER], OK)
        add(short, 'swallow-on-it', [{'name': stopper, 'swallow': True}, NEVER], OK)
        add(short, 'in-called-group', [{'name': 'pypyr.steps.call', 'in': {'call': 'g'}}] +
            ([NEVER] if short != 'stopstepgroup' else [ECHO]), OK, g=[stopper, NEVER])
        add(short, 'in-foreach', [{'name': stopper, 'foreach': [1, 2, 3]}] + ([NEVER] if short != 'stopstepgroup' else []), OK)
        add(short, 'in-retry', [{'name': stopper, 'retry': {'max': 3}}] + ([NEVER] if short != 'stopstepgroup' else []), OK)
        add(short, 'in-on_success', [ECHO], OK, on_success=[stopper, NEVER])
        add(short, 'in-on_failure-after-error', [raise_step('ValueError', 'orig')], OK, on_failure=[stopper, NEVER])
        child = {'work/child.yaml': jpipe(steps=[stopper, NEVER])}
        if short == 'stop':
            add(short, 'in-child-pipeline', [{'name': 'pypyr.steps.pype', 'in': {'pype': {'name': 'child'}}}, NEVER], OK, files=child)
        else:
            add(short, 'in-child-pipeline-parent-continues', [{'name': 'pypyr.steps.pype', 'in': {'pype': {'name': 'child'}}},
                                                              raise_step('ValueError', 'parent went on')],
                {'status': 255, 'type': 'ValueError', 'msg': 'parent went on'}, files=child,
                raised={'kind': 'error', 'ty': 'ValueError', 'msg': 'parent went on'})
    # --- an error escaped: type and message by construction
    combos = [(t, m) for t in ('ValueError', 'RuntimeError', 'MyOwnError', 'OSError') for m in MSGS]
    if not full:
        combos = rng.sample(combos, 8)
    for t, m in combos:
        add('error', f'py-raise/{t}', [ECHO, raise_step(t, m), NEVER], {'status': 255, 'type': t, 'msg': m},
            raised={'kind': 'error', 'ty': t, 'msg': m}, argv=['pipe'] + (['--log', rng.choice(['50', '30'])] if rng.random() < 0.5 else []))
    E = lambda t, m: ({'status': 255, 'type': t, 'msg': m}, {'kind': 'error', 'ty': t, 'msg': m})
    e, r = E('ValueError', 'orig')
    add('error', 'on_failure-runs-then-original', [raise_step('ValueError', 'orig')], e, raised=r, on_failure=[ECHO])
    add('error', 'on_failure-fails-too', [raise_step('ValueError', 'orig')], e, raised=r,
        on_failure=[raise_step('RuntimeError', 'handler broke')])
    add('error', 'in-child-pipeline', [{'name': 'pypyr.steps.pype', 'in': {'pype': {'name': 'child'}}}, NEVER], e, raised=r,
        files={'work/child.yaml': jpipe(steps=[raise_step('ValueError', 'orig')])})
    add('error', 'retry-exhausted', [raise_step('ValueError', 'orig', retry={'max': 2})], e, raised=r)
    add('error', 'in-called-group', [{'name': 'pypyr.steps.call', 'in': {'call': 'g'}}, NEVER], e, raised=r, g=[raise_step('ValueError', 'orig')])
    add('error', 'traceback-log-5', [raise_step('ValueError', 'orig')], e, raised=r, argv=['pipe', '--log', '5'])
    for la in ([['--log', '9'], ['--log=0'], ['--log', '-5'], ['--logl', '10'], ['--log', ' 5 '], ['--log=+5'], ['--loglevel=1_0']]
               if full else [rng.choice([['--log', '9'], ['--log', ' 5 '], ['--log=+5']]), rng.choice([['--log=0'], ['--logl', '10']]),
                             ['--log', '-5']]):
        add('error', 'traceback/' + ' '.join(la), [raise_step('ValueError', 'orig')], e, raised=r, argv=['pipe'] + la)
    ez, rz = E('ZeroDivisionError', 'division by zero')
    add('error', 'zero-division', [py('1/0')], ez, raised=rz)
    add('error', 'swallow-false', [raise_step('ValueError', 'orig', swallow=False)], e, raised=r)
    # message discovered in-process (long library texts)
    T = lambda t: {'status': 255, 'type': t}
    add('error', 'assert', [{'name': 'pypyr.steps.assert', 'in': {'assert': False}}], T('AssertionError'), raised='discover')
    add('error', 'missing-key', [{'name': 'pypyr.steps.echo', 'in': {'echoMe': '{nokey}'}}], T('KeyNotInContextError'), raised='discover')
    add('error', 'unknown-step', ['no.such.stepmodule'], T('PyModuleNotFoundError'), raised='type-only')
    add('error', 'pipeline-not-found', None, T('PipelineNotFoundError'), argv=['nosuchpipe'], raised='type-only')
    add('error', 'json-parser-bad-json', [ECHO], T('JSONDecodeError'), argv=['pipe', '{bad'], raised='discover',
        context_parser='pypyr.parser.json')
    add('error', 'json-parser-array', [ECHO], T('TypeError'), argv=['pipe', '[1,', '2]'], raised='discover',
        context_parser='pypyr.parser.json')
    # a multi-line quoted shell argument: a RAW control character inside a json string is not json (RFC 8259 / the strict
    # stdlib decoder): no step runs, 255, the decoder's message. Between tokens LF/TAB/CR are whitespace: exit 0.
    for nm, arg in (('raw-LF-in-string', '{"msg": "line1\nline2"}'), ('raw-TAB-in-string', '{"msg": "a\tb"}'),
                    ('raw-U+0001-in-key', '{"k\x01": 1}')):
        add('error', 'json-parser-' + nm, [ECHO], T('JSONDecodeError'), argv=['pipe', arg], raised='discover',
            context_parser='pypyr.parser.json')
    add('ok', 'json-parser-LF-TAB-between-tokens', [ECHO], {'status': 0}, argv=['pipe', '{"a":\n1,\t"b":', '"x\\ny"}'],
        context_parser='pypyr.parser.json')
    # --- argparse refuses: status 2 (not part of the property; mirrors the model's usage result)
    add('usage', 'no-name', [ECHO], {'status': 2}, argv=[])
    add('usage', 'ctx-after-option', [ECHO], {'status': 2}, argv=['pipe', '--success', 's', 'extra'])
    # --- keyboard interrupt, delivered once the marker exists
    SI = {'status': 130}
    add('sigint', 'plain', [blk(), NEVER], SI, sigint=True, files=BLOCKMOD)
    add('sigint', 'swallow', [blk(swallow=True), NEVER], SI, sigint=True, files=BLOCKMOD)
    add('sigint', 'retry', [blk(retry={'max': 3}), NEVER], SI, sigint=True, files=BLOCKMOD)
    add('sigint', 'foreach', [blk(foreach=[1, 2]), NEVER], SI, sigint=True, files=BLOCKMOD)
    add('sigint', 'while', [blk(**{'while': {'max': 3}}), NEVER], SI, sigint=True, files=BLOCKMOD)
    add('sigint', 'in-child-pipeline', [{'name': 'pypyr.steps.pype', 'in': {'pype': {'name': 'child', 'raiseError': False}}}, NEVER],
        SI, sigint=True, files={'work/child.yaml': jpipe(steps=[blk()]), **BLOCKMOD})
    add('sigint', 'in-on_failure', [raise_step('ValueError', 'orig')], SI, sigint=True, on_failure=[blk()], files=BLOCKMOD)
    add('sigint', 'in-on_success', [ECHO], SI, sigint=True, on_success=[blk()], files=BLOCKMOD)
    add('sigint', 'in-called-group', [{'name': 'pypyr.steps.call', 'in': {'call': 'g'}}, NEVER], SI, sigint=True, g=[blk()],
        files=BLOCKMOD)
    add('sigint', 'during-cmd-step',
        [{'name': 'pypyr.steps.cmd', 'in': {'cmd': "@PY@ -S -c \"import time; open('@TMP@/marker','w').close(); time.sleep(40)\""}}, NEVER],
        SI, sigint=True)
    add('sigint', 'log-50', [blk(), NEVER], SI, sigint=True, argv=['pipe', '--log', '50'], files=BLOCKMOD)
    # interrupted inside exec() of a *string* (the py step): under `python -m` CPython 3.12 then ends the
    # process by re-raising SIGINT although cli.main caught the interrupt and returned 130 (a shell shows
    # 130 either way). Accepted as 130 when main's handler demonstrably ran; counted in the distribution.
    add('sigint', 'in-py-step-exec', [py(BLOCK), NEVER], {'status': 130, 'or_sigint_death': True}, sigint=True)
    # --- pass-through, end to end
    for _ in range(120 if full else 12):
        C.append(probe_case(rng))
    if full:
        # repeat every termination kind under the option layouts
        more = []
        for c in list(C):
            if c['kind'] != 'proc' or c['argv'][:1] != ['pipe'] or len(c['argv']) != 1:
                continue
            for extra in (['--log', '40'], ['--dir', '@TMP@/work'], ['--logpath', '@TMP@/log.txt']):
                c2 = json.loads(json.dumps(c))
                c2['argv'] = extra + ['pipe'] if rng.random() < 0.5 else ['pipe'] + extra
                c2['variant'] += '/' + extra[0]
                more.append(c2)
        C += more
    return C


PROBE = ("import json\nwith open('@TMP@/probe.jsonl', 'a', encoding='utf-8') as f:\n"
         "    f.write(json.dumps({'g': %r, 'ctx': {k: v for k, v in context.items() if k not in ('pycode', 'py', 'runErrors')}}, default=str) + '\\n')\n")


def probe_step(group):
    return {'name': 'pypyr.steps.py', 'in': {'pycode': PROBE % group}}


def probe_case(rng):
    """argv in an accepted layout against a pipeline whose every group reports itself and the context."""
    parser = rng.choice([p for p in PARSERS if not p.endswith('json')] + [None])
    gnames = ['steps', 'g1', 'g2', 'on_success', 'on_failure', 's1', 'f1']
    fail_in = rng.choice([None, None, 'g2', 'steps'])
    groups = {}
    for g in gnames:
        groups[g] = [probe_step(g)] + ([raise_step('ValueError', 'probe failure')] if g == fail_in else [])
    use_dir = rng.random() < 0.5
    if use_dir:
        groups['steps'] = groups['steps'][:1] + ['probemod'] + groups['steps'][1:]
        groups['g1'] = groups['g1'] + ['probemod']
    body = dict(groups)
    if parser:
        body['context_parser'] = parser
    files = {'work/pipe.yaml': json.dumps(body, indent=1),
             'mods/probemod.py': ("import json\ndef run_step(context):\n"
                                  "    with open('@TMP@/probe.jsonl', 'a') as f:\n"
                                  "        f.write(json.dumps({'g': 'probemod'}) + '\\n')\n")}
    ctx = [rng.choice([w for w in CTX_WORDS + DASH_ARGS[:7] if w not in ('-',)]) for _ in range(rng.choice([0, 1, 2, 4]))]
    opts = []
    g = rng.choice([None, ['g1'], ['g1', 'g2'], ['steps', 'g1'], ['g2', 'g1', 'g2']])
    if g is not None:
        opts.append(['groups', g])
    s = rng.choice([None, 's1', 'on_success'])
    if s is not None:
        opts.append(['success', s])
    f = rng.choice([None, 'f1', 'on_failure'])
    if f is not None:
        opts.append(['failure', f])
    if use_dir:
        opts.append(['dir', '@TMP@/mods'])
    opts.append(['log', rng.choice(['50', '+50', ' 50 ', '5_0'])])
    # every option in one of the spellings argparse accepts: exact / abbreviated, value separate / joined with =
    for o in opts:
        o.append(rng.choice(FLAGS[o[0]]))
        o.append(rng.random() < 0.4 and (o[0] != 'groups' or len(o[1]) == 1))
    rng.shuffle(opts)
    layout = rng.choice(['post', 'pre', 'dd'])
    ro = lambda os_: [x for o in os_ for x in render_opt(o)]
    if layout == 'post':
        argv = ['pipe'] + ctx + ro(opts)
    elif layout == 'pre':
        pre = opts[:rng.randint(0, len(opts))]
        while pre and opens_groups(pre[-1]):
            pre = pre[:-1]
        post = opts[len(pre):]
        argv = ro(pre) + ['pipe'] + ctx + ro(post)
    else:
        argv = ro(opts) + ['--', 'pipe'] + ctx
    # what should happen, from the documented CLI contract
    run_groups = g or ['steps']
    succ, fail = s, f
    if g is None and s is None and f is None:
        succ, fail = 'on_success', 'on_failure'

    def group_trace(name):
        return [name] + (['probemod'] if use_dir and name in ('steps', 'g1') else [])
    trace, failed = [], False
    for name in run_groups:
        trace += group_trace(name)
        if name == fail_in:
            failed = True
            break
    if failed:
        if fail:
            trace += group_trace(fail)
    elif succ:
        trace += group_trace(succ)
    want_ctx = ref_parser(parser, ctx) if parser else None
    return {'kind': 'proc', 'term': 'probe', 'variant': f'{layout}/{"fail" if failed else "ok"}', 'files': files, 'argv': argv,
            'expect': {'status': 255 if failed else 0, 'trace': trace, 'ctx': want_ctx or {},
                       **({'type': 'ValueError', 'msg': 'probe failure'} if failed else {})},
            'raised': {'kind': 'error', 'ty': 'ValueError', 'msg': 'probe failure'} if failed else None,
            'sigint': False, 'parser': parser, 'ctx_args': ctx}


# --------------------------------------------------------------------------
# 5a'. the run phase x the failure handler: WHAT leaves a step of the main groups / the success group / the failure
#      group (KeyboardInterrupt raised by a custom step module, a real SIGINT at a parked step, sys.exit(3), another
#      BaseException, an ordinary error) x HOW the failure handler in effect ends (absent, completes, stop,
#      stoppipeline, stopstepgroup, fails too) x default groups / --groups --success --failure
# --------------------------------------------------------------------------

RAISERS = {
    'ki-mod': ('work/raiser_ki.py', "def run_step(context):\n    raise KeyboardInterrupt()\n", {'kind': 'keyboardInterrupt'}),
    'sysexit3': ('work/raiser_exit.py', "import sys\n\n\ndef run_step(context):\n    sys.exit(3)\n", {'kind': 'systemExit', 'code': 3}),
    'base': ('work/raiser_base.py', "class MyBase(BaseException):\n    pass\n\n\ndef run_step(context):\n    raise MyBase('bb')\n",
             {'kind': 'baseOther', 'ty': 'MyBase', 'msg': 'bb'}),
    'error': ('work/raiser_err.py', "def run_step(context):\n    raise ValueError('orig')\n", {'kind': 'error', 'ty': 'ValueError', 'msg': 'orig'}),
    'sigint': ('work/blocker.py', BLOCKMOD['work/blocker.py'], {'kind': 'keyboardInterrupt'}),
}
RP_ENDS = {'completed': {'kind': 'nothing'}, 'stop': {'kind': 'stop'}, 'stopPipeline': {'kind': 'stopPipeline'},
           'stopStepGroup': {'kind': 'stopStepGroup'}, 'fails-too': {'kind': 'error', 'ty': 'OSError', 'msg': 'handler broke'}}
RP_POSITIONS = ('main', 'main2', 'main2-after-stopstepgroup', 'success')
SIG_INTERRUPT = {'part': 'process', 'term': 'interrupt', 'clause': 'status-130'}


def runphase_case(what, position, handler_end, custom):
    """One pipeline: every group = [probe(name), <what happens there>, probe(name-after)]."""
    mod_file, mod_src, raised = RAISERS[what]
    files = {mod_file: mod_src}
    step = os.path.basename(mod_file)[:-3]

    def grp(name, wire, raiser=None):
        mid = []
        if raiser is not None:
            mid = [raiser]
        elif wire['kind'] == 'stop':
            mid = ['pypyr.steps.stop']
        elif wire['kind'] == 'stopPipeline':
            mid = ['pypyr.steps.stoppipeline']
        elif wire['kind'] == 'stopStepGroup':
            mid = ['pypyr.steps.stopstepgroup']
        elif wire['kind'] == 'error':
            mid = [raise_step(wire['ty'], wire['msg'])]
        return [probe_step(name)] + mid + [probe_step(name + '-after')]
    NOTHING = {'kind': 'nothing'}
    g1, g2, su, fa = ('g1', 'g2', 's1', 'f1') if custom else ('steps', None, 'on_success', 'on_failure')
    body, mains, main_names = {}, [], []
    ERR = RAISERS['error'][2]
    if position == 'failure':
        # an ordinary error in the main group; `what` happens inside the failure handler
        body[g1] = grp(g1, ERR, raise_step('ValueError', 'orig'))
        mains, main_names = [ERR], [g1]
        body[su] = grp(su, NOTHING)
        success = NOTHING
        body[fa] = grp(fa, raised, step)
        failure = raised
    else:
        if position in ('main2', 'main2-after-stopstepgroup'):
            if not custom:
                return None
            first = NOTHING if position == 'main2' else {'kind': 'stopStepGroup'}
            body[g1] = grp(g1, first)
            body[g2] = grp(g2, raised, step)
            mains, main_names = [first, raised], [g1, g2]
        elif position == 'main':
            body[g1] = grp(g1, raised, step)
            mains, main_names = [raised], [g1]
            if custom:
                body[g2] = grp(g2, NOTHING)
                mains, main_names = [raised, NOTHING], [g1, g2]
        else:
            body[g1] = grp(g1, NOTHING)
            mains, main_names = [NOTHING], [g1]
        if position == 'success':
            body[su] = grp(su, raised, step)
            success = raised
        else:
            body[su] = grp(su, NOTHING)
            success = NOTHING
        if handler_end == 'absent':
            failure = None
            if not custom:
                pass            # the pipeline simply has no on_failure group
        else:
            failure = RP_ENDS[handler_end]
            body[fa] = grp(fa, failure)
    argv = ['pipe']
    if custom:
        argv += ['--groups'] + main_names + ['--success', su]
        if failure is not None:
            argv += ['--failure', fa]
        else:
            body['on_failure'] = grp('on_failure', {'kind': 'stop'})     # exists, but is not the handler of this run
    files['work/pipe.yaml'] = json.dumps(body, indent=1)
    return {'kind': 'proc', 'family': 'runphase', 'variant': f"{what}/{position}/{handler_end}/{'custom' if custom else 'default'}",
            'what': what, 'position': position, 'handler_end': handler_end, 'custom': custom, 'files': files, 'argv': argv,
            'sigint': what == 'sigint', 'mains': mains, 'main_names': main_names, 'success': success, 'success_name': su,
            'failure': failure, 'failure_name': fa if failure is not None else None}


def runphase_cases(env, full):
    rng = env.rng
    ends = ['absent'] + list(RP_ENDS)
    everything = []
    for what in RAISERS:
        for pos in RP_POSITIONS:
            for end in ends:
                for custom in (False, True):
                    everything.append((what, pos, end, custom))
    for what in RAISERS:
        if what != 'error':
            for custom in (False, True):
                everything.append((what, 'failure', 'n/a', custom))
    if full:
        chosen = everything
    else:
        chosen = []
        for k, end in enumerate(ends):
            # an interrupt raised by a step module: every handler ending x every position; a real SIGINT: rotating
            for j, pos in enumerate(RP_POSITIONS):
                chosen.append(('ki-mod', pos, end, pos != 'main' and (pos != 'success' or (k + j) % 2 == 0)))
            chosen.append(('ki-mod', 'main', end, True))
            chosen.append(('sigint', RP_POSITIONS[k % len(RP_POSITIONS)], end, True))
            chosen.append(('sigint', 'main', end, False))
            chosen.append(('error', ('main', 'success')[k % 2], end, k % 2 == 0))
        for what in ('sysexit3', 'base'):
            chosen += [(what, 'main', 'stop', False), (what, 'success', 'stopStepGroup', True), (what, 'main2', 'completed', True)]
        chosen += [(w, 'failure', 'n/a', i % 2 == 0) for i, w in enumerate(('ki-mod', 'sigint', 'sysexit3', 'base'))]
        rest = [c for c in everything if c not in chosen]
        chosen += rng.sample(rest, 10)
    out, seen = [], set()
    for spec in chosen:
        if spec in seen:
            continue
        seen.add(spec)
        c = runphase_case(*spec)
        if c is not None:
            out.append(c)
    return out


def judge_runphase(env, res, c, o):
    case = dict(c)
    res.case(case, nontrivial=True)
    res.count(f"proc:runphase:{c['what']}:{c['position'].split('-')[0]}:{c['handler_end']}")
    res.count('proc-status:' + str(o['status']))
    trace = [p['g'] for p in o['probe']]
    brief = {'status': o['status'], 'stderr_tail': o['stderr'][-500:], 'trace': trace}
    where = {'main': 'the first main group', 'main2': 'the second group of --groups',
             'main2-after-stopstepgroup': 'the second group of --groups (the first ended by stopstepgroup)',
             'success': 'the success group', 'failure': 'the failure group (after an error in the steps)'}[c['position']]
    handler = ('no failure group in effect' if c['failure'] is None else
               f"failure group {c['failure_name']!r} " + (f"ends: {c['handler_end']}" if c['position'] != 'failure' else 'is where it happens'))
    # ---- monitor, from the property text: 130 on keyboard interrupt - whatever the failure handler contains; 0 exactly
    #      when ran to completion or ended by a Stop instruction; 255 when an error escaped
    interrupted = c['what'] in ('ki-mod', 'sigint')
    reached = any(t == (c['failure_name'] if c['position'] == 'failure' else
                        c['success_name'] if c['position'] == 'success' else c['main_names'][-1 if c['position'] != 'main' else 0])
                  for t in trace)
    if interrupted and reached:
        how = 'a KeyboardInterrupt raised by a step' if c['what'] == 'ki-mod' else 'a real SIGINT while a step is running'
        if o['status'] != 130:
            res.violation(case, f"{how} in {where}; {handler}: exit status {o['status']}, expected 130 "
                          f"(`{' '.join(['pypyr'] + c['argv'])}`; groups that ran: {trace})",
                          signature={**SIG_INTERRUPT, 'what': c['what'], 'handler': 'stop-family' if c['handler_end'] in
                                     ('stop', 'stopPipeline', 'stopStepGroup') else c['handler_end']}, impl=brief)
    elif c['what'] == 'error' and reached:
        want = 0 if c['handler_end'] in ('stop', 'stopPipeline', 'stopStepGroup') else 255
        if o['status'] != want:
            res.violation(case, f"ValueError raised by a step in {where}; {handler}: exit status {o['status']}, expected {want}",
                          signature={'part': 'process', 'term': 'error-x-handler', 'clause': f'status-{want}',
                                     'handler': c['handler_end']}, impl=brief)
        elif want == 255 and '\033[91mValueError: orig' not in o['stderr']:
            res.violation(case, f"ValueError('orig') raised by a step in {where}; {handler}: stderr lacks 'ValueError: orig'",
                          signature={'part': 'process', 'term': 'error-x-handler', 'clause': 'stderr-type-message',
                                     'handler': c['handler_end']}, impl=brief)
    elif o['status'] == 0 and reached:
        res.violation(case, f"{c['what']} in {where}; {handler}: exit status 0 although the run neither completed nor was ended "
                      f"by a Stop instruction in its steps (groups that ran: {trace})",
                      signature={'part': 'process', 'term': 'base-x-handler', 'clause': 'exit-0-iff-completed-or-stopped',
                                 'what': c['what']}, impl=brief)
    # ---- model: run_step_groups over what leaves each group
    m = env.driver.ask('cli.runphase', mains=c['mains'], success=c['success'], failure=c['failure'])

    def gtrace(name, wire):
        return [name] + ([name + '-after'] if wire['kind'] == 'nothing' else [])
    mtrace = []
    for name, wire in list(zip(c['main_names'], c['mains']))[:m['mains_started']]:
        mtrace += gtrace(name, wire)
    if m['success_started']:
        mtrace += gtrace(c['success_name'], c['success'])
    if m['handler_runs']:
        mtrace += gtrace(c['failure_name'], c['failure'])
    status = o['status']
    mv = {'status': m['status'], 'trace': mtrace, 'stderr_contains': m['stderr']}
    rv = {'status': status, 'trace': trace, 'stderr_contains': m['stderr'] if m['stderr'] in o['stderr'] else o['stderr'][-300:]}
    if mv != rv:
        res.mismatch(case, {**mv, 'leaves_run': m['leaves_run']}, brief)


# --------------------------------------------------------------------------
# 5a. real processes: SystemExit / other BaseExceptions raised inside the run; help/version; shortcuts
# --------------------------------------------------------------------------

def exit_code_src(c):
    if isinstance(c, dict):
        return repr(c['text'])
    return repr(c)


def base_step(raised, **deco):
    if raised['kind'] == 'systemExit':
        c = bool(raised['code']) if raised.get('bool') else raised['code']
        return py(f"import sys\nsys.exit({exit_code_src(c)})", **deco)
    if raised['ty'] == 'GeneratorExit':
        return py(f"raise GeneratorExit({raised['msg']!r})", **deco)
    return py(f"class {raised['ty']}(BaseException): pass\nraise {raised['ty']}({raised['msg']!r})", **deco)


def base_cases(env, full):
    """`sys.exit(code)` / a BaseException that is no Exception raised by a step, in every position where pypyr
    has a handler that could (but must not be assumed to) interfere: a step after it (`never`), `on_success`
    and `on_failure` must not run; the process ends as the interpreter ends it."""
    rng = env.rng
    C = []
    P = probe_step

    def add(variant, raised, body, trace, files=None, argv=None):
        f = dict(files or {})
        f['work/pipe.yaml'] = json.dumps(body, indent=1, ensure_ascii=True)
        C.append({'kind': 'proc', 'family': 'base', 'variant': variant, 'raised': raised, 'files': f,
                  'argv': argv or ['pipe'], 'expect_trace': trace, 'sigint': False})
    S = lambda c, **k: {'kind': 'systemExit', 'code': c, **k}
    heads = [S(0), S(3), S({'text': 'text here'}), S(None), {'kind': 'baseOther', 'ty': 'MyBase', 'msg': 'bb'},
             {'kind': 'baseOther', 'ty': 'GeneratorExit', 'msg': 'ge'}]
    more = [S(c) for c in (1, 2, 130, 255, 256, 257, 512, -1, -256, 2 ** 40, {'text': ''}, {'text': 'ünï ✓'})] + \
           [S(1, bool=True), S(0, bool=True), {'kind': 'baseOther', 'ty': 'MyBase', 'msg': ''}]
    tails = {'on_success': [P('on_success')], 'on_failure': [P('on_failure')]}
    for r in heads + (more if full else rng.sample(more, 3)):
        add('plain', r, {'steps': [P('before'), base_step(r), P('never')], **tails}, ['before'])
    positions = [
        ('swallow', lambda r: {'steps': [P('before'), base_step(r, swallow=True), P('never')], **tails}, ['before']),
        ('retry', lambda r: {'steps': [P('before'), base_step(r, retry={'max': 3}), P('never')], **tails}, ['before']),
        ('foreach', lambda r: {'steps': [P('before'), base_step(r, foreach=[1, 2]), P('never')], **tails}, ['before']),
        ('while', lambda r: {'steps': [P('before'), base_step(r, **{'while': {'max': 3}}), P('never')], **tails}, ['before']),
        ('in-called-group', lambda r: {'steps': [P('before'), {'name': 'pypyr.steps.call', 'in': {'call': 'g'}}, P('never')],
                                       'g': [P('g'), base_step(r), P('never')], **tails}, ['before', 'g']),
        ('in-on_failure', lambda r: {'steps': [P('before'), raise_step('ValueError', 'orig'), P('never')],
                                     'on_failure': [P('on_failure'), base_step(r), P('never')], 'on_success': [P('on_success')]},
         ['before', 'on_failure']),
        ('in-on_success', lambda r: {'steps': [P('before')], 'on_success': [P('on_success'), base_step(r), P('never')],
                                     'on_failure': [P('on_failure')]}, ['before', 'on_success']),
    ]
    pos_raised = [S(0), S(3), {'kind': 'baseOther', 'ty': 'MyBase', 'msg': 'bb'}]
    for name, mk, trace in positions:
        for r in (pos_raised if full else [S(0), rng.choice(pos_raised[1:])]):
            add(name, r, mk(r), trace)
    for r in (pos_raised if full else [S(0)]):
        child = {'work/child.yaml': json.dumps({'steps': [P('child'), base_step(r), P('never')], 'on_failure': [P('on_failure')]})}
        add('in-child-pipeline', r, {'steps': [P('before'), {'name': 'pypyr.steps.pype', 'in': {'pype': {'name': 'child'}}}, P('never')],
                                     **tails}, ['before', 'child'], files=child)
        add('in-child-pipeline-raiseError-false', r,
            {'steps': [P('before'), {'name': 'pypyr.steps.pype', 'in': {'pype': {'name': 'child', 'raiseError': False}}}, P('never')],
             **tails}, ['before', 'child'], files=child)
        # an ordinary step module (no exec of a string) doing the same
        code = ('import sys\ndef run_step(context):\n    ' +
                (f"sys.exit({exit_code_src(r['code'])})" if r['kind'] == 'systemExit' else
                 f"raise type({r['ty']!r}, (BaseException,), {{}})({r['msg']!r})") + '\n')
        add('custom-step-module', r, {'steps': [P('before'), 'exiter', P('never')], **tails}, ['before'],
            files={'work/exiter.py': code})
    # the log level does not matter (main's handler is not involved)
    add('plain-log-5', S(0), {'steps': [P('before'), base_step(S(0)), P('never')], **tails}, ['before'], argv=['pipe', '--log', '5'])
    add('plain-log-5', S({'text': 'bye'}), {'steps': [P('before'), base_step(S({'text': 'bye'})), P('never')], **tails}, ['before'],
        argv=['pipe', '--log=5'])
    return C


def judge_base(env, res, c, o):
    drv = env.driver
    r = c['raised']
    case = dict(c)
    res.case(case, nontrivial=True)
    res.count(f"proc:base:{r['kind']}")
    res.count('proc-status:' + str(o['status']))
    brief = {'status': o['status'], 'stderr_tail': o['stderr'][-500:], 'trace': [p['g'] for p in o['probe']]}
    # ---- monitor: "exits 0 exactly when the pipeline ran to completion or was ended by a Stop instruction"
    if o['status'] == 0:
        res.violation(case, EXIT0_TEXT + f"`python -m pypyr pipe` with a step doing {r} ({c['variant']}): exit status 0, "
                      f"steps/handlers run: {brief['trace']} (the step after it, on_success and on_failure did not run)",
                      signature=SIG_EXIT0, impl=brief)
    # ---- model: status, what the interpreter writes, traceback or not; nothing after the raise runs
    m = drv.ask('cli.exit', raised={k: v for k, v in r.items() if k != 'bool'})
    tb = 'Traceback (most recent call last)' in o['stderr']
    mv = {'status': m['status'], 'stderr_contains': m['stderr'], 'traceback': m['interpreter_traceback'] or m['main_traceback'],
          'trace': c['expect_trace']}
    rv = {'status': o['status'], 'stderr_contains': m['stderr'] if m['stderr'] in o['stderr'] else o['stderr'][-300:],
          'traceback': tb, 'trace': brief['trace']}
    if mv != rv:
        res.mismatch(case, mv, rv)
    if r['kind'] == 'baseOther' and f"{r['ty']}: {r['msg']}".rstrip(': ') not in o['stderr']:
        res.mismatch(case, {'traceback_names': r['ty']}, brief)


def exit0_cases(env, full):
    """--version / -h / --help in real processes: status 0, the pipeline does not run."""
    body = {'steps': [probe_step('steps')], 'on_success': [probe_step('on_success')]}
    files = {'work/pipe.yaml': json.dumps(body, indent=1)}
    argvs = [['--version'], ['pipe', '--version'], ['-h'], ['pipe', 'a=b', '--success', 's', 'extra', '--ver'], ['--he', 'pipe']]
    if full:
        argvs += [['--groups', 'g', '--version'], ['--log', '5', '-h', '--nope'], ['pipe', '--', '--version'], ['--version', '--lo'],
                  ['--success', '--version'], ['-hh'], ['-hx'], ['--version=1']]
    return [{'kind': 'proc', 'family': 'exit0', 'variant': ' '.join(a), 'files': files, 'argv': a, 'sigint': False} for a in argvs]


def judge_exit0(env, res, c, o):
    case = dict(c)
    res.case(case, nontrivial=True)
    res.count('proc:exit0')
    res.count('proc-status:' + str(o['status']))
    m = env.driver.ask('cli.process', argv=c['argv'], raised={'kind': 'nothing'})
    trace = [p['g'] for p in o['probe']]
    rv = {'status': o['status'], 'runner_called': bool(trace)}
    if m != rv:
        res.mismatch(case, m, {**rv, 'stderr_tail': o['stderr'][-300:]})
    if any(a in ('--version', '--ver') for a in c['argv']) and m['status'] == 0 and not m['runner_called']:
        import pypyr.version
        if pypyr.version.get_version() not in o['stdout']:
            res.mismatch(case, {'stdout_contains': pypyr.version.get_version()}, {'stdout': o['stdout'][-200:]})


SC_CONFIG = """shortcuts:
  sc:
    pipeline_name: pipe
    parser_args: [a=1, b=2]
    args: {k: from-shortcut, only: 1}
    groups: [g1]
    success: s1
  argsonly:
    pipeline_name: pipe
    args: {k: from-shortcut}
  forced:
    pipeline_name: pipe
    args: {k: from-shortcut}
    skip_parse: false
  onegroup:
    pipeline_name: pipe
    groups: g2
    failure: f1
"""


def shortcut_proc_cases(env, full):
    """`pypyr <shortcut> …` with a ./pypyr-config.yaml: what runs and what the first step sees."""
    groups = {g: [probe_step(g)] for g in ('steps', 'g1', 'g2', 'on_success', 'on_failure', 's1', 'f1')}
    files = {'work/pypyr-config.yaml': SC_CONFIG}
    C = []

    def add(variant, argv, parser, trace, ctx, fail_in=None):
        body = {k: list(v) for k, v in groups.items()}
        if fail_in:
            body[fail_in] = body[fail_in] + [raise_step('ValueError', 'probe failure')]
        if parser:
            body['context_parser'] = parser
        C.append({'kind': 'proc', 'family': 'shortcut', 'variant': variant, 'argv': argv, 'parser': parser, 'sigint': False,
                  'files': {**files, 'work/pipe.yaml': json.dumps(body, indent=1)}, 'config': SC_CONFIG,
                  'expect': {'status': 255 if fail_in else 0, 'trace': trace, 'ctx': ctx}})
    KV = 'pypyr.parser.keyvaluepairs'
    add('parser_args+args+groups+success', ['sc', 'b=3', '--failure', 'f1'], KV, ['g1', 's1'],
        {'k': 'from-shortcut', 'only': 1, 'a': '1', 'b': '3'})
    add('args-only-no-cli-args: parser does not run', ['argsonly'], 'pypyr.parser.list', ['steps', 'on_success'], {'k': 'from-shortcut'})
    add('args-only-with-cli-args: parser runs', ['argsonly', 'x', 'y'], 'pypyr.parser.list', ['steps', 'on_success'],
        {'k': 'from-shortcut', 'argList': ['x', 'y']})
    add('no shortcut of that name: unchanged', ['pipe', 'k=mine', '--groups', 'g2', 'g1', '--success', 's1'], KV, ['g2', 'g1', 's1'],
        {'k': 'mine'})
    if full:
        add('skip_parse false', ['forced'], 'pypyr.parser.list', ['steps', 'on_success'], {'k': 'from-shortcut', 'argList': []})
        add('cli groups lose against the shortcut', ['sc', '--groups', 'g2'], KV, ['g1', 's1'],
            {'k': 'from-shortcut', 'only': 1, 'a': '1', 'b': '2'})
        add('string group, failure', ['onegroup', '--success', 's1'], None, ['g2', 'f1'], {}, fail_in='g2')
        add('cli success kept when the shortcut has none', ['onegroup', '--suc=s1'], None, ['g2', 's1'], {})
    return C


def judge_shortcut(env, res, c, o):
    import ruamel.yaml
    drv = env.driver
    case = dict(c)
    res.case(case, nontrivial=True)
    res.count('proc:shortcut')
    res.count('proc-status:' + str(o['status']))
    exp = c['expect']
    trace = [p['g'] for p in o['probe']]
    first = next((p for p in o['probe'] if 'ctx' in p), None)
    brief = {'status': o['status'], 'trace': trace, 'ctx': first and first['ctx'], 'stderr_tail': o['stderr'][-300:]}
    sig = {'part': 'process', 'term': 'shortcut'}
    named = c['argv'][0] in ruamel.yaml.YAML(typ='safe').load(c['config'])['shortcuts']
    what = 'documented shortcut rewrite' if named else 'pass-through (no shortcut of that name)'
    # ---- monitor: the documented contract (property text for names without a shortcut; docstring of run() otherwise)
    if o['status'] != exp['status'] or trace != exp['trace']:
        res.violation(case, f"{what}: groups run {trace} (status {o['status']}), the command line + config mean {exp['trace']}",
                      signature={**sig, 'clause': 'groups-success-failure'}, impl=brief)
    elif first is not None and first['ctx'] != exp['ctx']:
        res.violation(case, f"{what}: first step saw context {first['ctx']}, the command line + config mean {exp['ctx']}",
                      signature={**sig, 'clause': 'context'}, impl=brief)
    # ---- model: argv -> call -> applyShortcut -> initial context
    a = drv.ask('cli.argv', argv=c['argv'])
    call = a['call']
    shortcuts = ruamel.yaml.YAML(typ='safe').load(c['config'])['shortcuts']
    r = drv.ask('cli.shortcut', shortcuts=common.enc(shortcuts),
                call={'name': call['pipeline_name'], 'context_args': call['args_in'], 'parse_input': call['parse_args'],
                      'dict_in': None, 'loader': None, 'groups': call['groups'], 'success_group': call['success_group'],
                      'failure_group': call['failure_group'], 'py_dir': call['py_dir']})['ok']
    ic = drv.ask('cli.initctx', parser=c['parser'], parse_args=r['parse_input'], args_in=r['context_args'], dict_in=r['dict_in'])
    mctx = common.dec(ic['ok'])
    run_groups = r['groups'] or ['steps']
    succ, fail = r['success_group'], r['failure_group']
    if not r['groups'] and succ is None and fail is None:
        succ, fail = 'on_success', 'on_failure'
    mtrace = list(run_groups) + ([succ] if succ and exp['status'] == 0 else []) + ([fail] if fail and exp['status'] == 255 else [])
    mv = {'pipeline': r['name'], 'trace': mtrace, 'ctx': mctx}
    rv = {'pipeline': 'pipe' if trace else None, 'trace': trace, 'ctx': first and first['ctx']}
    if mv != rv:
        res.mismatch(case, mv, rv)



# --------------------------------------------------------------------------
# 5c. one command, two parser runs: a parent pipeline pypes a child with skipParse False (same parser)
# --------------------------------------------------------------------------

POLLUTE = ("from collections.abc import MutableMapping\n"
           "for v in list(context.values()):\n"
           "    if isinstance(v, MutableMapping):\n"
           "        v['polluted'] = 'by the parent'\n"
           "        v['a'] = 'overwritten'\n"
           "    elif isinstance(v, list):\n"
           "        v.append('polluted')\n")


def seqrun_cases(env, full):
    """`pypyr parent <args>`: the parent (context_parser P) fills the containers P gave it in place (a py step; with the dict
    parser also the documented `pypyr.steps.default`), then pypes a child that uses P too, with skipParse False and a fresh
    context: the child's first step must see what P gives for the CHILD's argument list."""
    rng = env.rng
    C = []
    arglists = [[], ['a=1', 'b=2'], ['x', 'y z']]
    combos = [(p, a, ca) for p in PARSERS for a in arglists for ca in arglists]
    keep = [c for c in combos if not c[1] and not c[2]]
    rest = [c for c in combos if c not in keep]
    if not full:
        rest = rng.sample(rest, 6)
    for p, a, ca in keep + rest:
        if p.endswith('json'):
            a = ['{"argDict":', '{"a":', '"b"}}'] if a else []
            ca = ['{"argDict":', '{"c":', '"d"},', '"l":', '[1]}'] if ca else []
        pype = {'name': 'child', 'skipParse': False, 'useParentContext': False}
        if ca:
            # the pype input is a formatting expression: literal braces are doubled; shlex.split undoes the quoting
            pype['pipeArg'] = ' '.join("'" + x + "'" if (' ' in x or '"' in x) else x for x in ca).replace('{', '{{').replace('}', '}}')
        steps = [probe_step('parent'), {'name': 'pypyr.steps.py', 'in': {'pycode': POLLUTE}}]
        if p.endswith('.dict'):
            steps.append({'name': 'pypyr.steps.default', 'in': {'defaults': {'argDict': {'env': 'dev', 'region': 'eu'}}}})
        steps.append({'name': 'pypyr.steps.pype', 'in': {'pype': pype}})
        files = {'work/parent.yaml': json.dumps({'context_parser': p, 'steps': steps}, indent=1),
                 'work/child.yaml': json.dumps({'context_parser': p, 'steps': [probe_step('child')]}, indent=1)}
        C.append({'kind': 'proc', 'family': 'seqrun', 'variant': p.rsplit('.', 1)[1], 'parser': p, 'files': files,
                  'argv': ['parent'] + a, 'ctx_args': a, 'child_args': ca, 'sigint': False})
    return C


def judge_seqrun(env, res, c, o):
    case = dict(c)
    res.case(case, nontrivial=True)
    res.count('proc:seqrun:' + c['variant'])
    res.count('proc-status:' + str(o['status']))
    brief = {'status': o['status'], 'stderr_tail': o['stderr'][-500:], 'probe': o['probe']}
    sig = {'part': 'process', 'term': 'seqrun', 'parser': c['variant']}
    seen = {p['g']: p.get('ctx') for p in o['probe']}
    wants = {}
    for g, a in (('parent', c['ctx_args']), ('child', c['child_args'])):
        w = want_parser(c['parser'], a)
        wants[g] = None if 'err' in w else (common.dec(w['ok']) or {})
    if any(w is None for w in wants.values()):
        return
    if o['status'] != 0 or set(seen) != {'parent', 'child'}:
        res.violation(case, f"parent + child with the same parser: exit status {o['status']}, steps that reported: {sorted(seen)}",
                      signature={**sig, 'clause': 'status-0'}, impl=brief)
        return
    for g in ('parent', 'child'):
        if seen[g] != wants[g]:
            res.violation(case, f"the {g} pipeline ({c['parser']} on {c['ctx_args'] if g == 'parent' else c['child_args']!r}) starts from "
                          f"{seen[g]}, its argument list means {wants[g]}" +
                          (' - what the parent wrote into ITS parser result shows up in the child\'s' if g == 'child' else ''),
                          signature={**sig, 'clause': 'function-of-the-argument-list', 'who': g}, impl=brief)
            return
    # model: two calls with a mutation in between
    m = env.driver.ask('cli.parsecalls', ops=[['call', c['parser'], c['ctx_args']], ['mutate', 0, None], ['call', c['parser'], c['child_args']]])
    mv = [common.dec(x['ok']) or {} for x in m]
    if mv != [seen['parent'], seen['child']]:
        res.mismatch(case, mv, [seen['parent'], seen['child']])


# --------------------------------------------------------------------------
# 5d. the context parser raises: which failure handler runs, how the command ends
# --------------------------------------------------------------------------

FAILPARSER = {'work/failparser.py': "class MyParserError(Exception):\n    pass\n\n\ndef get_parsed_context(args):\n"
                                   "    raise MyParserError('parser says no: ' + ' '.join(args or []))\n"}
HANDLER_TAILS = {'completed': [], 'stop': ['pypyr.steps.stop'], 'stopPipeline': ['pypyr.steps.stoppipeline'],
                 'stopStepGroup': ['pypyr.steps.stopstepgroup'], 'fails-too': None}
GROUP_OPTS = [{}, {'groups': ['g1']}, {'success': 's1'}, {'groups': ['g1'], 'success': 's1'}, {'groups': ['g1', 'steps']},
              {'groups': ['g1'], 'failure': 'f1'}, {'failure': 'f1'}, {'groups': ['g1'], 'failure': 'on_failure'},
              {'success': 's1', 'failure': 'f1'}, {'groups': ['g1'], 'failure': 'nosuch'}, {'success': 'on_success'}]


def parsefail_cases(env, full):
    """A context parser that raises on the given arguments x --groups/--success/--failure in every combination x pipelines whose
    on_failure / f1 groups end in every way a handler can end. Through the command line and through pipelinerunner.run()."""
    rng = env.rng
    C = []
    parsers = [('pypyr.parser.json', ['{"env":', '"prod"'], 'JSONDecodeError'), ('pypyr.parser.json', ['[1,', '2]'], 'TypeError'),
               ('pypyr.parser.json', ['{"msg":', '"line1\nline2"}'], 'JSONDecodeError'),
               ('failparser', ['a', 'b=c'], 'MyParserError'), ('failparser', [], 'MyParserError')]
    combos = []
    for pi, (parser, args, ty) in enumerate(parsers):
        for go in GROUP_OPTS:
            for of_end in ('stop', 'completed', 'stopPipeline', 'stopStepGroup', 'fails-too', None):
                for f1_end in ('completed', 'stop', 'stopStepGroup', 'stopPipeline'):
                    combos.append((parser, args, ty, go, of_end, f1_end))
    # the rows that tell most: something but --failure given x an on_failure that would stop
    key = [c for c in combos if c[3] and 'failure' not in c[3] and c[4] in ('stop', 'stopPipeline') and c[5] == 'completed']
    rest = [c for c in combos if c not in key]
    if not full:
        key = [c for c in key if c[0] == 'pypyr.parser.json' and c[2] == 'JSONDecodeError' and c[4] == 'stop'] + rng.sample(key, 4)
        # every way a handler that RUNS can end, once each (default on_failure; an explicit --failure)
        directed = [c for c in rest if c[0] == 'failparser' and c[1] and c[5] == 'completed' and c[3] == {} and c[4] is not None]
        directed += [c for c in rest if c[0] == 'failparser' and c[1] and c[4] == 'stop' and c[3] == {'groups': ['g1'], 'failure': 'f1'}]
        rest = directed + rng.sample([c for c in rest if c not in directed], 10)
    elif len(rest) > 200:
        rest = rng.sample(rest, 200)
    for k, (parser, args, ty, go, of_end, f1_end) in enumerate(key + rest):
        def grp(name, end):
            tail = HANDLER_TAILS[end]
            if tail is None:
                tail = [raise_step('OSError', 'handler broke')]
            return [probe_step(name)] + tail + ([probe_step(name + '-after')] if end == 'completed' else [NEVER])
        body = {'context_parser': parser, 'steps': [probe_step('steps')], 'g1': [probe_step('g1')], 's1': [probe_step('s1')],
                'on_success': [probe_step('on_success')], 'f1': grp('f1', f1_end)}
        if of_end is not None:
            body['on_failure'] = grp('on_failure', of_end)
        ends = {'f1': f1_end, **({'on_failure': of_end} if of_end is not None else {})}
        opts = []
        for name, flag in (('groups', '--groups'), ('success', '--success'), ('failure', '--failure')):
            if name in go:
                opts.append([name, go[name], rng.choice(FLAGS[name]), False])
        rng.shuffle(opts)
        optv = [x for o in opts for x in render_opt(o)]
        argv = (['pipe'] + args + optv) if not (opts and opens_groups(opts[-1]) and False) else None
        if args and any(a.startswith('-') for a in args):
            continue
        via = 'api' if k % 3 == 2 else 'cli'
        c = {'kind': 'proc', 'family': 'parsefail', 'variant': f'{ty}/{"+".join(sorted(go)) or "none"}', 'via': via,
             'files': {'work/pipe.yaml': json.dumps(body, indent=1), **(FAILPARSER if parser == 'failparser' else {})},
             'argv': argv, 'parser': parser, 'ctx_args': args, 'error_type': ty, 'group_args': go, 'handler_ends': ends, 'sigint': False,
             'api': {'args_in': args, 'groups': go.get('groups'), 'success_group': go.get('success'), 'failure_group': go.get('failure')}}
        C.append(c)
    return C


def expected_parser_msg(c):
    if c['parser'] == 'failparser':
        return 'parser says no: ' + ' '.join(c['ctx_args'])
    if c['error_type'] == 'JSONDecodeError':
        try:
            json.loads(' '.join(c['ctx_args']))
        except ValueError as e:
            return str(e)
    return None


def judge_parsefail(env, res, c, o):
    """o: {'status', 'stderr', 'probe'} (command line) or {'raised', 'probe'} (API)."""
    case = dict(c)
    res.case(case, nontrivial=True)
    go = c['group_args']
    res.count(f"proc:parsefail:{c['via']}:{'+'.join(sorted(go)) or 'none'}")
    trace = [p['g'] for p in o['probe']]
    # ---- what the command line means (documented: groups/success/failure given => exactly those; on_failure is the
    #      default handler only of a run that gives none of the three), from the property text
    handler = go.get('failure') if go else 'on_failure'
    end = c['handler_ends'].get(handler) if handler else None
    if end is None:
        want_trace, want_status = [], 255
    else:
        want_trace = [handler] + ([handler + '-after'] if end == 'completed' else [])
        want_status = 0 if end in ('stop', 'stopPipeline') else 255
    ty, msg = c['error_type'], expected_parser_msg(c)
    if c['via'] == 'cli':
        got_status = o['status']
        shown = o['stderr']
        brief = {'status': o['status'], 'stderr_tail': o['stderr'][-400:], 'trace': trace}
        res.count('proc-status:' + str(o['status']))
    else:
        r = o['raised']
        got_status = 0 if r is None else 255
        shown = '' if r is None else f"\033[91m{r['ty']}: {r['msg']}"
        brief = {'raised': r, 'trace': trace}
    sig = {'part': 'process', 'term': 'parser-error', 'via': c['via'], 'given': '+'.join(sorted(go)) or 'none'}
    what = (f"the context parser raises {ty}; the run gives {go or 'none of --groups/--success/--failure'}: the failure handler is "
            f"{handler!r}" + (f" (ends: {end})" if end else ' (no such handler: nothing to run)'))
    if trace != want_trace:
        res.violation(case, f"{what}; groups that ran: {trace}, expected {want_trace}",
                      signature={**sig, 'clause': 'groups-success-failure-passthrough'}, impl=brief)
    elif got_status != want_status:
        res.violation(case, f"{what}; " + (f"exit status {got_status}" if c['via'] == 'cli' else f"run() {'returned' if got_status == 0 else 'raised'}") +
                      f", expected {want_status}", signature={**sig, 'clause': f'status-{want_status}'}, impl=brief)
    elif want_status == 255:
        text = f"\033[91m{ty}: " + (msg or '')
        if text not in shown:
            res.violation(case, f"{what}; the parser's error is not what is reported: lacks {text!r}",
                          signature={**sig, 'clause': 'stderr-type-message'}, impl=brief)
    # ---- model
    body = [[g, 'completed' if e == 'fails-too' else e] for g, e in c['handler_ends'].items()]
    m = env.driver.ask('cli.parserfail', groups=go.get('groups'), success_group=go.get('success'), failure_group=go.get('failure'),
                       body=body, raised={'kind': 'error', 'ty': ty, 'msg': msg or ''})
    mtrace = [g for g in m['ran']] + ([m['ran'][0] + '-after'] if m['ran'] and c['handler_ends'].get(m['ran'][0]) == 'completed' else [])
    stderr_model = m['stderr'] if msg is not None else m['stderr'].split(': ')[0] + ': '
    rv = {'trace': trace, 'status': got_status}
    mv = {'trace': mtrace, 'status': m['status']}
    if mv != rv or (m['status'] == 255 and stderr_model.strip('\n') .replace('\x1b[0;0m', '') not in shown):
        res.mismatch(case, {**mv, 'stderr': stderr_model}, brief)


def check_api_runs(env, res, cases):
    for c in cases:
        judge_parsefail(env, res, c, impl.api_run_obs(c))

# --------------------------------------------------------------------------
# 5b. "any error escaped": a fault in every phase of the command, real processes
# --------------------------------------------------------------------------

HERMETIC = {'XDG_CONFIG_HOME': '@TMP@/xdg-home', 'XDG_CONFIG_DIRS': '@TMP@/xdg-dirs'}
GOOD_PIPE = {'work/pipe.yaml': json.dumps({'steps': [ECHO]}, indent=1)}
KI_STEP = {'work/kistep.py': "def run_step(context):\n    raise KeyboardInterrupt()\n"}
INJECT_TARGETS = {'config': 'pypyr.config:Config.init', 'logger': 'pypyr.log.logger:set_root_logger',
                  'run': 'pypyr.pipelinerunner:run'}


def natural_faults():
    """(intended phase, fault name, files, argv, env): the environment or the command line is broken in a way
    that makes one phase of the command fail by itself (no injection)."""
    F = []

    def add(phase, fault, files=None, argv=None, env=None):
        F.append((phase, fault, {**GOOD_PIPE, **(files or {})}, argv or ['pipe'], {**HERMETIC, **(env or {})}))
    # --- configuration look-up
    add('config', 'global-config-missing', env={'PYPYR_CONFIG_GLOBAL': '@TMP@/not-here.yaml'})
    add('config', 'global-config-is-directory', env={'PYPYR_CONFIG_GLOBAL': '@TMP@/work'})
    add('config', 'global-config-list', files={'g.yaml': '- a\n- b\n'}, env={'PYPYR_CONFIG_GLOBAL': '@TMP@/g.yaml'})
    add('config', 'global-config-unknown-key', files={'g.yaml': 'no_such: 1\n'}, env={'PYPYR_CONFIG_GLOBAL': '@TMP@/g.yaml'})
    add('config', 'local-config-list', files={'work/pypyr-config.yaml': '- just\n- a\n- list\n'})
    add('config', 'local-config-scalar', files={'work/pypyr-config.yaml': 'just text\n'})
    add('config', 'local-config-unknown-key', files={'work/pypyr-config.yaml': 'no_such_setting: 1\n'})
    add('config', 'local-config-bad-yaml', files={'work/pypyr-config.yaml': 'a: [1, 2\nb: }\n'})
    add('config', 'local-config-vars-not-mapping', files={'work/pypyr-config.yaml': 'vars: 5\n'})
    add('config', 'local-config-shortcuts-not-mapping', files={'work/pypyr-config.yaml': 'shortcuts: [1]\n'})
    add('config', 'local-config-env-name-list', files={'work/alt.yaml': '- x\n'}, env={'PYPYR_CONFIG_LOCAL': 'alt.yaml'})
    add('config', 'pyproject-malformed', files={'work/pyproject.toml': '[tool.pypyr\nbroken = = 1\n'})
    add('config', 'pyproject-unknown-key', files={'work/pyproject.toml': '[tool.pypyr]\nnope = 1\n'})
    add('config', 'pyproject-tool-pypyr-not-table', files={'work/pyproject.toml': '[tool]\npypyr = 3\n'})
    add('config', 'user-config-list', files={'xdg-home/pypyr/config.yaml': '- x\n'})
    add('config', 'user-config-bad-yaml', files={'xdg-home/pypyr/config.yaml': '{a: 1\n'})
    add('config', 'common-config-unknown-key', files={'xdg-dirs/pypyr/config.yaml': 'zzz: 1\n'})
    # --- logging set-up
    add('logger', 'logpath-in-missing-directory', argv=['pipe', '--logpath', '@TMP@/nodir/x.log'])
    add('logger', 'logpath-is-directory', argv=['--logpath', '@TMP@/work', 'pipe'])
    add('logger', 'log_config-unsupported-version', files={'work/pypyr-config.yaml': 'log_config:\n  version: 7\n'})
    add('logger', 'log_config-not-mapping', files={'work/pypyr-config.yaml': 'log_config: 5\n'})
    add('logger', 'log_config-unknown-handler-class', files={'work/pypyr-config.yaml': (
        'log_config:\n  version: 1\n  handlers:\n    h:\n      class: no.such.Handler\n  root:\n    handlers: [h]\n')})
    add('logger', 'log-format-not-string', files={'work/pypyr-config.yaml': 'log_notify_format: 5\n'})
    # --- pipeline load
    add('run', 'pipeline-not-found', argv=['nosuchpipe'])
    add('run', 'pipeline-not-found-with-args', argv=['nosuchpipe', 'a=b', '--groups', 'g', '--success', 's'])
    add('run', 'pipeline-bad-yaml', files={'work/bad.yaml': 'steps: [1, \n x: }'}, argv=['bad'])
    add('run', 'pipeline-list-at-top', files={'work/lst.yaml': '- a\n'}, argv=['lst'])
    add('run', 'pipeline-empty-file', files={'work/empty.yaml': ''}, argv=['empty'])
    add('run', 'context-parser-module-missing', files={'work/cp.yaml': jpipe(context_parser='no.such.parser', steps=[ECHO])},
        argv=['cp', 'x'])
    add('run', 'step-module-missing', files={'work/sm.yaml': jpipe(steps=['no.such.stepmodule'])}, argv=['sm'])
    add('run', 'shortcut-to-missing-pipeline', files={'work/pypyr-config.yaml': 'shortcuts:\n  sc:\n    pipeline_name: gone\n'},
        argv=['sc'])
    # --- pipeline run
    add('run', 'step-raises', files={'work/f.yaml': jpipe(steps=[ECHO, raise_step('ValueError', 'step failed'), NEVER])}, argv=['f'])
    add('run', 'step-raises-in-on_failure-too', files={'work/f.yaml': jpipe(steps=[raise_step('ValueError', 'orig')],
                                                                            on_failure=[raise_step('OSError', 'h')])}, argv=['f'])
    add('run', 'py-dir-module-raises-at-import', files={'work/f.yaml': jpipe(steps=['brokenmod']),
                                                        'mods/brokenmod.py': "raise RuntimeError('import blew up')\n"},
        argv=['f', '--dir', '@TMP@/mods'])
    # --- keyboard interrupt raised by a step (no signal involved)
    for variant, body in (('plain', {'steps': ['kistep', NEVER]}),
                          ('swallow', {'steps': [{'name': 'kistep', 'swallow': True}, NEVER]}),
                          ('retry', {'steps': [{'name': 'kistep', 'retry': {'max': 3}}, NEVER]}),
                          ('in-on_failure', {'steps': [raise_step('ValueError', 'orig')], 'on_failure': ['kistep']}),
                          ('in-on_success', {'steps': [ECHO], 'on_success': ['kistep']}),
                          ('in-foreach', {'steps': [{'name': 'kistep', 'foreach': [1, 2]}, NEVER]})):
        add('run', 'step-raises-KeyboardInterrupt/' + variant, files={'work/ki.yaml': json.dumps(body, indent=1), **KI_STEP},
            argv=['ki'])
    # --- nothing wrong: the same look-up places hold valid files
    add('none', 'valid-config-everywhere', files={'work/pypyr-config.yaml': 'json_indent: 4\nvars:\n  a: b\n',
                                                  'work/pyproject.toml': '[tool.pypyr]\njson_ascii = true\n[tool.other]\nx = 1\n',
                                                  'xdg-home/pypyr/config.yaml': 'default_success_group: on_success\n',
                                                  'xdg-dirs/pypyr/config.yaml': 'vars:\n  c: d\n'},
        argv=['pipe', '--logpath', '@TMP@/ok.log'])
    add('none', 'empty-config-files', files={'work/pypyr-config.yaml': '', 'work/pyproject.toml': ''})
    add('none', 'skip-init-with-broken-config', files={'work/pypyr-config.yaml': '- list\n'}, env={'PYPYR_SKIP_INIT': '1'})
    return F


def phase_of_stmt(stmt):
    for key, ph in (('config.init', 'config'), ('set_root_logger', 'logger'), ('pipelinerunner.run', 'run')):
        if key in stmt:
            return ph
    return 'other'


def fault_cases(env, full):
    from .. import extract_c18
    rng = env.rng
    C = []

    def mk(origin, phase, fault, files, argv, envv, inject=None, raised=None):
        return {'kind': 'proc', 'family': 'fault', 'origin': origin, 'phase': phase, 'fault': fault,
                'command': 'python -m pypyr ' + ' '.join(repr(a) if (' ' in a or not a) else a for a in argv),
                'cwd': 'work', 'files': files, 'argv': argv, 'env': envv, 'inject': inject, 'raised': raised, 'sigint': False}
    # 1. natural faults; what escapes and from which phase is found out by the reference child
    layouts = [[]] if not full else [[], ['--log', '50'], ['--log', '5'], ['--loglevel', '10']]
    for phase, fault, files, argv, envv in natural_faults():
        for extra in layouts:
            if extra and any(a in ('--log', '--loglevel') for a in argv):
                continue
            C.append(mk('natural', phase, fault, files, argv + extra, envv))
    # 2. the named call of each phase raises (shim), on an otherwise good run
    errs = [('ValueError', 'injected failure'), ('pypyr.errors.ConfigError', 'injected: Could not open config file'),
            ('MyOwnError', ''), ('OSError', 'ünï ✓ k=v'), ('RuntimeError', 'line1\nline2'), ('pypyr.errors.Stop', ''),
            ('pypyr.errors.StopPipeline', ''), ('pypyr.errors.StopStepGroup', '')]
    if full:
        errs += [(t, m) for t in ('ValueError', 'MyOwnError', 'pypyr.errors.PipelineNotFoundError') for m in MSGS]
    for phase, target in INJECT_TARGETS.items():
        for ty, msg in [('KeyboardInterrupt', '')] + (errs if full else errs[:2] + rng.sample(errs[2:], 3)):
            short = ty.rsplit('.', 1)[-1]
            raised = {'kind': 'keyboardInterrupt'} if ty == 'KeyboardInterrupt' else {'kind': 'error', 'ty': short, 'msg': msg}
            argv = ['pipe'] + rng.choice([[], ['--log', '50'], ['--log', '5'], ['a=b', '--groups', 'steps']])
            C.append(mk('call-raises', phase, short, dict(GOOD_PIPE), argv, dict(HERMETIC),
                        inject={'at': 'call', 'target': target, 'exc': ty, 'msg': msg}, raised=raised))
    # a Stop-family signal from below Pipeline.run ends the command with 0
    for ty in ('Stop', 'StopPipeline', 'StopStepGroup'):
        C.append(mk('call-raises', 'below-Pipeline.run', ty, dict(GOOD_PIPE), ['pipe'], dict(HERMETIC),
                    inject={'at': 'call', 'target': 'pypyr.pipeline:Pipeline.load_and_run_pipeline', 'exc': 'pypyr.errors.' + ty},
                    raised={'kind': {'Stop': 'stop', 'StopPipeline': 'stopPipeline', 'StopStepGroup': 'stopStepGroup'}[ty]}))
    # 3. every source line of cli.main after argument parsing raises (shim trace function)
    kinds = [('KeyboardInterrupt', ''), ('LineFault', 'raised at this line')]
    if full:
        kinds += [('pypyr.errors.ConfigError', 'x: y'), ('OSError', '')]
    for line, stmt in extract_c18.injectable_lines(common.REPO):
        for ty, msg in kinds:
            short = ty.rsplit('.', 1)[-1]
            raised = {'kind': 'keyboardInterrupt'} if ty == 'KeyboardInterrupt' else {'kind': 'error', 'ty': short, 'msg': msg}
            c = mk('line-raises', phase_of_stmt(stmt), short, dict(GOOD_PIPE), ['pipe'], dict(HERMETIC),
                   inject={'at': 'line', 'line': line, 'exc': ty, 'msg': msg}, raised=raised)
            c['stmt'] = stmt[:60]
            C.append(c)
    return C


def judge_fault(env, res, c, o, ref):
    """Monitor from the property text for one faulty run of the real command. `ref`: observation of the
    reference child (natural faults) or None (the fault is known by construction)."""
    drv = env.driver
    case = dict(c)
    res.case(case, nontrivial=True)
    if ref is not None:
        phase, raised = ref['discovered']['phase'] or 'none', ref['discovered']['raised']
    else:
        phase, raised = c['phase'], c['raised']
        if c['inject'] and not o.get('fired'):
            # the line has no line event of its own (continuation line): nothing was injected
            res.count('fault:line-not-reached')
            phase, raised = 'none', {'kind': 'nothing'}
    res.count(f"fault:{c['origin']}:{phase}:{raised['kind']}")
    res.count('proc-status:' + str(o['status']))
    if ref is not None and phase != c['phase']:
        res.count(f"fault:natural:intended-{c['phase']}-was-{phase}")
    brief = {'status': o['status'], 'stdout_tail': o['stdout'][-200:], 'stderr_tail': o['stderr'][-900:]}
    sig = {'part': 'process', 'origin': c['origin'], 'phase': phase, 'fault': c['fault'].split('/')[0]}
    where = f"{c['origin']} fault {c['fault']!r} in the {phase} phase" + (f" (line {c['inject']['line']}: {c.get('stmt')})"
                                                                        if c['origin'] == 'line-raises' else '')
    uncaught = o['status'] not in (0, 130, 255) and 'Traceback (most recent call last)' in o['stderr']
    how = ' - the exception left cli.main uncaught (raw traceback)' if uncaught else ''
    kind = raised['kind']
    if kind == 'nothing' or (kind in ('stop', 'stopPipeline', 'stopStepGroup') and phase in ('run', 'below-Pipeline.run')):
        want = 0
    elif kind == 'keyboardInterrupt':
        want = 130
    else:
        want = 255
    if o['status'] != want:
        res.violation(case, f"{where}: {kind} -> exit status {o['status']}, expected {want}{how}",
                      signature={**sig, 'clause': f'status-{want}'}, impl=brief)
    elif want == 255:
        ty = raised['ty'] if kind == 'error' else {'stop': 'Stop', 'stopPipeline': 'StopPipeline',
                                                  'stopStepGroup': 'StopStepGroup'}[kind]
        text = f"{ty}: {raised.get('msg', '')}"
        if text not in o['stderr']:
            res.violation(case, f"{where}: status 255 but stderr lacks {text!r}",
                          signature={**sig, 'clause': 'stderr-type-message'}, impl=brief)
    # ---- model
    if phase in ('config', 'logger', 'run', 'none', 'below-Pipeline.run'):
        faults = {ph: {'kind': 'nothing'} for ph in PHASES}
        if phase != 'none':
            faults['run' if phase == 'below-Pipeline.run' else phase] = raised
        m = drv.ask('cli.phases', faults=faults)
        ok = m['outcome'] == 'returned' and m['status'] == o['status'] and m['stderr'] in o['stderr']
        if ok and kind == 'keyboardInterrupt' and not o['stdout'].endswith(m['stdout']):
            ok = False
        if not ok:
            res.mismatch(case, {k: m.get(k) for k in ('outcome', 'status', 'stdout', 'stderr')}, brief,
                         note=f'phase={phase} raised={raised}')


def judge_proc(env, res, c, o):
    drv = env.driver
    exp = c['expect']
    case = {k: v for k, v in c.items()}
    res.case(case, nontrivial=True)
    res.count('proc:' + c['term'])
    res.count('proc-status:' + str(o['status']))
    brief = {'status': o['status'], 'stderr_tail': o['stderr'][-600:], 'probe': o['probe']}
    sig = {'part': 'process', 'term': c['term'], 'variant': c['variant'].split('/')[0]}
    # ---- monitor: the property text
    if exp.get('or_sigint_death') and o['status'] == -2 and o['stdout'].endswith('\n'):
        res.count('sigint:exec-str-under-dash-m:died-by-SIGINT-after-main-returned')
        o = {**o, 'status': 130}
    if o['status'] != exp['status']:
        res.violation(case, f"{c['term']}/{c['variant']}: exit status {o['status']}, expected {exp['status']}",
                      signature={**sig, 'clause': f"status-{exp['status']}"}, impl=brief)
    if exp['status'] == 255 and o['status'] == 255:
        want = f"\033[91m{exp['type']}: " + exp.get('msg', '')
        if want not in o['stderr']:
            res.violation(case, f"stderr lacks {want!r}", signature={**sig, 'clause': 'stderr-type-message'}, impl=brief)
    if c['term'] == 'probe':
        got_trace = [p['g'] for p in o['probe']]
        if got_trace != exp['trace']:
            res.violation(case, f"groups/modules run {got_trace}, command line means {exp['trace']}",
                          signature={**sig, 'clause': 'groups-success-failure-dir-passthrough'}, impl=brief)
        first = next((p for p in o['probe'] if 'ctx' in p), None)
        if first is not None and first['ctx'] != exp['ctx']:
            res.violation(case, f"first step saw context {first['ctx']}, arguments mean {exp['ctx']}",
                          signature={**sig, 'clause': 'context-args-passthrough'}, impl=brief)
    # ---- model: status and what main itself writes to stderr
    raised = c.get('raised')
    if exp['status'] == 2:
        m = drv.ask('cli.argv', argv=c['argv'])
        if 'usage' not in m:
            res.mismatch(case, m, brief, note='model accepts an argv the process refuses')
        return
    if c['sigint']:
        raised = {'kind': 'keyboardInterrupt'}
    elif raised == 'discover':
        raised = impl.discover(c)
    elif raised == 'type-only':
        raised = {'kind': 'error', 'ty': exp['type'], 'msg': ''}
    elif raised is None:
        raised = {'kind': {'ok': 'nothing', 'probe': 'nothing', 'stop': 'stop', 'stoppipeline': 'stopPipeline',
                           'stopstepgroup': 'stopStepGroup'}[c['term']]}
    lvl = None
    try:
        am = drv.ask('cli.argv', argv=c['argv'])
        lvl = am['ok']['log'] if 'ok' in am else None
    except common.Reject:
        pass
    m = drv.ask('cli.exit', raised=raised, log_level=lvl)
    stderr_model = m['stderr']
    if c.get('raised') == 'type-only':
        stderr_model = stderr_model.split(': ')[0] + ': '
    ok = m['status'] == o['status'] and (stderr_model in o['stderr'])
    if ok and o['status'] == 255:
        # the traceback after the "type: message" line: printed iff the log level is given, non-zero and < 10
        res.count(f"proc-traceback:{'shown' if m['main_traceback'] else 'not-shown'}")
        after = o['stderr'].split(stderr_model, 1)[1] if stderr_model in o['stderr'] else o['stderr']
        if ('Traceback (most recent call last)' in after) != m['main_traceback']:
            ok = False
    if c['sigint'] and not o['stdout'].endswith(m['stdout']):
        ok = False
    if not ok:
        res.mismatch(case, {'status': m['status'], 'stderr_contains': stderr_model, 'raised': raised}, brief)
    if c['term'] == 'probe' and c.get('parser'):
        pm = drv.ask('cli.parser', parser=c['parser'], args=c['ctx_args'])
        first = next((p for p in o['probe'] if 'ctx' in p), None)
        want = {} if pm['ok'] is None else common.dec(pm['ok'])
        if first is not None and first['ctx'] != want:
            res.mismatch(case, {'ctx': want}, {'ctx': first['ctx']})


def check_procs(env, res, cases):
    impl.check_import_path()
    workers = max(2, min(12, (os.cpu_count() or 4) - 2))
    jobs = []
    for c in cases:
        jobs.append(c)
        if c.get('family') == 'fault' and c['origin'] == 'natural':
            jobs.append({**c, 'mode': 'discover'})
    with concurrent.futures.ThreadPoolExecutor(workers) as ex:
        obs = list(ex.map(impl.run_proc, jobs))
    it = iter(obs)
    for c in cases:
        o = next(it)
        if c.get('family') == 'fault':
            judge_fault(env, res, c, o, next(it) if c['origin'] == 'natural' else None)
        elif c.get('family') == 'base':
            judge_base(env, res, c, o)
        elif c.get('family') == 'exit0':
            judge_exit0(env, res, c, o)
        elif c.get('family') == 'shortcut':
            judge_shortcut(env, res, c, o)
        elif c.get('family') == 'seqrun':
            judge_seqrun(env, res, c, o)
        elif c.get('family') == 'parsefail':
            judge_parsefail(env, res, c, o)
        elif c.get('family') == 'runphase':
            judge_runphase(env, res, c, o)
        else:
            judge_proc(env, res, c, o)


# --------------------------------------------------------------------------

def extract(env):
    """Regenerate lean/Generated/CliMain.lean from pypyr/cli.py + pypyr/__main__.py of the tree under test
    (ast only); Props/C18.lean `main_shape_agrees` proves it equals what the model assumes."""
    from .. import extract_c18
    extract_c18.generate(common.REPO, common.LEAN / 'Generated' / 'CliMain.lean')
    # second static tie: the six built-in context parsers translated to Lean (harness/translate.py ->
    # lean/Generated/TranslatedParser*.lean); Props/Translated_C18.lean proves them equal to Cli.parse
    from .. import translate
    translate.generate(['C18'])
    if not env.quick and not env.escalated:
        from .. import translate_selftest
        translate_selftest.check(['C18'], env.seed)


def order_findings(res):
    """Only the first few distinct findings get a replay file: put the most concrete ones first - real
    command lines (a step calling sys.exit, broken files), then injected faults in real processes, then
    everything else, in-process scripted ladders last."""
    def prio(f):
        if f['kind'] != 'property':
            return 0
        c = f['case'] if isinstance(f['case'], dict) else {}
        if f.get('signature') == SIG_EXIT0:
            # one finding, many instances (they collapse into one VIOLATION line): after everything else, the
            # real command line first
            return 5 if c.get('family') == 'base' else 6
        if c.get('family') == 'fault':
            return {'natural': 0, 'call-raises': 1, 'line-raises': 2}.get(c.get('origin'), 2)
        return 4 if c.get('kind') in ('phase-ladder', 'ladder') else 3
    res.findings.sort(key=prio)


def check_cwd_default(env, res):
    case = {'kind': 'cwd-default'}
    o = impl.cwd_default_obs()
    res.case(case, nontrivial=True)
    res.count('cwd-default')
    want = {'is_config_cwd': True, 'is_module_CWD': True, 'same_after_chdir': True}
    if o != want:
        res.mismatch(case, want, o, note='the default of --dir is the module constant pypyr.config.CWD (model: dir = none)')


def run(env, res):
    res.rule = ('argv: directed list + command lines rendered in the three accepted layouts from random options/values '
                '(=, spaces, quotes, unicode, empty strings, group lists), every option written with its exact string or a '
                'unique-prefix abbreviation and its value separate or joined with "=", --log values in every spelling int() '
                'takes, names/context arguments/values that start with "-" (negative numbers, blanks) + help/version '
                'options among valid options + adversarial token soup over all of these (ambiguous abbreviations, unknown '
                'options, -h chains, out-of-domain strings); single strings vs ArgumentParser._parse_optional (every prefix '
                'of every option string, = forms, negative-number matcher, random dash strings); parsers: empty/None, '
                'directed and random argument lists for each of the 7 parsers, every stream with raw control characters '
                '(LF TAB CR ESC U+0001..), DEL/C1, non-ASCII of every plane, unicode spaces/BOM, quotes, backslashes, lone '
                'surrogates (json: generated documents cut at spaces, non-objects, invalid text, and documents with one '
                'raw character / escape inside a string, one character between tokens, NaN/Infinity/odd literals, '
                'duplicate keys - judged by the stdlib strict decoder); _get_parse_input: full 3x4x3 table; API initial context: parser x parse_args '
                'x args_in x dict_in; shortcuts: directed + generated config.shortcuts tables x API calls through '
                'Pipeline.new_pipe_and_args (every key absent/null/empty/set, out-of-domain kinds counted); exit ladders '
                'in-process: every kind x type x message x log level, SystemExit(code) for 21 codes and other '
                'BaseExceptions; StepsRunner.run_step_groups in-process on pipelines whose groups end as scripted (every kind of exit '
                'in 1-4 main groups / the success group x every ending of the failure group, none, a missing group); real processes: generated pipelines per way of termination (ok, '
                'stop/stoppipeline/stopstepgroup in 8 positions, error kinds x log levels for the traceback, SIGINT in 11 '
                'positions), sys.exit(code) / BaseException raised by a step in 12 positions (probe steps after it, on_success, '
                'on_failure must not run), the run phase x the failure handler (KeyboardInterrupt from a custom step module / real '
                'SIGINT at a parked step / sys.exit(3) / another BaseException / an error, in the first or second main group, the '
                'success group or the failure group x handler absent / completes / stop / stoppipeline / stopstepgroup / fails too x '
                'default groups or --groups --success --failure: 130 on interrupt whatever the handler contains), --version/-h, shortcuts from a pypyr-config.yaml, and end-to-end pass-through '
                'probes written with abbreviations / = / dash-leading arguments; a fault in every phase of the command: '
                'in-process cli.main with scripted raises from config.init / set_root_logger / below Pipeline.run, alone '
                'and in pairs; real processes with broken config files / $PYPYR_CONFIG_GLOBAL / pyproject.toml / '
                'log_config / --logpath / missing or malformed pipelines / failing steps / steps raising '
                'KeyboardInterrupt (what escapes and from which phase is established by a reference child), with the '
                'named call of each phase raising (shim), and with every source line of cli.main after argument parsing '
                'raising (trace-function shim). non-trivial = all')
    q = env.quick
    impl.quiet_logging()
    check_argv(env, res, 1500 if q else 12000, 700 if q else 8000)
    check_classify(env, res, 300 if q else 6000)
    check_cwd_default(env, res)
    check_parsers(env, res, 1500 if q else 15000)
    check_parser_sequences(env, res, 300 if q else 5000)
    check_api(env, res, 250 if q else 100000)
    check_api_sequences(env, res, 24 if q else 1000)
    check_shortcuts(env, res, 500 if q else 12000)
    check_ladders(env, res, 60 if q else 1000)
    check_phase_ladders(env, res, 120 if q else 3000)
    check_runphase_inproc(env, res, 400 if q else 6000)
    pf = parsefail_cases(env, full=not q)
    check_api_runs(env, res, [c for c in pf if c['via'] == 'api'])
    check_procs(env, res, base_cases(env, full=not q) + exit0_cases(env, full=not q) + shortcut_proc_cases(env, full=not q) +
                seqrun_cases(env, full=not q) + [c for c in pf if c['via'] == 'cli'] + runphase_cases(env, full=not q) +
                fault_cases(env, full=not q) + proc_cases(env, full=not q))
    order_findings(res)


def replay(env, res, case):
    c = case.get('case', case)
    if isinstance(c, dict) and 'first_diverging_case' in c:
        c = c['first_diverging_case']['case']
    k = c.get('kind')
    impl.quiet_logging()
    if k == 'proc' and c.get('via') == 'api':
        check_api_runs(env, res, [c])
    elif k == 'proc':
        check_procs(env, res, [c])
    else:
        # in-process parts are cheap and seeded: re-run them all
        check_argv(env, res, 300, 100)
        check_classify(env, res, 100)
        check_cwd_default(env, res)
        check_parsers(env, res, 300)
        check_parser_sequences(env, res, 100)
        check_api(env, res, 250)
        check_api_sequences(env, res, 24)
        check_shortcuts(env, res, 300)
        check_ladders(env, res, 60)
        check_phase_ladders(env, res, 120)
        check_runphase_inproc(env, res, 400)
