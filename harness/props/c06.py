"""C06 - retry attempts, filters, back-off schedule.

Theorems: lean/Props/C06.lean over the flow interpreter model (lean/PypyrModel/Flow/*).
Tie: every case runs on the model (pmdriver) and on the real pypyr (in-process, generated .yaml
files loaded through the real file loader, probe step `vprobe`); directed families carry an
expectation computed from the property text alone (harness/floworacle.py) that judges the
implementation's observation; random programs (harness/flowgen.py) are compared observable by
observable and checked against generic invariants.
"""
from .. import flowcheck
from .. import floworacle as fo
from .. import floworacle_r3 as f3
from .. import floworacle_r4 as f4
from .. import floworacle_r5 as f5

LEAN_MODULES = ['Props.C06', 'Props.Agreement', 'Props.Translated_C06']
TRUSTED = ['harness/flow_impl.py (yaml renderer, canonicaliser, virtual clock, scripted random.uniform)',
           'harness/probe/vprobe.py (probe step) and its model probeStep',
           'harness/floworacle.py (directed expectations written from the property text)',
           'CPython, ruamel.yaml (modelled, not verified)']
ASSUMPTIONS = ['formatting inside decorators is restricted to the simple {key} grammar of PypyrModel/Fmt.lean',
               'context keys are strings; dict keys never mix bool/int/float',
               'log output (not the log LEVEL: that is a generated input), real time and BaseException other than Exception subclasses are outside the observables']

def extract(env):
    """Translate pypyr/retries.py of the tree under test into Lean definitions (harness/translate.py ->
    lean/Generated/Translated*.lean, ast only); Props/Translated_C06.lean proves them equal to the hand-written
    model definitions. Outside the translatable subset this raises (-> proof problem). Thorough tier: also
    run the translated definitions against the real functions on random inputs (harness/translate_selftest.py)."""
    from .. import translate
    translate.generate(['C06'])
    if not env.quick and not env.escalated:
        from .. import translate_selftest
        translate_selftest.check(['C06'], env.seed)


def run(env, res):
    res.rule = ('directed families (expectation from the property text) first, then seeded random pipelines '
                '(1-3 pipelines, 1-4 groups, 0-4 steps per group, decorators with p~0.25 each, foreach items incl. '
                'None/0/\'\'/False/[]/{}, 12% with a malformed group body or sequence item, 35% written in another '
                'yaml layout: flow style, JSON, first step on line 1, other indentation, single-quoted / plain / block scalars, anchors + aliases, merge keys; every 4th case runs with the root logger at DEBUG, every 8th at INFO, every 8th at NOTIFY - the log level is an input); a case is '
                'non-trivial when the model accepts it and it terminates; distinct by canonical program text')
    try:
        from . import c06_backoff
    except ImportError:
        c06_backoff = None
    if c06_backoff is not None:
        c06_backoff.run_backoff(env, res)
    directed = [('c06-nested-error-classes', f5.c06_nested_errors_family, env.n(200, 100000)),
                ('c06-when-evaluated', f4.c06_when_family, env.n(70, 100000)),
                ('c06', fo.c06_family, env.n(400, 100000)), ('c06-retry-reentry', fo.c06_reentry_family, env.n(160, 100000)),
                ('c06-max', fo.c06_max_family, env.n(120, 100000)), ('c06-fault', fo.c06_fault_family, env.n(90, 100000)),
                ('c06-text', fo.c06_text_family, env.n(14, 100000)),
                ('c06-default-backoff', fo.c06_default_backoff_family, env.n(35, 100000)),
                ('c06-schedule', f3.c06_schedule_family, env.n(110, 100000)),
                ('c06-odd-errors', f3.c06_odd_errors_family, env.n(240, 100000)),
                ('c06-chained-builtin-step', f3.c06_builtin_chained_family, env.n(10, 100000)),
                ('c07-big-counts', f3.c07_big_family, env.n(6, 100000))]
    flowcheck.run_streams(env, res, directed, env.n(400, 100000), weights={'fail': 7},
                          random_monitor=flowcheck.monitor_all)


def replay(env, res, case):
    c = case.get('case', case)
    if isinstance(c, dict) and c.get('part') == 'backoff':
        from . import c06_backoff
        c06_backoff.replay_backoff(env, res, c)
    else:
        flowcheck.replay_case(env, res, case)
