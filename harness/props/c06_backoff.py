"""C06, arithmetic part: the six built-in back-off strategies of pypyr.retries.

`run_backoff(env, res)` is called by the C06 check (harness/props/c06.py). For every case
(strategy, sleep, sleepMax, jrc, base, N, scripted random fractions) it

  * asks the Lean model (`backoff.schedule`: `mkBackoff` + `interval` threaded N times) for the first N intervals,
  * instantiates the REAL class via `pypyr.cache.backoffcache.backoff_cache.get_backoff(name)` with the same
    arguments, replaces `pypyr.retries.random` by a scripted source whose `uniform(a, b)` is `a + (b - a) * r`,
    calls the callable for n = 1..N,
  * compares the two lists exactly (as fractions.Fraction)                        -> res.mismatch
  * judges the implementation's values alone against the property text (monitor)   -> res.violation

All numbers are ints or dyadic floats with few significant bits, sized so that every binary64 operation the
implementation performs is exact; the monitor and the comparison are done in exact rationals.
"""
from fractions import Fraction

from .. import common
from ..common import enc

KINDS = ['fixed', 'jitter', 'linear', 'linearjitter', 'exponential', 'exponentialjitter']
JITTER = {'jitter', 'linearjitter', 'exponentialjitter'}
LIST_OK = {'fixed', 'jitter'}

RULE_BACKOFF = (
    'back-off arithmetic: all six strategies x int/dyadic sleep x sleepMax in {None, 0, small, large} x jrc in '
    '{0, .25, .5, 1} x base in {default, 2, 3, 1.5} x list sleeps of length 1-5 (fixed, jitter), N up to 40 calls '
    '(exponential: N limited so that base^N*sleep stays exactly representable), scripted uniform() fractions k/16; '
    'directed grid first, then random draws from the same domains; non-trivial = distinct (configuration, N, fractions)')


# ---------------------------------------------------------------------------------------------------------------
# numbers
# ---------------------------------------------------------------------------------------------------------------

def frac(w):
    """wire number / python number -> Fraction (None stays None)."""
    if w is None:
        return None
    if isinstance(w, dict):
        n, k = w['f']
        return Fraction(n, 1 << k)
    if isinstance(w, bool):
        raise ValueError('bool is not a number here')
    if isinstance(w, int):
        return Fraction(w)
    if isinstance(w, float):
        return Fraction(w)
    raise ValueError(w)


def unwire(w):
    """wire number -> the python number handed to the implementation."""
    if w is None or isinstance(w, int):
        return w
    n, k = w['f']
    return n / (1 << k)


def is_exact(fr, bits=53):
    """fr is a dyadic rational whose numerator fits the binary64 significand."""
    d = fr.denominator
    return d & (d - 1) == 0 and abs(fr.numerator).bit_length() <= bits


# ---------------------------------------------------------------------------------------------------------------
# the monitor: written from the property text, judged on the implementation's values alone
# ---------------------------------------------------------------------------------------------------------------

def spec_duration(case, n):
    """(d, cap): the un-jittered, capped duration the chosen strategy gives for attempt n; exact."""
    kind = case['kind']
    sleep = case['sleep']
    if kind in ('fixed', 'jitter'):
        if isinstance(sleep, list):
            lst = [frac(x) for x in sleep]
            d = lst[min(n - 1, len(lst) - 1)]       # the last entry repeats
        else:
            d = frac(sleep)
    elif kind in ('linear', 'linearjitter'):
        d = n * frac(sleep)
    else:
        base = frac(case['base']) if case.get('base') is not None else Fraction(2)
        d = base ** n * frac(sleep)
    cap = frac(case['sleepMax'])
    if cap is not None and cap != 0:
        d = min(d, cap)
    return d


def monitor(case, values):
    """-> list of (clause, n, detail) breaches of the property by the implementation's values."""
    out = []
    kind = case['kind']
    jrc = frac(case['jrc'])
    cap = frac(case['sleepMax'])
    for i, v in enumerate(values):
        n = i + 1
        d = spec_duration(case, n)
        if kind in JITTER:
            lo = jrc * d
            if not (lo <= v <= d):
                clause = 'jitter-bounds'
                out.append((clause, n, f'attempt {n}: slept {v}, outside [jrc*d, d] = [{lo}, {d}]'))
        elif v != d:
            if cap is not None and cap != 0 and v > cap:
                clause = 'cap'
            elif kind == 'fixed':
                clause = 'fixed-list' if isinstance(case['sleep'], list) else 'fixed'
            else:
                clause = kind
            out.append((clause, n, f'attempt {n}: slept {v}, the {kind} strategy gives {d}'))
    return out


# ---------------------------------------------------------------------------------------------------------------
# implementation side
# ---------------------------------------------------------------------------------------------------------------

class ScriptedRandom:
    """stands in for the `random` module inside pypyr.retries."""

    def __init__(self, fractions_):
        self.rs = list(fractions_)
        self.used = 0

    def uniform(self, a, b):
        if self.used >= len(self.rs):
            raise AssertionError('scripted random numbers exhausted')
        r = self.rs[self.used]
        self.used += 1
        return a + (b - a) * r

    def random(self):           # in case an implementation draws the fraction itself
        if self.used >= len(self.rs):
            raise AssertionError('scripted random numbers exhausted')
        r = self.rs[self.used]
        self.used += 1
        return r


def impl_schedule(case):
    """Run the real class. -> {'intervals': [Fraction], 'rndLeft': int} or {'err': name}."""
    import pypyr.retries as retries
    from pypyr.cache.backoffcache import backoff_cache
    sleep = case['sleep']
    py_sleep = [unwire(x) for x in sleep] if isinstance(sleep, list) else unwire(sleep)
    kwargs = {'base': unwire(case['base'])} if case.get('base') is not None else None
    rnd = ScriptedRandom([unwire(r) for r in case['rnd']])
    saved = retries.random
    retries.random = rnd
    try:
        cls = backoff_cache.get_backoff(case['kind'])
        call = cls(sleep=py_sleep, max_sleep=unwire(case['sleepMax']), jrc=unwire(case['jrc']), kwargs=kwargs)
        vals = []
        for n in range(1, case['n'] + 1):
            v = call(n)
            if isinstance(v, bool) or not isinstance(v, (int, float)):
                return {'err': f'non-numeric interval {v!r}'}
            vals.append(Fraction(v))
        return {'intervals': vals, 'rndLeft': len(rnd.rs) - rnd.used}
    except Exception as e:      # noqa: the observation is the error's name
        return {'err': common.exc_name(e)}
    finally:
        retries.random = saved


def show(obs):
    if 'err' in obs:
        return obs
    return {'intervals': [str(v) for v in obs['intervals']], 'rndLeft': obs['rndLeft']}


# ---------------------------------------------------------------------------------------------------------------
# cases
# ---------------------------------------------------------------------------------------------------------------

INT_SLEEPS = [0, 1, 2, 3, 7]
DYA_SLEEPS = [0.5, 1.5, 0.25, 2.75]
MAXES = [None, 0, 2, 2.5, 1000, 0.0, 4096.5]
JRCS = [0, 0.25, 0.5, 1]
BASES = [None, 2, 3, 1.5]
LISTS = [[2], [1.5], [1, 2], [3, 0.5], [1, 2, 3], [0.5, 4, 0.25], [1, 2, 3, 4], [8, 4, 2, 1],
         [1, 2, 3, 4, 5], [0.25, 0.5, 1, 2, 4], [5, 5, 1, 0, 2]]


def max_calls(kind, sleep, base, jitter):
    """Largest N (<= 40) for which every product the implementation forms is exact in binary64."""
    if not kind.startswith('exponential'):
        return 40
    b = Fraction(base) if base is not None else Fraction(2)
    s = abs(Fraction(sleep))
    bits = 40 if jitter else 50     # jitter multiplies on by jrc (3 bits) and the fraction (4 bits)
    n = 0
    while n < 40:
        p = b ** (n + 1)
        if not is_exact(p, bits) or not is_exact(p * s, bits) or p * s >= (1 << bits):
            break
        n += 1
    return max(n, 1)


def make_case(rng, kind, sleep, sleep_max, jrc, base, n=None):
    jit = kind in JITTER
    scalar = sleep if not isinstance(sleep, list) else 1
    top = max_calls(kind, scalar, base, jit)
    if n is None:
        n = rng.choice([1, 2, 3, 5, 8, 13, 21, 40])
    n = max(1, min(n, top))
    rnd = [rng.choice([0, 1, 0.5, 0.25, 0.75] + [k / 16 for k in range(17)]) for _ in range(n)] if jit else []
    if kind in JITTER and rng.random() < 0.1:
        rnd = rnd + [0.5]                       # a spare one: must stay unused
    if kind not in JITTER and rng.random() < 0.2:
        rnd = [0.5, 0.25]                       # non-jitter strategies must not draw at all
    return {'part': 'backoff', 'kind': kind,
            'sleep': [enc(x) for x in sleep] if isinstance(sleep, list) else enc(sleep),
            'sleepMax': enc(sleep_max), 'jrc': enc(jrc),
            'base': enc(base) if base is not None else None,
            'n': n, 'rnd': [enc(r) for r in rnd]}


def directed(rng):
    cases = []
    for kind in KINDS:
        bases = BASES if kind.startswith('exponential') else [None]
        jrcs = JRCS if kind in JITTER else [0, 0.5]
        for sleep in INT_SLEEPS + DYA_SLEEPS:
            for mx in MAXES:
                for jrc in jrcs:
                    for base in bases:
                        cases.append(make_case(rng, kind, sleep, mx, jrc, base))
        if kind in LIST_OK:
            for lst in LISTS:
                for mx in MAXES:
                    for jrc in jrcs:
                        cases.append(make_case(rng, kind, lst, mx, jrc, None,
                                               n=rng.choice([len(lst), len(lst) + 1, len(lst) + 3, 12, 40])))
    return cases


def random_case(rng):
    kind = rng.choice(KINDS)
    if kind in LIST_OK and rng.random() < 0.5:
        ln = rng.randint(1, 5)
        sleep = [rng.choice([0, 1, 2, 3, 5, 8, 0.5, 1.5, 0.25, 6.75, 100]) for _ in range(ln)]
    else:
        sleep = rng.choice(INT_SLEEPS + DYA_SLEEPS + [10, 0.125, 12.5])
    mx = rng.choice(MAXES + [1, 3, 0.75, 17, 100.5])
    jrc = rng.choice(JRCS + [0.75, 0.125])
    base = rng.choice(BASES + [1, 4, 0.5, 2.5]) if kind.startswith('exponential') else None
    return make_case(rng, kind, sleep, mx, jrc, base, n=rng.randint(1, 40))


# ---------------------------------------------------------------------------------------------------------------
# one case through both sides
# ---------------------------------------------------------------------------------------------------------------

def judge_case(res, case, model_obs):
    """model_obs: the driver's answer (or a common.Reject). Runs the implementation, compares, monitors."""
    kind = case['kind']
    if isinstance(model_obs, common.Reject):
        res.count('backoff:rejected')
        return
    model = {'intervals': [frac(w) for w in model_obs['intervals']], 'rndLeft': model_obs['rndLeft']}
    impl = impl_schedule(case)
    res.case(case)
    res.count('backoff:' + kind)
    res.count('backoff:calls', case['n'])
    res.count('backoff:' + ('list' if isinstance(case['sleep'], list) else 'scalar'))
    if case['sleepMax'] is None:
        res.count('backoff:cap=none')
    elif frac(case['sleepMax']) == 0:
        res.count('backoff:cap=0')
    else:
        res.count('backoff:cap=set')
    if 'err' in impl:
        res.mismatch(case, show(model), impl, note='implementation raised / returned a non-number')
        return
    breaches = monitor(case, impl['intervals'])
    seen = set()
    for clause, n, detail in breaches:
        if clause in seen:
            continue
        seen.add(clause)
        res.violation(case, f'back-off {kind}: {detail}',
                      signature={'part': 'backoff', 'kind': kind, 'clause': clause}, impl=show(impl))
    if kind in JITTER:
        if impl['intervals'] and any(spec_duration(case, i + 1) > 0 for i in range(case['n'])):
            res.count('backoff:jitter-nontrivial')
    if impl != model:
        res.mismatch(case, show(model), show(impl))


def run_cases(env, res, cases):
    answers = env.driver.ask_many([('backoff.schedule', {k: v for k, v in c.items() if k != 'part'})
                                   for c in cases])
    for case, ans in zip(cases, answers):
        judge_case(res, case, ans)


def run_backoff(env, res):
    """The arithmetic half of C06. ~5 000 back-off calls in quick, the whole grid + more random in thorough."""
    rng = env.rng
    grid = directed(rng)
    if env.quick:
        # every strategy/shape stays represented: stratified sample of the grid
        keep = []
        by = {}
        for c in grid:
            by.setdefault((c['kind'], isinstance(c['sleep'], list)), []).append(c)
        for key in sorted(by):
            group = by[key]
            rng.shuffle(group)
            keep += group[:32]
        grid = keep
    n_random = env.n(120, 3000)
    cases = grid + [random_case(rng) for _ in range(n_random)]
    run_cases(env, res, cases)


def replay_backoff(env, res, case):
    """Re-run exactly one recorded back-off case."""
    run_cases(env, res, [case])
