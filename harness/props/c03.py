"""C03 - call returns, jump does not, switch takes the first true case.

Theorems: lean/Props/C03.lean over the flow interpreter model (lean/PypyrModel/Flow/*).
Tie: every case runs on the model (pmdriver) and on the real pypyr (in-process, generated .yaml
files loaded through the real file loader, probe step `vprobe`); directed families carry an
expectation computed from the property text alone (harness/floworacle.py) that judges the
implementation's observation; random programs (harness/flowgen.py) are compared observable by
observable and checked against generic invariants.
"""
from .. import flowcheck
from .. import floworacle as fo
from .. import floworacle_r3 as f3
from .. import floworacle_r4 as f4
from .. import floworacle_r5 as f5

LEAN_MODULES = ['Props.C03']
TRUSTED = ['harness/flow_impl.py (yaml renderer, canonicaliser, virtual clock, scripted random.uniform)',
           'harness/probe/vprobe.py (probe step) and its model probeStep',
           'harness/floworacle.py (directed expectations written from the property text)',
           'CPython, ruamel.yaml (modelled, not verified)']
ASSUMPTIONS = ['formatting inside decorators is restricted to the simple {key} grammar of PypyrModel/Fmt.lean',
               'context keys are strings; dict keys never mix bool/int/float',
               'log output (not the log LEVEL: that is a generated input), real time and BaseException other than Exception subclasses are outside the observables']


def run(env, res):
    res.rule = ('directed families (expectation from the property text) first, then seeded random pipelines '
                '(1-3 pipelines, 1-4 groups, 0-4 steps per group, decorators with p~0.25 each, foreach items incl. '
                'None/0/\'\'/False/[]/{}, 12% with a malformed group body or sequence item, 35% written in another '
                'yaml layout: flow style, JSON, first step on line 1, other indentation, single-quoted / plain / block scalars, anchors + aliases, merge keys; every 4th case runs with the root logger at DEBUG, every 8th at INFO, every 8th at NOTIFY - the log level is an input); a case is '
                'non-trivial when the model accepts it and it terminates; distinct by canonical program text')
    directed = [('c03-counter-identity', f5.c03_counter_identity_family, env.n(300, 100000)),
                ('c04-value-forms', f5.c04_value_forms_switch, env.n(151, 100000)),
                ('c03-group-sequence-kinds', f4.c03_group_kinds_family, env.n(160, 100000)),
                ('c03-groups-from-loop-counter', f4.c03_group_counter_family, env.n(60, 100000)),
                ('c02-config-in-context-twice', f4.c02_config_in_context_family, env.n(90, 100000)),
                ('c02-jump-config-in-context', f4.c02_jump_config_in_context_family, env.n(10, 100000)),
                ('c03-restore', fo.c03_family, env.n(220, 100000)), ('c03-restore-midloop', fo.c03_midloop_family, env.n(60, 100000)),
                ('c03-switch', fo.c03_switch_family, env.n(48, 100000)), ('c03-jump', fo.c03_jump_family, env.n(22, 100000)),
                ('c03-falsy-call', fo.c03_falsy_call_family, env.n(20, 100000)),
                ('c03-counter-names', fo.c03_counter_names_family, env.n(24, 100000)),
                ('c03-switch-lazy', fo.c03_switch_lazy_family, env.n(36, 100000)),
                ('c03-recursive', fo.c03_recursive_family, env.n(56, 100000)),
                ('c01-error-values', fo.c01_error_values_family, env.n(22, 100000)),
                ('c03-jump-decorated', f3.c03_jump_decorated_family, env.n(110, 100000)),
                ('c02-parser-handler', fo.c02_parser_handler_family, env.n(18, 100000)),
                ('c02-jump-queue', f3.c02_jump_queue_family, env.n(27, 100000))]
    flowcheck.run_streams(env, res, directed, env.n(500, 100000), weights={'call': 5, 'jump': 2.5, 'switch': 2.5, 'clear': 1.5, 'clearall': 0.6, 'set': 2},
                          random_monitor=flowcheck.monitor_all)


def replay(env, res, case):
    flowcheck.replay_case(env, res, case)
