"""C02 - control-of-flow signals are never errors; each unwinds its scope.

Theorems: lean/Props/C02.lean over the flow interpreter model (lean/PypyrModel/Flow/*).
Tie: every case runs on the model (pmdriver) and on the real pypyr (in-process, generated .yaml
files loaded through the real file loader, probe step `vprobe`); directed families carry an
expectation computed from the property text alone (harness/floworacle.py) that judges the
implementation's observation; random programs (harness/flowgen.py) are compared observable by
observable and checked against generic invariants.
"""
from .. import flowcheck
from .. import floworacle as fo
from .. import floworacle_r3 as f3
from .. import floworacle_r4 as f4

LEAN_MODULES = ['Props.C02', 'Props.Agreement']
TRUSTED = ['harness/flow_impl.py (yaml renderer, canonicaliser, virtual clock, scripted random.uniform)',
           'harness/probe/vprobe.py (probe step) and its model probeStep',
           'harness/floworacle.py (directed expectations written from the property text)',
           'CPython, ruamel.yaml (modelled, not verified)']
ASSUMPTIONS = ['formatting inside decorators is restricted to the simple {key} grammar of PypyrModel/Fmt.lean',
               'context keys are strings; dict keys never mix bool/int/float',
               'log output (not the log LEVEL: that is a generated input), real time and BaseException other than Exception subclasses are outside the observables']


def run(env, res):
    res.rule = ('directed families (expectation from the property text) first, then seeded random pipelines '
                '(1-3 pipelines, 1-4 groups, 0-4 steps per group, decorators with p~0.25 each, foreach items incl. '
                'None/0/\'\'/False/[]/{}, 12% with a malformed group body or sequence item, 35% written in another '
                'yaml layout: flow style, JSON, first step on line 1, other indentation, single-quoted / plain / block scalars, anchors + aliases, merge keys; every 4th case runs with the root logger at DEBUG, every 8th at INFO, every 8th at NOTIFY - the log level is an input); a case is '
                'non-trivial when the model accepts it and it terminates; distinct by canonical program text')
    directed = [('c02-config-in-context-twice', f4.c02_config_in_context_family, env.n(130, 100000)),
                ('c02-jump-config-in-context', f4.c02_jump_config_in_context_family, env.n(20, 100000)),
                ('c01-handler-hands-over', f4.c01_handover_family, env.n(60, 100000)),
                ('c02', fo.c02_family, env.n(900, 100000)), ('c01-straight', fo.c01_family, env.n(150, 2000)),
                ('c02-parser-handler', fo.c02_parser_handler_family, env.n(18, 100000)),
                ('c11-self', fo.c11_self_family, env.n(20, 100000)), ('c01-names', fo.c01_names_family, env.n(20, 100000)),
                ('c02-jump-queue', f3.c02_jump_queue_family, env.n(27, 100000)),
                ('c03-jump-decorated', f3.c03_jump_decorated_family, env.n(40, 100000))]
    flowcheck.run_streams(env, res, directed, env.n(400, 100000), weights={'stop': 2, 'stoppipeline': 2, 'stopstepgroup': 2.5, 'jump': 2, 'call': 3, 'pype': 2, 'fail': 1.5},
                          random_monitor=flowcheck.monitor_all)


def replay(env, res, case):
    flowcheck.replay_case(env, res, case)
