"""C14 — inline Python sees context as variables but cannot leak into it.

Model: lean/PypyrModel/PyNs.lean (binding-only mini-language, CPython 3.12 name-operation scheme over
pypyr's namespace objects). Theorems: lean/Props/C14.lean. This module is the correspondence:
generated sessions (a context, optional pyimport, `!py` expressions, `pypyr.steps.py` blocks) are run
through the Lean model (driver op `pyns.session`) and through the REAL `PyString.get_value`,
`pypyr.steps.py.run_step`, `pypyr.steps.pyimport.run_step`; every namespace binds distinct marker
objects, so the result of an expression shows which namespace each read hit; the context's key list
and the identity of every value are compared after every op.

Monitors (implementation alone, from the property text):
  M1  a `!py` evaluation leaves the context's key list and every binding (by identity) unchanged
  M2  after a py block: no key removed; every key added or rebound is one the block names in a save(...)
  M3  a `!py` expression without module-scope assignment expressions evaluates to what plain Python
      gives when context keys, then pyimport names, then builtins are global variables (provenance of
      every read that reaches the result; context key beats import beats builtin; every nesting)
  M5  pyimport leaves the context unchanged
"""
from __future__ import annotations

import hashlib
import multiprocessing
import os
import random
import signal

from .. import common
from ..common import canon
from .. import impl_c14 as I
from ..impl_c14 import N, C, W, T, Lam, Call, App, Comp, As, Aug, Del, Ex, Def, Cls, Save, Imp, tok, ref

LEAN_MODULES = ['Props.C14']
TRUSTED = ['harness/props/c14.py + harness/impl_c14.py (generator, renderer AST -> Python source, marker '
           'objects, identity dump, monitors)',
           'CPython 3.12 name resolution in eval/exec (LOAD_NAME/LOAD_GLOBAL/STORE_*; PEP 709, PEP 572) — '
           'modelled from dis + experiments, validated by the correspondence only']
ASSUMPTIONS = ['PyNs is a model of name binding, not of Python: values are opaque tokens / heap references',
               'pycode form of pypyr.steps.py not modelled (it is handed the context on purpose)',
               'keys `save` and `__builtins__` are hidden from a py block by design (ADR 0001); counted, not judged',
               'calling / iterating / += on real builtins and pypyr-injected objects is outside the modelled '
               'domain (model answers OutOfDomain, case skipped)']

LEFTOVER_SIG = {'site': 'get_eval_string', 'construct': 'walrus-in-comprehension',
                'effect': 'persists-in-namespace-dict'}


# --------------------------------------------------------------------------
# directed sessions
# --------------------------------------------------------------------------

def directed():
    out = []
    heap = [{'t': [tok('ctx', 'T.0'), tok('ctx', 'T.1')]}, {'l': [tok('ctx', 'L.0')]}, {'l': []}]
    base = [['a', tok('ctx', 'a')], ['b', tok('ctx', 'b')], ['len', tok('ctx', 'len')],
            ['T', ref(0)], ['L', ref(1)], ['obs', ref(2)], ['y', tok('ctx', 'y')]]

    def S(ops, ctx=base, hp=heap, kind='eval'):
        ctx = [list(kv) for kv in ctx]
        if any('exec' in o for o in ops) and not any(k == 'py' for k, _ in ctx):
            ctx.insert(0, ['py', tok('special', 'py')])
        if any('pyimport' in o for o in ops):
            ctx.append(['pyImport', tok('special', 'pyImport')])
        out.append(I.render({'ctx': ctx, 'heap': [dict(c) for c in hp], 'ops': ops, 'kind': kind, 'directed': True}))

    def E(e): return {'eval': e}
    def X(*stmts): return {'exec': list(stmts)}

    def PI(*specs):
        return {'pyimport': I.pyimport_bindings(specs), 'specs': [list(s) for s in specs]}

    # reads: every nesting
    S([E(N('a')), E(Call(Lam([], N('a')))), E(Comp(N('a'), [('i', N('T'), [])])),
       E(Comp(N('a'), [('i', N('T'), [])], gen=True))])
    S([E(Comp(T(N('i'), N('j'), N('k'), N('a')), [('i', N('T'), []), ('j', N('T'), []), ('k', T(N('b')), [])]))])
    S([E(Comp(T(N('i'), N('j'), N('k'), N('a')), [('i', N('T'), []), ('j', N('T'), [N('a')]), ('k', T(N('b')), [])],
              gen=True))])
    S([E(Call(Lam(['p'], Call(Lam(['q'], T(N('p'), N('q'), N('a'), N('len'))), N('b'))), N('a')))])
    S([E(Call(Lam(['p'], Comp(Call(Lam([], T(N('p'), N('i'), N('a')))), [('i', N('T'), [])])), N('b')))])
    S([E(Comp(Call(N('fq')), [('fq', Comp(Lam([], T(N('i'), N('a'))), [('i', N('T'), [])]), [])]))])
    # builtins shadowed by context keys; unshadowed builtins; names nobody binds
    S([E(T(N('len'), N('list'), N('id'))), E(Call(Lam([], T(N('len'), N('list'))))), E(N('nope')),
       E(Call(Lam([], N('nope'))))])
    S([E(N('__builtins__')), E(Call(Lam([], N('__builtins__'))))])
    # pyimport: visible, beside the context, a context key of the same name wins
    S([PI(('from', 'c14m1', 'a', None), ('from', 'c14m1', 'len', None), ('import', 'c14m1', 'x'),
          ('from', 'c14m2', 'n1', None), ('import', 'c14m2', None)),
       E(T(N('a'), N('len'), N('x'), N('n1'), N('c14m2'))),
       E(Call(Lam([], T(N('a'), N('len'), N('x'), N('n1'))))),
       E(Comp(T(N('a'), N('n1')), [('i', N('T'), [])], gen=True))])
    S([PI(('from', 'c14m1', 'len', None), ('from', 'c14m1', 'n2', 'list')),
       E(T(N('len'), N('list'))), E(Call(Lam([], T(N('len'), N('list')))))],
      ctx=[['a', tok('ctx', 'a')], ['T', ref(0)]])
    # assignment expressions: top level, in comprehension, in lambda
    S([E(W('x', N('a'))), E(N('x'))])
    S([E(T(W('x', N('a')), N('x'))), E(T(W('a', N('b')), N('a'))), E(N('a'))])
    S([E(T(W('x', N('a')), Call(Lam([], N('x')))))])
    S([E(T(W('x', N('a')), Comp(N('x'), [('i', N('T'), [])])))])
    S([E(T(W('x', N('a')), Comp(N('x'), [('i', N('T'), [])], gen=True)))])
    S([E(T(W('x', N('T')), Comp(N('i'), [('i', N('x'), [])], gen=True)))])
    S([E(Comp(W('y', N('i')), [('i', N('T'), [])])), E(N('y'))])
    S([E(Comp(W('z', N('i')), [('i', N('T'), [])])), E(N('z')), E(Call(Lam([], N('z'))))])
    S([E(T(Comp(W('z', N('i')), [('i', N('T'), [])]), N('z')))])
    S([E(T(Comp(W('y', N('i')), [('i', N('T'), [])]), N('y')))])
    S([E(Comp(T(W('y', N('i')), N('y')), [('i', N('T'), [])]))])
    S([E(T(W('z', N('a')), Comp(W('z', N('i')), [('i', N('T'), [])]), N('z')))])
    S([E(T(W('z', N('a')), Comp(W('z', N('i')), [('i', N('T'), [])], gen=True), N('z')))])
    S([E(Call(Lam([], T(W('y', N('a')), Call(Lam([], N('y')))))))])
    S([E(Call(Lam([], T(N('y'), W('y', N('a'))))))])
    S([E(Call(Lam([], T(Comp(W('y', N('i')), [('i', N('T'), [])]), N('y')))))])
    S([E(Call(Lam([], T(Comp(W('y', N('i')), [('i', N('T'), [])], gen=True), N('y')))))])
    S([E(Comp(W('len', N('i')), [('i', N('T'), [])])), E(N('len')), E(Call(Lam([], N('len'))))],
      ctx=[['T', ref(0)], ['a', tok('ctx', 'a')]])
    # in-place mutation through the context's own reference and through aliases
    S([E(App(N('L'), N('a'))), E(N('L')), E(T(W('x', N('L')), App(N('x'), N('b')))),
       E(Call(Lam(['p'], App(N('p'), N('T'))), N('L')))])
    S([E(App(N('a'), N('b'))), E(App(N('T'), N('b'))), E(Call(N('a'))), E(Comp(N('i'), [('i', N('a'), [])]))])
    # py blocks
    S([X(As('x', N('a')), Ex(App(N('obs'), N('x'))), As('a', N('b')), Ex(App(N('obs'), N('a'))))], kind='exec')
    S([X(Aug('a', N('b')), Save(['a']))], kind='exec')
    S([X(Aug('L', T(N('a'))), Aug('T', T(N('a'))), As('q', N('L')), Ex(App(N('q'), N('b'))))], kind='exec')
    S([X(Del('a'), Ex(App(N('obs'), N('a'))))], kind='exec')
    S([X(Del('len'), Ex(App(N('obs'), N('len'))), Del('zz'))], kind='exec')
    S([X(Def('f', [], [('a', N('b'))], N('a'), gl=['a']), Ex(Call(N('f'))), Ex(App(N('obs'), N('a'))))], kind='exec')
    S([X(Def('f', [], [], N('a')), As('a', N('b')), Ex(App(N('obs'), Call(N('f')))))], kind='exec')
    S([X(Def('f', ['p'], [('w', N('a'))],
             T(N('p'), N('a'), N('w'), Comp(N('a'), [('i', N('T'), [])]), Call(Lam([], T(N('p'), N('a')))))),
         Ex(App(N('obs'), Call(N('f'), N('b')))), Save(['f']))], kind='exec')
    S([X(Def('f', ['p'], [], Lam([], T(N('p'), N('a')))), As('h', Call(N('f'), N('b'))), As('a', N('b')),
         Ex(App(N('obs'), Call(N('h')))))], kind='exec')
    S([X(Cls('Cq', [('m', N('a')), ('a', N('b')), ('k', N('a')), ('g', Lam([], N('a')))]),
         Ex(App(N('obs'), N('Cq'))), Save(['Cq']))], kind='exec')
    S([X(Cls('Cq', [('m', N('a')), ('k', Comp(N('m'), [('i', N('T'), [])]))]))], kind='exec')
    S([X(Cls('Cq', [('k', Comp(T(N('a'), N('i')), [('i', N('T'), [])])), ('u', W('v', N('a')))]), Save(['Cq']))],
      kind='exec')
    S([X(Imp(('import', 'c14m1', 'a')), Imp(('from', 'c14m1', 'n1', 'q')), Imp(('from', 'c14m2', 'len', None)),
         Ex(App(N('obs'), T(N('a'), N('q'), N('len')))))], kind='exec')
    S([X(As('x', N('b')), Save(['x']), Save([], [('k', N('a'))]), Ex(App(N('obs'), N('k'))))], kind='exec')
    S([X(As('x', N('b')), Save(['x'], [('x', N('a'))])), E(N('x'))], kind='exec')
    S([X(Save(['a', 'zz'])), E(N('a'))], kind='exec')
    S([X(Save(['save', '__builtins__']))], kind='exec')
    S([X(As('x', Comp(W('w', N('i')), [('i', N('T'), [])])), Ex(App(N('obs'), N('w'))), Save(['w']))], kind='exec')
    S([X(As('save', N('a')), Save(['a']))], kind='exec')
    S([X(Del('save'), Save(['a']))], kind='exec')
    S([X(Ex(App(N('obs'), T(N('save'), N('__builtins__'), N('py')))))],
      ctx=base + [['save', tok('ctx', 'save')], ['__builtins__', tok('ctx', '__builtins__')]], kind='exec')
    S([PI(('from', 'c14m1', 'n1', None)), X(Ex(App(N('obs'), N('n1')))), E(N('n1'))], kind='exec')
    S([X(As('x', N('a')), Def('f', [], [], N('x')), Cls('Cq', []), Imp(('import', 'c14m1', None))),
       E(T(N('x'))), E(N('f')), E(N('Cq')), E(N('c14m1')), E(N('save'))], kind='exec')
    return out


# --------------------------------------------------------------------------
# running cases
# --------------------------------------------------------------------------

class Hang(Exception):
    pass


def _alarm(signum, frame):
    raise Hang()


def check_cases(driver, cases, sink, known_leftover):
    """Run a batch through model and implementation. `sink` collects results."""
    reqs = [('pyns.session', I.payload(c)) for c in cases]
    model = driver.ask_many(reqs)
    for case, m in zip(cases, model):
        ok_py = all(I.compiles(op) for op in case['ops'] if 'pyimport' not in op)
        if isinstance(m, common.Reject):
            if ok_py:
                sink.mismatch(case, {'reject': str(m)}, {'compiles': True}, 'model rejects a program CPython compiles')
            else:
                sink.count('rejected:ill-formed-on-both-sides')
            continue
        if not ok_py:
            sink.mismatch(case, 'accepted', {'compiles': False}, 'model accepts a program CPython refuses')
            continue
        msteps = m['steps']
        upto = len(msteps) - 1 if m['stopped'] else len(msteps)
        if m['stopped']:
            sink.count('model-stopped:' + msteps[-1]['res'].get('err', '?'))
        signal.setitimer(signal.ITIMER_REAL, 20)
        try:
            isteps, findings = I.run_impl(case, upto)
        except Hang:
            sink.mismatch(case, msteps, 'hang', 'implementation did not finish within 20 s')
            continue
        finally:
            signal.setitimer(signal.ITIMER_REAL, 0)
        facts = set()
        for op in case['ops'][:upto]:
            if 'eval' in op:
                facts |= {'py:' + f for f in I.expr_facts(op['eval'])}
                sink.count('op:eval')
            elif 'exec' in op:
                facts |= {'block:' + f for f in I.block_facts(op['exec'])}
                sink.count('op:exec')
            else:
                facts.add('pyimport')
                sink.count('op:pyimport')
        for f in facts:
            sink.count(f)
        for st in isteps:
            sink.count('outcome:' + ('ok' if 'ok' in st['res'] else st['res']['err']))
        ctxkeys = {k for k, _ in case['ctx']}
        if ctxkeys & {'len', 'list', 'id'}:
            sink.count('ctx:key-shadows-builtin')
        if any(k in ('save', '__builtins__') for k in ctxkeys) and any('exec' in op for op in case['ops']):
            sink.count('ctx:reserved-key-hidden-from-py-block(by design)')
        nontrivial = bool(facts - {'py:name', 'py:const', 'py:tuple', 'pyimport'}) and upto > 0
        sink.case(case, nontrivial)
        for detail, sig, obs in findings:
            sink.violation(case, detail, sig, obs)
        leftover(case, isteps, sink, known_leftover)
        mm = [strip_optional(s, isteps[i]) for i, s in enumerate(msteps[:upto])]
        if canon(mm) != canon(isteps):
            first = next((i for i in range(min(len(mm), len(isteps))) if canon(mm[i]) != canon(isteps[i])), None)
            sink.mismatch(case, mm, isteps, f'first differing step: {first}')


def strip_optional(mstep, istep):
    """The import namespace and the raw dict slot are optional observables (private attributes)."""
    return {k: v for k, v in mstep.items() if k in istep}


def leftover(case, isteps, sink, known):
    """Finding: an assignment expression inside a module-level comprehension of a `!py` string stays in
    the raw dict of context._pystring_namespace and answers later top-level reads (E4). Judged on the
    implementation: a later `!py <name>` returns something although neither the context, nor pyimport,
    nor builtins bind the name — or returns something other than the builtin of that name."""
    import builtins
    ctxkeys = {k for k, _ in case['ctx']}
    pending = set()
    for op, st in zip(case['ops'], isteps):
        if 'pyimport' in op:
            ctxkeys |= set()
            continue
        if 'exec' in op:
            ctxkeys |= I.saved_names(op['exec'])
            continue
        e = op['eval']
        if 'n' in e and e['n'] in pending and e['n'] not in ctxkeys and 'ok' in st['res']:
            name = e['n']
            imps = {k for k, _ in st.get('imps', [])}
            if name in imps:
                continue
            expect = tok('bi', name) if name in builtins.__dict__ else None
            if st['res']['ok'] != expect or expect is None:
                detail = (f"'!py {name}' answered {st['res']['ok']} from a binding left behind by an earlier "
                          f"expression's comprehension-scoped assignment expression")
                if known:
                    sink.violation(case, detail, dict(LEFTOVER_SIG), st['res'])
                else:
                    sink.count('finding(unlisted):walrus-in-comprehension-persists-in-namespace-dict')
                    sink.note_unlisted(detail, case)
        targets = set()

        def f(kind, node, scope, in_comp):
            if kind == 'walrus' and scope == 'module' and in_comp:
                targets.add(node['w'][0])
        I.walk_expr(e, f)
        pending |= targets


class Sink:
    """Collects what a worker saw (picklable) in the shape of common.Result calls."""

    def __init__(self):
        self.counts = {}
        self.hashes = set()
        self.evaluations = 0
        self.samples = []
        self.mismatches = []
        self.violations = []
        self.unlisted = []

    def count(self, k, by=1):
        self.counts[k] = self.counts.get(k, 0) + by

    def case(self, case, nontrivial):
        self.evaluations += 1
        if nontrivial:
            self.hashes.add(hashlib.sha1(canon(case).encode()).digest()[:10])
        if len(self.samples) < 3:
            self.samples.append(case)

    def mismatch(self, case, model, impl, note=''):
        if len(self.mismatches) < 20:
            self.mismatches.append((case, model, impl, note))
        self.count('MISMATCH')

    def violation(self, case, detail, sig, obs):
        if len(self.violations) < 40:
            self.violations.append((case, detail, sig, obs))
        self.count('monitor-violation')

    def note_unlisted(self, detail, case):
        if len(self.unlisted) < 3:
            self.unlisted.append({'detail': detail, 'sources': [op.get('src') for op in case['ops']]})

    def into(self, res):
        for k, v in self.counts.items():
            res.count(k, v)
        res.evaluations += self.evaluations
        res.nontrivial |= self.hashes
        for s in self.samples:
            if len(res.samples) < 3:
                res.samples.append(s)
        for case, model, impl, note in self.mismatches:
            res.mismatch(case, model, impl, note)
        for case, detail, sig, obs in self.violations:
            res.violation(case, detail, sig, obs)
        if self.unlisted:
            res.extra.setdefault('unlisted_findings', [])
            for u in self.unlisted:
                if len(res.extra['unlisted_findings']) < 3:
                    res.extra['unlisted_findings'].append(u)


def _worker(args):
    seed, n, known_leftover = args
    common.use_repo()
    signal.signal(signal.SIGALRM, _alarm)
    rng = random.Random(seed)
    gen = I.Gen(rng)
    drv = common.Driver()
    sink = Sink()
    try:
        done = 0
        while done < n:
            k = min(400, n - done)
            check_cases(drv, [gen.session() for _ in range(k)], sink, known_leftover)
            done += k
    finally:
        drv.close()
    return sink


def run(env, res):
    res.rule = ('directed sessions (every scope nesting x every namespace; assignment expressions at top level / '
                'in comprehension / in lambda; pyimport names equal to context keys; py blocks with assignment, '
                '+=, del, import, def+global, class, save) then random sessions: context over identifier keys '
                '(incl. len/list/id, aliased lists), optional pyimport, 1-3 !py expressions and/or 1-2 py blocks '
                'of 2-9 statements, expression depth <= 4, comprehensions with 1-3 for-clauses. Non-trivial = the '
                'session uses at least one binding construct or nested scope and the model did not stop at op 0.')
    known_leftover = any(all(k.get('match', {}).get(a) == b for a, b in LEFTOVER_SIG.items())
                         for k in common.load_known('C14'))
    signal.signal(signal.SIGALRM, _alarm)
    sink = Sink()
    check_cases(env.driver, directed(), sink, known_leftover)
    sink.into(res)
    res.count('directed-sessions', len(directed()))
    n = env.n(2000, 100000)
    if env.quick:
        gen = I.Gen(env.rng)
        sink = Sink()
        for start in range(0, n, 500):
            check_cases(env.driver, [gen.session() for _ in range(min(500, n - start))], sink, known_leftover)
        sink.into(res)
    else:
        procs = min(14, os.cpu_count() or 4)
        per = 2500
        jobs = [(env.rng.getrandbits(48), min(per, n - s), known_leftover) for s in range(0, n, per)]
        with multiprocessing.get_context('fork').Pool(procs) as pool:
            for sink in pool.imap_unordered(_worker, jobs):
                sink.into(res)
    res.extra['python'] = '.'.join(map(str, __import__('sys').version_info[:3]))


def replay(env, res, case):
    """Re-run exactly one recorded case (the `case` field of a replay file, or the file itself)."""
    if 'case' in case and 'ops' not in case:
        case = case['case']
    if 'first_diverging_case' in case and case['first_diverging_case']:
        case = case['first_diverging_case']['case']
    signal.signal(signal.SIGALRM, _alarm)
    known_leftover = any(all(k.get('match', {}).get(a) == b for a, b in LEFTOVER_SIG.items())
                         for k in common.load_known('C14'))
    sink = Sink()
    check_cases(env.driver, [I.render(case)], sink, known_leftover)
    sink.into(res)
