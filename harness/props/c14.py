"""C14 — inline Python sees context as variables but cannot leak into it.

Model: lean/PypyrModel/PyNs.lean (binding-only mini-language, CPython 3.12 name-operation scheme over
pypyr's namespace objects). Theorems: lean/Props/C14.lean. This module is the correspondence:
generated sessions (a context, then any mix of pyimport, `!py` expressions, `pypyr.steps.py` blocks,
context updates / deletions, contextclearall and rehydration of the Context object by pickle /
deepcopy / copy — all on ONE Context) are run through the Lean model (driver op `pyns.session`) and
through the REAL `PyString.get_value`, `pypyr.steps.py.run_step`, `pypyr.steps.pyimport.run_step`,
`pypyr.steps.contextclearall.run_step`, `Context.__getstate__/__setstate__`; every namespace binds
distinct marker objects, so the result of an expression shows which namespace each read hit; the
context's key list and the identity of every value are compared after every op.

Monitors (implementation alone, from the property text):
  M1  a `!py` evaluation leaves the context's key list and every binding (by identity) unchanged
  M2  after a py block: no key removed; every key added or rebound is one the block names in a save(...)
  M3  EVERY `!py` expression (assignment expressions included; not the ones that mutate) evaluates to
      what plain Python gives when, at that moment, context keys, then the names pyimport was asked to
      import (the harness's own record), then builtins are global variables of a throw-away namespace
      (provenance of every read that reaches the result; context key beats import beats builtin; every
      nesting; what the expression binds itself shadows for its own later reads only). Sessions of
      several evaluations: a binding an earlier expression left anywhere shows up here.
  M4  after pyimport (also on a rehydrated Context): every imported name not hidden by a context key
      reads as the imported object, at top level and from a lambda; after contextclearall: the wiped
      names are NameErrors
  M5  pyimport leaves the context unchanged
  M6  pickle round trip / deepcopy / copy of the Context keeps keys, order and values (identity for copy)
  M7  (deferred nested scopes) `set: k: !py <expr>` / `foreach: !py <expr>` are judged like M1 (context
      unchanged except key `set` popped + key k bound / key `i` written by the step runner) and like M3: the
      plain-Python reading is a globals dict whose misses fall through to the context AS IT IS AT THAT MOMENT,
      then the pyimport record, then builtins (`impl_c14.Live`); function / generator objects the real
      evaluation made are paired with the ones the plain reading made ("twins") and later calls / drains /
      foreach loops of them are compared; `name 'x' is not defined` raised from a `!py` scope for an x that is
      at that moment a context key / pyimport name / builtin is a violation in any case
  M8  a py block is judged against plain Python: `exec` of the same source with a dict copy of the context
      (and nothing else: NOT the pyimport names) as globals plus a `save` that copies named variables back,
      run on a deep copy of the context's world; outcome and the context afterwards must be the same
  M10 a `save(...)` call made AFTER its py block has ended (`savecall` ops: the function object `get_save` made for
      the block, kept by the harness from outside; impl-only stream 2: a helper function the block left in context
      whose body calls save, called from later `!py` expressions / a kept reference, after keys were cleared /
      rebound / contextclearall): the CALL adds / rebinds only the keys it is given, removes nothing
  M11 (the pyimport SOURCE LANGUAGE; harness/impl_c14_imp.py, model lean/PypyrModel/PyImportSrc.lean, driver op
      pyns.importBind) sessions of 1-3 pyimport steps over REAL throw-away packages: the oracle is plain Python
      (`exec(source, g)`, one g per session): every name an import statement of the source binds in g must be
      readable via `!py` from the top level, from a comprehension with two for-clauses and from a lambda and be
      the SAME object; `import a.b.c` makes the chain a.b.c readable; the step leaves the context as it was;
      a source plain Python imports must not be refused (wildcard excepted: documented) and vice versa
  M9  (implementation only, not compared with the model) every mutating method of the namespace object and
      of the objects reachable from it by method call (`copy()`, `new_child()`, `parents`, `|`), through
      every receiver (`globals()`, `locals()`, `vars()`, from a lambda / comprehension / :=): context keys,
      order, bindings and the pyimport namespace unchanged, later reads as before
"""
from __future__ import annotations

import hashlib
import multiprocessing
import os
import random
import signal

from .. import common
from ..common import canon
from .. import impl_c14 as I
from .. import impl_c14_imp as IM
from ..impl_c14 import (N, C, W, T, Lam, Call, App, Comp, GenE, Drain, Ns, SetI, SetS, As, Aug, Del, Ex, Def, Cls, Save, Imp,
                         tok, ref)

LEAN_MODULES = ['Props.C14']
TRUSTED = ['harness/props/c14.py + harness/impl_c14.py (generator, renderer AST -> Python source, marker '
           'objects, identity dump, monitors)',
           'CPython 3.12 name resolution in eval/exec (LOAD_NAME/LOAD_GLOBAL/STORE_*; PEP 709, PEP 572) — '
           'modelled from dis + experiments, validated by the correspondence only']
ASSUMPTIONS = ['PyNs is a model of name binding, not of Python: values are opaque tokens / heap references',
               'pycode form of pypyr.steps.py not modelled (it is handed the context on purpose)',
               'keys `save` and `__builtins__` are hidden from a py block by design (ADR 0001); counted, not judged',
               'calling / iterating / += on real builtins and pypyr-injected objects is outside the modelled '
               'domain (model answers OutOfDomain, the comparison stops there; monitors go on)',
               'reading of "py code blocks can read ... names imported through pyimport": the code copies ONLY the '
               'context into a block (globals = context.copy()); pyimport serves `!py` strings. A name bound only '
               'by pyimport is a NameError in a block (theorem py_step_ignores_pyimport, monitor M8); a block '
               'imports for itself',
               'deferred nested scopes read the context as it is when their body runs (the namespace object chains '
               'to the live Context and imports dict) — this is what the code does and what M7 takes "can read every '
               'context key as a plain variable" to mean for a body that runs later',
               'a function / generator object made by a `!py` evaluation BEFORE the Context object was rehydrated '
               '(pickle / deepcopy / copy) goes on reading the object left behind: OutOfDomain in the model, not '
               'judged by M7 (second evaluations stop for the rest of such a session)',
               'a generator object can be pulled only by [*g] and by foreach in the model language (iterating one '
               'in a comprehension / += is OutOfDomain)',
               'reflection on the namespace object that hands out the Context itself — `globals().maps[0]`, '
               '`globals().maps[0][k] = v` — is outside the property\'s scope (like `gc`, `sys._getframe`): not '
               'exercised; the methods of `globals()`, `.copy()`, `.new_child()`, `.parents`, `| {}` are (M9)',
               'second evaluations (M3/M7/M8 oracles) are skipped where they would disturb the run: expressions '
               'that mutate (.append, namespace methods), sessions that keep a function / generator object whose '
               'body mutates, contexts that carry code objects (block oracle), a generator that has no twin (counted)',
               'a context key `__builtins__` is hidden from `!py` by the own entry of the eval namespace object '
               '(since 2f08756; reads give the builtins dict); counted, not judged — plain Python cannot hold a '
               'variable of that name in globals either',
               'CPython 3.12.1 compiles some programs with sibling inlined comprehensions against merged symbols '
               '(UnboundLocalError for a global; PyNs.lean E9): detected syntactically with an over-approximation '
               '(impl_c14.inlining_quirk), the model comparison stops before such an op (counted), monitors go on',
               'programs that rebind `__builtins__` are rejected by the driver (counted)',
               'pyimport source language (M11 / PyImportSrc.lean): `from m import *` ends in ModuleNotFoundError and '
               'relative imports in TypeError in the code (documented as unsupported; plain Python would bind the public '
               'names / refuse differently) - modelled as they are, not judged; a source that fails half-way binds '
               'NOTHING in the code (plain Python keeps the earlier bindings) - modelled, not judged; import statements '
               'nested in if/try/def/class bodies (generic_visit walks into them and binds at top level), module '
               'attributes named like a sub-module (state of sys.modules decides), namespace packages, __all__, '
               'import hooks and the per-source memo of pystring_namespace_cache are outside the generated domain',
               'rehydration: marker objects and the two scratch import modules pickle / deep-copy by reference '
               '(real modules do not pickle at all); a context whose cargo does not pickle falls back to '
               'deepcopy, then copy']

# --------------------------------------------------------------------------
# directed sessions
# --------------------------------------------------------------------------

def directed():
    out = []
    heap = [{'t': [tok('ctx', 'T.0'), tok('ctx', 'T.1')]}, {'l': [tok('ctx', 'L.0')]}, {'l': []}]
    base = [['a', tok('ctx', 'a')], ['b', tok('ctx', 'b')], ['len', tok('ctx', 'len')],
            ['T', ref(0)], ['L', ref(1)], ['obs', ref(2)], ['y', tok('ctx', 'y')]]

    def S(ops, ctx=base, hp=heap, kind='eval'):
        ctx = [list(kv) for kv in ctx]
        if any('exec' in o for o in ops) and not any(k == 'py' for k, _ in ctx):
            ctx.insert(0, ['py', tok('special', 'py')])
        if any('pyimport' in o for o in ops):
            ctx.append(['pyImport', tok('special', 'pyImport')])
        out.append(I.render({'ctx': ctx, 'heap': [dict(c) for c in hp], 'ops': ops, 'kind': kind, 'directed': True}))

    def E(e): return {'eval': e}
    def X(*stmts): return {'exec': list(stmts)}

    def PI(*specs):
        return {'pyimport': I.pyimport_bindings(specs), 'specs': [list(s) for s in specs]}

    # reads: every nesting
    S([E(N('a')), E(Call(Lam([], N('a')))), E(Comp(N('a'), [('i', N('T'), [])])),
       E(Comp(N('a'), [('i', N('T'), [])], gen=True))])
    S([E(Comp(T(N('i'), N('j'), N('k'), N('a')), [('i', N('T'), []), ('j', N('T'), []), ('k', T(N('b')), [])]))])
    S([E(Comp(T(N('i'), N('j'), N('k'), N('a')), [('i', N('T'), []), ('j', N('T'), [N('a')]), ('k', T(N('b')), [])],
              gen=True))])
    S([E(Call(Lam(['p'], Call(Lam(['q'], T(N('p'), N('q'), N('a'), N('len'))), N('b'))), N('a')))])
    S([E(Call(Lam(['p'], Comp(Call(Lam([], T(N('p'), N('i'), N('a')))), [('i', N('T'), [])])), N('b')))])
    S([E(Comp(Call(N('fq')), [('fq', Comp(Lam([], T(N('i'), N('a'))), [('i', N('T'), [])]), [])]))])
    # builtins shadowed by context keys; unshadowed builtins; names nobody binds
    S([E(T(N('len'), N('list'), N('id'))), E(Call(Lam([], T(N('len'), N('list'))))), E(N('nope')),
       E(Call(Lam([], N('nope'))))])
    S([E(N('__builtins__')), E(Call(Lam([], N('__builtins__'))))])
    # pyimport: visible, beside the context, a context key of the same name wins
    S([PI(('from', 'c14m1', 'a', None), ('from', 'c14m1', 'len', None), ('import', 'c14m1', 'x'),
          ('from', 'c14m2', 'n1', None), ('import', 'c14m2', None)),
       E(T(N('a'), N('len'), N('x'), N('n1'), N('c14m2'))),
       E(Call(Lam([], T(N('a'), N('len'), N('x'), N('n1'))))),
       E(Comp(T(N('a'), N('n1')), [('i', N('T'), [])], gen=True))])
    S([PI(('from', 'c14m1', 'len', None), ('from', 'c14m1', 'n2', 'list')),
       E(T(N('len'), N('list'))), E(Call(Lam([], T(N('len'), N('list')))))],
      ctx=[['a', tok('ctx', 'a')], ['T', ref(0)]])
    # assignment expressions: top level, in comprehension, in lambda
    S([E(W('x', N('a'))), E(N('x'))])
    S([E(T(W('x', N('a')), N('x'))), E(T(W('a', N('b')), N('a'))), E(N('a'))])
    S([E(T(W('x', N('a')), Call(Lam([], N('x')))))])
    S([E(T(W('x', N('a')), Comp(N('x'), [('i', N('T'), [])])))])
    S([E(T(W('x', N('a')), Comp(N('x'), [('i', N('T'), [])], gen=True)))])
    S([E(T(W('x', N('T')), Comp(N('i'), [('i', N('x'), [])], gen=True)))])
    S([E(Comp(W('y', N('i')), [('i', N('T'), [])])), E(N('y'))])
    S([E(Comp(W('z', N('i')), [('i', N('T'), [])])), E(N('z')), E(Call(Lam([], N('z'))))])
    S([E(T(Comp(W('z', N('i')), [('i', N('T'), [])]), N('z')))])
    S([E(T(Comp(W('y', N('i')), [('i', N('T'), [])]), N('y')))])
    S([E(Comp(T(W('y', N('i')), N('y')), [('i', N('T'), [])]))])
    S([E(T(W('z', N('a')), Comp(W('z', N('i')), [('i', N('T'), [])]), N('z')))])
    S([E(T(W('z', N('a')), Comp(W('z', N('i')), [('i', N('T'), [])], gen=True), N('z')))])
    S([E(Call(Lam([], T(W('y', N('a')), Call(Lam([], N('y')))))))])
    S([E(Call(Lam([], T(N('y'), W('y', N('a'))))))])
    S([E(Call(Lam([], T(Comp(W('y', N('i')), [('i', N('T'), [])]), N('y')))))])
    S([E(Call(Lam([], T(Comp(W('y', N('i')), [('i', N('T'), [])], gen=True), N('y')))))])
    S([E(Comp(W('len', N('i')), [('i', N('T'), [])])), E(N('len')), E(Call(Lam([], N('len'))))],
      ctx=[['T', ref(0)], ['a', tok('ctx', 'a')]])
    # in-place mutation through the context's own reference and through aliases
    S([E(App(N('L'), N('a'))), E(N('L')), E(T(W('x', N('L')), App(N('x'), N('b')))),
       E(Call(Lam(['p'], App(N('p'), N('T'))), N('L')))])
    S([E(App(N('a'), N('b'))), E(App(N('T'), N('b'))), E(Call(N('a'))), E(Comp(N('i'), [('i', N('a'), [])]))])
    # py blocks
    S([X(As('x', N('a')), Ex(App(N('obs'), N('x'))), As('a', N('b')), Ex(App(N('obs'), N('a'))))], kind='exec')
    S([X(Aug('a', N('b')), Save(['a']))], kind='exec')
    S([X(Aug('L', T(N('a'))), Aug('T', T(N('a'))), As('q', N('L')), Ex(App(N('q'), N('b'))))], kind='exec')
    S([X(Del('a'), Ex(App(N('obs'), N('a'))))], kind='exec')
    S([X(Del('len'), Ex(App(N('obs'), N('len'))), Del('zz'))], kind='exec')
    S([X(Def('f', [], [('a', N('b'))], N('a'), gl=['a']), Ex(Call(N('f'))), Ex(App(N('obs'), N('a'))))], kind='exec')
    S([X(Def('f', [], [], N('a')), As('a', N('b')), Ex(App(N('obs'), Call(N('f')))))], kind='exec')
    S([X(Def('f', ['p'], [('w', N('a'))],
             T(N('p'), N('a'), N('w'), Comp(N('a'), [('i', N('T'), [])]), Call(Lam([], T(N('p'), N('a')))))),
         Ex(App(N('obs'), Call(N('f'), N('b')))), Save(['f']))], kind='exec')
    S([X(Def('f', ['p'], [], Lam([], T(N('p'), N('a')))), As('h', Call(N('f'), N('b'))), As('a', N('b')),
         Ex(App(N('obs'), Call(N('h')))))], kind='exec')
    S([X(Cls('Cq', [('m', N('a')), ('a', N('b')), ('k', N('a')), ('g', Lam([], N('a')))]),
         Ex(App(N('obs'), N('Cq'))), Save(['Cq']))], kind='exec')
    S([X(Cls('Cq', [('m', N('a')), ('k', Comp(N('m'), [('i', N('T'), [])]))]))], kind='exec')
    S([X(Cls('Cq', [('k', Comp(T(N('a'), N('i')), [('i', N('T'), [])])), ('u', W('v', N('a')))]), Save(['Cq']))],
      kind='exec')
    S([X(Imp(('import', 'c14m1', 'a')), Imp(('from', 'c14m1', 'n1', 'q')), Imp(('from', 'c14m2', 'len', None)),
         Ex(App(N('obs'), T(N('a'), N('q'), N('len')))))], kind='exec')
    S([X(As('x', N('b')), Save(['x']), Save([], [('k', N('a'))]), Ex(App(N('obs'), N('k'))))], kind='exec')
    S([X(As('x', N('b')), Save(['x'], [('x', N('a'))])), E(N('x'))], kind='exec')
    S([X(Save(['a', 'zz'])), E(N('a'))], kind='exec')
    S([X(Save(['save', '__builtins__']))], kind='exec')
    S([X(As('x', Comp(W('w', N('i')), [('i', N('T'), [])])), Ex(App(N('obs'), N('w'))), Save(['w']))], kind='exec')
    S([X(As('save', N('a')), Save(['a']))], kind='exec')
    S([X(Del('save'), Save(['a']))], kind='exec')
    S([X(Ex(App(N('obs'), T(N('save'), N('__builtins__'), N('py')))))],
      ctx=base + [['save', tok('ctx', 'save')], ['__builtins__', tok('ctx', '__builtins__')]], kind='exec')
    S([PI(('from', 'c14m1', 'n1', None)), X(Ex(App(N('obs'), N('n1')))), E(N('n1'))], kind='exec')
    S([X(As('x', N('a')), Def('f', [], [], N('x')), Cls('Cq', []), Imp(('import', 'c14m1', None))),
       E(T(N('x'))), E(N('f')), E(N('Cq')), E(N('c14m1')), E(N('save'))], kind='exec')
    # several evaluations on one context: what an expression binds with := shadows a key for its own later
    # reads in every scope, and is gone afterwards; context updates in between are what later reads see
    def SET(*kvs): return {'ctxset': [list(kv) for kv in kvs]}
    def DEL(*ks): return {'ctxdel': list(ks)}
    def RH(kind): return {'rehydrate': kind}
    CLR = {'clearall': True}
    S([E(T(W('a', N('b')), N('a'), Call(Lam([], N('a'))), Comp(N('a'), [('i', N('T'), [])], gen=True))),
       E(T(N('a'), Call(Lam([], N('a')))))], kind='mixed')
    S([E(Comp(N('y'), [('i', N('T'), [W('y', N('i'))])])), E(T(N('y'), Call(Lam([], N('y')))))], kind='mixed')
    S([E(T(Comp(W('y', N('i')), [('i', N('T'), [])]), N('y'), Call(Lam([], N('y'))))), E(N('y'))], kind='mixed')
    S([E(W('x', N('a'))), SET(('x', tok('ctx', 'x#1'))), E(T(N('x'), Call(Lam([], N('x'))))),
       E(W('x', N('b'))), SET(('x', tok('ctx', 'x#2'))), E(N('x')), DEL('x'), E(N('x'))], kind='mixed')
    S([E(Comp(W('z', N('i')), [('i', N('T'), [])])), SET(('z', tok('ctx', 'z#1'))), E(T(N('z'), Call(Lam([], N('z'))))),
       DEL('z'), E(N('z')), E(Call(Lam([], N('z'))))], kind='mixed')
    S([E(Call(Lam([], W('q', N('a'))))), E(N('q')), SET(('q', 0)), E(N('q'))], kind='mixed')
    S([E(W('n1', N('a'))), SET(('pyImport', tok('special', 'pyImport'))), PI(('from', 'c14m1', 'n1', None)),
       E(T(N('n1'), Call(Lam([], N('n1'))))), E(W('len', N('a'))), E(T(N('len'), Call(Lam([], N('len')))))],
      ctx=[['a', tok('ctx', 'a')], ['T', ref(0)]], kind='mixed')
    # rehydration of the Context object between pyimport / !py / py blocks
    for how in ('pickle', 'deepcopy', 'copy'):
        S([PI(('from', 'c14m1', 'n1', None)), RH(how), E(T(N('n1'), N('a'), Call(Lam([], T(N('n1'), N('a')))))),
           PI(('from', 'c14m2', 'n2', None), ('import', 'c14m2', 'x')),
           E(T(N('n1'), N('n2'), N('x'), Call(Lam([], T(N('n2'), N('x')))))),
           E(Comp(T(N('i'), N('n2')), [('i', N('T'), [])], gen=True)), E(App(N('L'), N('n2'))), E(N('L'))],
          kind='mixed')
        S([RH(how), PI(('from', 'c14m1', 'n1', None)), E(N('n1')), SET(('n1', tok('ctx', 'n1#1'))), E(N('n1')),
           RH(how), E(T(N('n1'), Call(Lam([], N('n1'))))), DEL('n1'), E(N('n1'))], kind='mixed')
        S([PI(('from', 'c14m1', 'n1', None)), RH(how), CLR, E(N('n1')), E(N('a')),
           SET(('pyImport', tok('special', 'pyImport'))), PI(('from', 'c14m2', 'n2', None)), E(T(N('n2'))), E(N('n1'))],
          kind='mixed')
        S([RH(how), SET(('py', tok('special', 'py'))), X(As('x', N('a')), Ex(App(N('L'), N('x'))), Save(['x'])),
           E(T(N('x'), N('L'))), RH(how), E(App(N('L'), N('b'))), E(N('L')),
           E(T(W('x', N('b')), N('x'))), E(N('x'))], kind='mixed')
    S([PI(('from', 'c14m1', 'n1', None)), CLR, E(N('n1')), E(Call(Lam([], N('n1'))))], kind='mixed')
    # a function object of an earlier run called later: outside the modelled domain (monitors still judge)
    S([X(Def('f', [], [], N('a')), Save(['f'])), SET(('a', tok('ctx', 'a#1'))), E(Call(N('f'))), E(N('a'))], kind='exec')
    S([E(App(N('L'), Lam([], N('a')))), E(Comp(Call(N('g')), [('g', N('L'), [])]))],
      ctx=[['a', tok('ctx', 'a')], ['L', ref(2)]], kind='mixed')

    # ---- deferred nested scopes: a function / generator object made by one evaluation, run later ----
    def ES(k, e): return {'evalset': [k, e]}
    def FE(e): return {'foreach': e}
    # a stored lambda reads the CURRENT context / imports / builtins, from every nesting
    S([ES('f', Lam([], T(N('a'), N('n1'), N('len'), N('list')))), E(Call(N('f'))), SET(('a', tok('ctx', 'a#1'))),
       SET(('pyImport', tok('special', 'pyImport'))), PI(('from', 'c14m1', 'n1', None)), E(Call(N('f'))),
       SET(('n1', tok('ctx', 'n1#1')), ('list', tok('ctx', 'list#1'))), E(Call(N('f'))), DEL('a'), E(Call(N('f'))),
       E(N('f'))], kind='deferred')
    S([ES('f', Lam(['p'], Comp(Call(Lam([], T(N('p'), N('i'), N('a'), N('b')))), [('i', N('T'), [N('a')])]))),
       SET(('a', tok('ctx', 'a#1'))), E(Call(N('f'), N('b'))), SET(('a', 0)), E(Call(N('f'), N('b')))], kind='deferred')
    # what the creating expression bound itself stays in front of the context for its deferred scopes only
    S([ES('f', T(W('a', N('b')), Lam([], T(N('a'), N('y'))))), E(N('a')), SET(('a', tok('ctx', 'a#1'))),
       E(Comp(Call(N('g')), [('g', Comp(N('h'), [('h', N('f'), [Lam([], C(0))])]), [])]))], kind='deferred')
    S([ES('p', Call(Lam(['g', 'f'], Lam([], T(Drain(N('g')), Call(N('f'))))),
                    GenE(W('y', N('i')), [('i', N('T'), [])]), Lam([], N('y')))),
       E(Call(N('p'))), E(N('y'))], ctx=[['T', ref(0)], ['a', tok('ctx', 'a')]], kind='deferred')
    # foreach over a generator: the first iterable is read at once, the body at every pull, against the context
    # as the step runner has left it (`i` of the previous iteration included)
    S([FE(GenE(T(N('n'), N('a'), N('len')), [('n', N('T'), [])]))], kind='deferred')
    S([SET(('pyImport', tok('special', 'pyImport'))), PI(('from', 'c14m1', 'n1', None), ('import', 'c14m2', 'x')),
       FE(GenE(T(N('n'), N('n1'), N('x'), N('id')), [('n', N('T'), [N('a')])])), E(N('i'))], kind='deferred')
    S([FE(GenE(T(N('j'), N('i')), [('j', N('T'), [])]))], kind='deferred')
    S([FE(GenE(T(N('j'), N('i')), [('j', N('T'), [])]))], ctx=base + [['i', tok('ctx', 'i')]], kind='deferred')
    S([FE(GenE(T(N('j'), N('k'), N('a'), Call(Lam([], T(N('j'), N('b'))))),
               [('j', N('T'), []), ('k', T(N('a'), N('j')), [N('b')])]))], kind='deferred')
    S([FE(GenE(N('nope'), [('j', N('T'), [])])), E(N('i'))], kind='deferred')
    S([FE(GenE(N('j'), [('j', N('nope'), [])])), FE(GenE(N('j'), [('j', N('a'), [])])), FE(N('T')), FE(N('L')),
       FE(N('a')), FE(C(0)), FE(T()), FE(Lam([], N('a'))), FE(Comp(N('a'), [('j', N('T'), [])]))], kind='deferred')
    # a generator kept in the context and pulled by a later expression / a later foreach
    S([ES('g', GenE(T(N('n'), N('a')), [('n', N('T'), [])])), SET(('a', tok('ctx', 'a#1'))), E(Drain(N('g'))),
       E(Drain(N('g'))), E(N('g'))], kind='deferred')
    S([ES('g', GenE(T(N('n'), N('a'), N('i')), [('n', N('T'), [])])), SET(('a', tok('ctx', 'a#1'))), FE(N('g')),
       FE(N('g'))], kind='deferred')
    S([E(T(W('g', GenE(Drain(N('g')), [('n', N('T'), [])])), Drain(N('g')))),
       E(T(W('g', GenE(N('n'), [('n', N('T'), [])])), Drain(N('g')), Drain(N('g')))),
       E(Drain(N('T'))), E(Drain(N('L'))), E(Drain(N('a'))), E(Drain(Lam([], C(0))))], kind='deferred')
    # … after contextclearall / key deletion the deferred reads find nothing (the SAME objects, emptied)
    S([SET(('pyImport', tok('special', 'pyImport'))), PI(('from', 'c14m1', 'n1', None)),
       ES('f', Lam([], N('n1'))), ES('h', Lam([], N('a'))), E(T(Call(N('f')), Call(N('h')))),
       {'clearall': True}, SET(('k', tok('ctx', 'k'))), E(N('k'))], kind='deferred')
    # functions and generators made by a py block keep the block's dict (a COPY of the context) as globals
    S([X(Def('f', [], [], T(N('a'), N('x'))), As('x', N('b')), As('g', GenE(T(N('n'), N('a')), [('n', N('T'), [])])),
         Save(['f', 'g'])), SET(('a', tok('ctx', 'a#1'))), E(Call(N('f'))), FE(N('g')), E(N('x'))], kind='deferred')
    S([X(Def('f', [], [('a', N('b'))], N('a'), gl=['a']), Save(['f'])), E(Call(N('f'))), E(N('a')),
       X(Ex(App(N('obs'), Call(N('f'))))), E(N('obs'))], kind='deferred')
    # an object made before the Context was rehydrated reads the object left behind (outside the model)
    for how in ('copy', 'pickle'):
        S([ES('f', Lam([], N('a'))), RH(how), SET(('a', tok('ctx', 'a#1'))), E(Call(N('f'))), E(N('a'))],
          kind='deferred')

    # ---- the namespace object's own methods (globals() / locals()) ----
    for via in ('g', 'l'):
        S([E(Ns('pop1', 'a', via=via)), E(N('a')), E(Ns('pop2', 'a', N('b'), via=via)), E(N('a')),
           E(T(W('x', N('b')), Ns('pop1', 'x', via=via), N('a'))), E(T(W('a', N('b')), Ns('pop1', 'a', via=via), N('a')))],
          kind='nsop')
        S([E(T(Ns('popitem', via=via), N('a'))), E(N('a')), E(T(Ns('clear', via=via), N('a'), Call(Lam([], N('len'))))),
           E(T(W('x', N('b')), Ns('popitem', via=via), Ns('popitem', via=via), N('a'))), E(T(N('a'), N('len')))],
          kind='nsop')
        S([E(T(Ns('setdefault', 'a', N('b'), via=via), Ns('setdefault', 'zz', N('b'), via=via), N('zz'), N('a'))),
           E(N('zz')), E(T(Ns('setdefault', 'len', N('b'), via=via), N('len'))), E(N('len'))],
          ctx=[['a', tok('ctx', 'a')], ['b', tok('ctx', 'b')]], kind='nsop')
        S([E(T(Ns('update', 'a', N('b'), via=via), N('a'), Call(Lam([], N('a'))))), E(N('a')),
           E(T(Ns('setitem', 'a', N('b'), via=via), N('a'))), E(N('a')), E(T(Ns('setitem', 'zz', N('b'), via=via), N('zz'))),
           E(N('zz'))], kind='nsop')
        S([E(Ns('delitem', 'a', via=via)), E(N('a')), E(T(W('x', N('a')), Ns('delitem', 'x', via=via), N('a'))),
           E(T(W('a', N('b')), Ns('delitem', 'a', via=via), N('a'))), E(N('a'))], kind='nsop')
    S([E(Call(Lam([], T(Ns('pop2', 'a', N('b')), Ns('update', 'a', N('b')), N('a'))))), E(N('a')),
       E(Comp(T(Ns('setitem', 'a', N('i')), N('a')), [('i', N('T'), [])])), E(N('a')),
       E(Comp(Ns('pop2', 'a', N('i')), [('i', N('T'), [])], gen=True)), E(N('a'))], kind='nsop')
    S([SET(('pyImport', tok('special', 'pyImport'))), PI(('from', 'c14m1', 'n1', None)),
       E(T(Ns('pop2', 'n1', N('b')), N('n1'))), E(T(Ns('setdefault', 'n1', N('b')), N('n1'))),
       E(T(Ns('clear'), N('n1'), N('a')))], kind='nsop')
    S([X(Ex(App(N('obs'), Ns('pop1', 'a'))), Ex(App(N('obs'), N('a')))), E(N('a'))], kind='nsop')
    S([X(Ex(Ns('clear')), Ex(App(N('obs'), N('a')))), E(T(N('a'), N('obs')))], kind='nsop')
    S([X(Ex(Ns('update', 'a', N('b'))), Ex(Ns('setitem', 'zz', N('b'))), Ex(App(N('obs'), T(N('a'), N('zz')))),
         Ex(Ns('popitem')), Ex(Ns('delitem', 'b')), Save(['a'])), E(T(N('a'), N('b')))], kind='nsop')
    S([X(Ex(Ns('popitem', via='l')), Save(['a'])), X(Ex(Ns('setdefault', 'a', N('b'), via='l')),
                                                      Ex(Ns('setdefault', 'zz', N('b'))), Save(['zz']))], kind='nsop')

    # ---- in-place mutation beyond append: item assignment (expression / statement), += on a value ----
    S([E(SetI(N('L'), 0, N('a'))), E(N('L')), E(SetI(N('L'), 5, N('a'))), E(SetI(N('T'), 0, N('a'))),
       E(SetI(N('a'), 0, N('b'))), E(SetI(N('nope'), 0, N('b'))), E(T(W('x', N('L')), SetI(N('x'), 0, N('b')), N('L'))),
       E(Call(Lam(['p'], SetI(N('p'), 0, N('len'))), N('L'))), E(N('L'))], kind='mixed')
    S([X(SetS(N('L'), 0, N('a')), SetS(N('L'), 7, N('a'))), E(N('L'))], kind='exec')
    S([X(SetS(N('T'), 0, N('a'))), X(SetS(N('a'), 0, N('b'))), X(SetS(N('L'), 0, N('nope'))),
       X(SetS(N('nope'), 0, N('zz'))), X(As('q', N('L')), SetS(N('q'), 0, T(N('a'), N('b'))), Aug('q', T(N('b'))),
                                          Aug('L', N('T')), Ex(SetI(N('obs'), 0, N('q')))),
       E(T(N('L'), N('obs')))], ctx=base[:5] + [['obs', ref(1)], ['y', tok('ctx', 'y')]], kind='exec')

    # ---- name collisions: context key = pyimport name = builtin = a local of the block ----
    for nm in ('a', 'len', 'T', 'y'):
        S([PI(('from', 'c14m1', nm, None)),
           X(Ex(App(N('obs'), T(N(nm), Call(Lam([], N(nm))), Comp(N(nm), [('i', T(C(0)), [])]),
                                Comp(N(nm), [('i', T(C(0)), [])], gen=True)))),
             Def('f', [], [], N(nm)), Ex(App(N('obs'), Call(N('f')))), Cls('Cq', [('m', N(nm))]),
             Ex(App(N('obs'), N('Cq'))), Save([nm])),
           E(T(N(nm), Call(Lam([], N(nm)))))], kind='collision')
    S([PI(('import', 'c14m1', 'L'), ('from', 'c14m2', 'a', 'obs')),
       X(Ex(App(N('L'), N('a'))), Ex(App(N('obs'), N('L'))), Aug('L', T(N('b')))), E(T(N('L'), N('obs')))],
      kind='collision')
    S([PI(('from', 'c14m1', 'a', None), ('from', 'c14m1', 'len', None)),
       X(As('a', N('b')), Ex(App(N('obs'), T(N('a'), N('len')))), Del('a'), Del('len'),
         Ex(App(N('obs'), N('len'))), Ex(App(N('obs'), N('a'))))], kind='collision')
    S([PI(('from', 'c14m1', 'n1', 'save'), ('from', 'c14m1', 'n2', 'py')), X(As('x', N('a')), Save(['x'])),
       E(T(N('save'), N('x')))], kind='collision')

    # ---- save(...) called after its block has ended (the block kept the function / a helper that calls it) ----
    def SC(blk, names, *kws): return {'savecall': [blk, list(names), [list(kv) for kv in kws]]}
    KEEP = Def('hq', [], [], N('a'))       # keeps the block's namespace object alive in the model
    blockA = X(KEEP, As('notes', N('a')), As('draft', N('len')), As('cnt', N('b')), Save(['hq', 'notes', 'draft']))
    # the shape of the property text: a saved key cleared, another rebound, then save(count=…) again
    S([blockA, DEL('draft'), SET(('notes', tok('ctx', 'notes#1'))), SC(0, [], ('count', tok('ctx', 'count#1'))),
       E(T(N('notes'), N('count'))), E(N('draft')), SC(0, ['cnt'], ('count', 5)), E(N('cnt'))], kind='savelater')
    S([blockA, SET(('hq', None), ('notes', 0)), SC(0, ['draft']), SC(0, [], ('k', ref(1))), DEL('draft', 'k'),
       SC(0, ['notes', 'nope']), SC(0, ['notes'], ('notes', tok('ctx', 'notes#2'))), E(N('notes'))], kind='savelater')
    S([blockA, CLR, SC(0, [], ('count', 1)), E(N('count')), E(N('notes')), SC(0, ['notes']), E(N('notes')),
       SC(0, ['a', 'len'])], kind='savelater')
    # a function of the block with `global` rebinding a block variable: the later save reads the namespace NOW
    S([X(Def('f', [], [('notes', N('b'))], N('notes'), gl=['notes']), As('notes', N('a')), Save(['f', 'notes'])),
       SC(0, ['notes']), E(Call(N('f'))), SC(0, ['notes']), E(N('notes')), DEL('notes'), SC(0, ['f']), E(N('notes'))],
      kind='savelater')
    # two blocks, each with its own namespace and its own save; interleaved calls
    S([blockA, SET(('py', tok('special', 'py'))), X(KEEP, As('notes', N('b')), As('z', N('a')), Save(['z'])),
       SC(1, ['notes']), SC(0, ['notes']), DEL('z', 'draft'), SC(1, [], ('w', 0)), SC(0, ['cnt'], ('w', 1)),
       E(T(N('notes'), N('w')))], kind='savelater')
    # the save of a block that raised half-way; save('save') from inside, then the kept function by savecall
    S([X(KEEP, As('x', N('a')), Save(['x']), Ex(N('nope')), Save(['hq'])), DEL('x'), SC(0, ['hq']), E(N('x'))],
      kind='savelater')
    S([X(KEEP, Save(['save'])), SC(0, ['save', '__builtins__']), DEL('save'), SC(0, [], ('a', tok('ctx', 'a#1'))),
       E(N('a'))], kind='savelater')
    # save() of a value EQUAL to what the key holds but another object: the key is rebound to the very object
    # passed (identity) - an in-place change of the saved object afterwards shows in context, one of the old does not
    COPY_L = Comp(N('i'), [('i', N('L'), [])])
    S([X(As('t', COPY_L), Save([], [('L', N('t'))]), Ex(App(N('t'), N('a')))), E(N('L')), E(App(N('L'), N('b')))],
      kind='saveident')
    S([X(As('old', N('L')), As('L', COPY_L), Save(['L']), Ex(App(N('old'), N('b'))), Ex(App(N('L'), N('a')))),
       E(N('L'))], kind='saveident')
    S([X(As('t', COPY_L), Save([], [('L', N('t')), ('keep', N('t')), ('was', N('L'))]), Ex(App(N('t'), N('y')))),
       E(T(N('L'), N('keep'), N('was')))], kind='saveident')
    S([X(As('t', T(N('a'), N('b'))), Save([], [('T2', N('t'))])), X(As('u', T(N('a'), N('b'))), Save([], [('T2', N('u'))]),
       Ex(App(N('obs'), N('u')))), E(T(N('T2'), N('obs')))], kind='saveident')
    S([blockA, SC(0, [], ('notes', tok('ctx', 'a'))), SC(0, [], ('L', ref(2))), E(App(N('L'), N('b'))), E(N('obs'))],
      kind='saveident')
    # after a rehydration the function writes the Context object left behind (outside the model; monitors go on)
    S([blockA, RH('copy'), DEL('draft'), SC(0, [], ('count', 1)), E(N('draft'))], kind='savelater')
    return out


# --------------------------------------------------------------------------
# running cases
# --------------------------------------------------------------------------

class Hang(BaseException):
    pass


def _alarm(signum, frame):
    raise Hang()


def check_cases(driver, cases, sink):
    """Run a batch through model and implementation. `sink` collects results."""
    reqs = [('pyns.session', I.payload(c)) for c in cases]
    signal.setitimer(signal.ITIMER_REAL, 600)
    try:
        model = driver.ask_many(reqs)
    except Hang:
        driver.p.kill()
        raise common.Infra('the PyNs model did not answer a batch of %d sessions within 600 s' % len(cases))
    finally:
        signal.setitimer(signal.ITIMER_REAL, 0)
    for case, m in zip(cases, model):
        ok_py = all(I.compiles(op) for op in case['ops'])
        if isinstance(m, common.Reject):
            if 'binds __builtins__' in str(m):
                sink.count('rejected:rebinds-__builtins__(outside the modelled domain)')
            elif ok_py:
                sink.mismatch(case, {'reject': str(m)}, {'compiles': True}, 'model rejects a program CPython compiles')
            else:
                sink.count('rejected:ill-formed-on-both-sides')
            continue
        if not ok_py:
            sink.mismatch(case, 'accepted', {'compiles': False}, 'model accepts a program CPython refuses')
            continue
        msteps = m['steps']
        upto = len(msteps) - 1 if m['stopped'] else len(msteps)
        quirk = next((i for i, op in enumerate(case['ops']) if I.inlining_quirk(op)), None)
        if quirk is not None and quirk < upto:
            # this CPython release may compile op `quirk` against a merged comprehension symbol (see
            # impl_c14.inlining_quirk): the model comparison stops before it, the monitors go on
            sink.count('cpython-3.12-comprehension-inlining-symbol-merge:comparison-stops')
            upto = quirk
            msteps = msteps[:upto]
            m = dict(m, stopped=True, steps=msteps + [{'res': {'err': 'OutOfDomain'}}])
            msteps = m['steps']
        run_to = upto
        if m['stopped']:
            why = msteps[-1]['res'].get('err', '?')
            sink.count('model-stopped:' + why)
            if why == 'OutOfDomain':
                run_to = len(case['ops'])      # the monitors do not need the model: judge the whole session
        signal.setitimer(signal.ITIMER_REAL, 20)
        try:
            isteps, findings, notes = I.run_impl(case, run_to, soft_from=upto, hang=Hang)
        except Hang:
            sink.mismatch(case, msteps, 'hang', 'implementation did not finish within 20 s')
            continue
        finally:
            signal.setitimer(signal.ITIMER_REAL, 0)
        isteps = isteps[:upto]
        facts = set()
        evals = 0
        for op in case['ops'][:run_to]:
            if I.op_expr(op) is not None:
                k = next(k for k in ('eval', 'evalset', 'foreach') if k in op)
                facts |= {'py:' + f for f in I.expr_facts(I.op_expr(op))}
                if k != 'eval':
                    facts.add(k)
                sink.count('op:' + k)
                evals += 1
            elif 'exec' in op:
                facts |= {'block:' + f for f in I.block_facts(op['exec'])}
                sink.count('op:exec')
            else:
                k = next(k for k in ('pyimport', 'ctxset', 'ctxdel', 'clearall', 'rehydrate', 'savecall') if k in op)
                facts.add(k)
                sink.count('op:' + k)
        for f in facts:
            sink.count(f)
        sink.count(f'session:{case.get("kind")}')
        if evals >= 2:
            sink.count('session:two-or-more-evaluations-on-one-context')
        for n in notes:
            sink.count(n)
        for st in isteps:
            sink.count('outcome:' + ('ok' if 'ok' in st['res'] else st['res']['err']))
        ctxkeys = {k for k, _ in case['ctx']}
        if ctxkeys & {'len', 'list', 'id'}:
            sink.count('ctx:key-shadows-builtin')
        if any(k in ('save', '__builtins__') for k in ctxkeys) and any('exec' in op for op in case['ops']):
            sink.count('ctx:reserved-key-hidden-from-py-block(by design)')
        nontrivial = bool(facts - {'py:name', 'py:const', 'py:tuple', 'pyimport', 'ctxset'}) and run_to > 0
        sink.case(case, nontrivial)
        for detail, sig, obs in findings:
            sink.violation(case, detail, sig, obs)
        mm = [strip_optional(s, isteps[i]) for i, s in enumerate(msteps[:upto])]
        if canon(mm) != canon(isteps):
            first = next((i for i in range(min(len(mm), len(isteps))) if canon(mm[i]) != canon(isteps[i])), None)
            sink.mismatch(case, mm, isteps, f'first differing step: {first}')


def strip_optional(mstep, istep):
    """The import namespace and the raw dict slot are optional observables (private attributes)."""
    return {k: v for k, v in mstep.items() if k in istep}


class Sink:
    """Collects what a worker saw (picklable) in the shape of common.Result calls."""

    def __init__(self):
        self.counts = {}
        self.hashes = set()
        self.evaluations = 0
        self.samples = []
        self.mismatches = []
        self.violations = []

    def count(self, k, by=1):
        self.counts[k] = self.counts.get(k, 0) + by

    def case(self, case, nontrivial):
        self.evaluations += 1
        if nontrivial:
            self.hashes.add(hashlib.sha1(canon(case).encode()).digest()[:10])
        if len(self.samples) < 3:
            self.samples.append(case)

    def mismatch(self, case, model, impl, note=''):
        if len(self.mismatches) < 20:
            self.mismatches.append((case, model, impl, note))
        self.count('MISMATCH')

    def violation(self, case, detail, sig, obs):
        if len(self.violations) < 40:
            self.violations.append((case, detail, sig, obs))
        self.count('monitor-violation')

    def into(self, res):
        for k, v in self.counts.items():
            res.count(k, v)
        res.evaluations += self.evaluations
        res.nontrivial |= self.hashes
        for s in self.samples:
            if len(res.samples) < 3:
                res.samples.append(s)
        for case, model, impl, note in self.mismatches:
            res.mismatch(case, model, impl, note)
        for case, detail, sig, obs in self.violations:
            res.violation(case, detail, sig, obs)


def ns_method_stream(rng, n_random):
    """IMPLEMENTATION-ONLY cases (not compared with the model): every template x receiver x key of
    impl_c14.NS_TEMPLATES, then `n_random` random ones with a name the expression bound itself first."""
    out = []
    for method, t in I.NS_TEMPLATES:
        for recv in I.NS_RECEIVERS:
            for key in I.NS_KEYS:
                if key == '__builtins__' and '{k}=' in t:
                    continue
                if key == '__builtins__' and ('[{R}.clear(), {k}]' in t):
                    continue
                out.append(I.ns_method_case(method, t, recv, key))
    for _ in range(n_random):
        method, t = rng.choice(I.NS_TEMPLATES)
        key = rng.choice(I.NS_KEYS[:5])
        out.append(I.ns_method_case(method, t, rng.choice(I.NS_RECEIVERS), key, rng.choice(['b', '1', 'L']),
                                    prebind=rng.random() < 0.5))
    return out


def save_helper_stream(rng, n_random):
    """IMPLEMENTATION-ONLY cases: a py block leaves a helper function in context whose body calls save(...);
    keys are cleared / rebound, then the helper is called from `!py` expressions / through a kept reference."""
    return I.save_helper_directed() + [I.save_helper_case(rng) for _ in range(n_random)]


def check_impl_only(cases, sink):
    for case in cases:
        signal.setitimer(signal.ITIMER_REAL, 10)
        try:
            obs, findings = (I.run_save_helper if case['kind'] == 'impl-only-save' else
                             I.run_saveid if case['kind'] == 'impl-only-saveid' else I.run_impl_only)(case)
        except Hang:
            sink.violation(case, 'the evaluation did not return within 10 s',
                           {'site': 'py.get_save' if case['kind'] != 'impl-only' else '_EvalNamespace',
                            'route': 'namespace-object-method', 'method': case['method'],
                            'effect': 'never-returned'}, None)
            continue
        finally:
            signal.setitimer(signal.ITIMER_REAL, 0)
        sink.count(('impl-only:' if case['kind'] != 'impl-only' else 'impl-only:ns-method:') + case['method'])
        sink.count('impl-only:outcome:' + ('ok' if 'ok' in obs else obs['err']))
        sink.case(case, True)
        for detail, sig, o in findings:
            sink.violation(case, detail, sig, o)


def check_import_cases(driver, cases, sink):
    """The pyimport source language: model (pyns.importBind) vs ImportVisitor / the pyimport step on real
    throw-away packages, and the plain-Python monitor of impl_c14_imp.run_impl."""
    model = driver.ask_many([('pyns.importBind', IM.payload(c)) for c in cases])
    for case, m in zip(cases, model):
        if isinstance(m, common.Reject):
            sink.mismatch(case, {'reject': str(m)}, None, 'the import-source model rejects a generated case')
            continue
        signal.setitimer(signal.ITIMER_REAL, 20)
        try:
            isteps, findings = IM.run_impl(case)
        except Hang:
            sink.violation(case, 'pyimport of the source did not return within 20 s',
                           {'site': 'moduleloader.ImportVisitor', 'effect': 'never-returned'}, None)
            continue
        finally:
            signal.setitimer(signal.ITIMER_REAL, 0)
        sink.count('import-src:family:' + case.get('family', '?'))
        for source, st in zip(case['sources'], isteps):
            sink.count('import-src:step:' + st['step'])
            for s in source['stmts']:
                f = IM.stmt_form(s)
                sink.count('import-src:form:' + (f if f.count(',') < 2 else f.split('[')[0] + '[3-or-more-items]'))
        if len(case['sources']) > 1:
            sink.count('import-src:several-pyimport-steps-on-one-context')
        sink.case(case, True)
        for detail, sig, obs in findings:
            sink.violation(case, detail, sig, obs)
        d = IM.compare(m['steps'], isteps)
        if d is not None:
            first = next((i for i in range(min(len(d[0]), len(d[1]))) if d[0][i] != d[1][i]), None)
            sink.mismatch(case, d[0], d[1], f'pyimport source language; first differing step: {first}')


def import_stream(rng, n_random):
    return IM.directed() + [IM.random_case(rng) for _ in range(n_random)]


def _worker(args):
    seed, n = args
    common.use_repo()
    signal.signal(signal.SIGALRM, _alarm)
    rng = random.Random(seed)
    gen = I.Gen(rng)
    drv = common.Driver()
    sink = Sink()
    try:
        done = 0
        while done < n:
            k = min(400, n - done)
            check_cases(drv, [gen.session() for _ in range(k)], sink)
            done += k
    finally:
        drv.close()
    return sink


def run(env, res):
    res.rule = ('save() binds the identical object (stream 3, implementation only; monitor M12 by id() and type() on every save call of '
                'every stream): ~100 directed + random py blocks saving, for a key the context already holds, a value EQUAL but '
                'distinct (copies of lists / dicts / sets, 1 / 1.0 / True, 0 / False / 0.0 / -0.0 / 0j, Fraction, Decimal, equal '
                'str / tuple / range built afresh, OrderedDict for dict, bytes for bytearray, frozenset for set, NaN), identical, '
                'or unequal - by keyword, by name, through a helper, twice, by ** and through the kept save function after the '
                'block - then an in-place change of the saved object and type-sensitive reads through !py, whole context '
                '(types, aliasing) compared with plain Python exec; 5 directed model sessions (saveident). '
                'pyimport source language: ~690 directed sessions over real throw-away packages (every single import form; '
                'every ordered pair (x3 module choices, + same alias twice) and triple of item shapes plain / dotted / '
                'dotted deeper / aliased x3 in ONE statement; missing modules at every position; from-forms: attribute, '
                'sub-module, module alias attribute, pairs in both orders with / without asname, all names, missing, star, '
                'relative; two statements per source with newline / `;` separators and statements that import nothing; '
                '3 pyimport steps on one Context incl. a failing middle step) + random sessions (1-3 steps x 1-4 statements '
                'x 1-4 items, aliases colliding with package names / context keys / builtins). '
                'directed sessions (deferred nested scopes: lambdas / generator objects kept by set: or handed to '
                'foreach, then context updates / deletions / pyimport / contextclearall / rehydration, then called / '
                'drained / looped over; the namespace object\'s own methods through globals() and locals(); name '
                'collisions context key = pyimport name = builtin = block local) + an implementation-only stream '
                'over the whole mutating surface of the namespace object (~2 000 expressions) + '
                'directed sessions (every scope nesting x every namespace; assignment expressions at top level / '
                'in comprehension / in lambda; pyimport names equal to context keys; py blocks with assignment, '
                '+=, del, import, def+global, class, save; several evaluations on one Context with context updates '
                'in between; pickle / deepcopy / copy of the Context between pyimport, !py and py blocks; '
                'contextclearall) then random sessions: context over identifier keys (incl. len/list/id, aliased '
                'lists); 58%: optional pyimport, 1-3 !py expressions and/or 1-2 py blocks of 2-9 statements; 42% '
                'mixed: 3-7 ops on ONE Context drawn from !py expression (names bound by := earlier preferred for '
                'later reads, keys and import aliases; probes reading a name at top level / in a lambda / in a '
                'comprehension), pyimport, rehydrate (pickle|deepcopy|copy), context update, key deletion, '
                'contextclearall, py block, set: k: !py (lambda | generator object | …), foreach: !py …; 12% '
                'deferred: one function / generator object made, 1-4 context changes, run, again; import aliases and '
                'assignment targets prefer names that are context keys / bound names (collisions); '
                'expression depth <= 4, comprehensions with 1-3 for-clauses, generator objects, [*e], namespace '
                'methods. '
                'Non-trivial = the session uses at least one binding construct, nested scope or non-Python op and '
                'the model did not stop at op 0.')
    signal.signal(signal.SIGALRM, _alarm)
    sink = Sink()
    check_cases(env.driver, directed(), sink)
    sink.into(res)
    res.count('directed-sessions', len(directed()))
    sink = Sink()
    check_impl_only(ns_method_stream(env.rng, env.n(300, 20000)), sink)
    sink.into(res)
    sink = Sink()
    check_impl_only(save_helper_stream(env.rng, env.n(250, 8000)), sink)
    # impl-only stream 3: save() of values equal to / distinct from what the key holds (identity + type monitor M12)
    check_impl_only(I.saveid_cases(env.rng, env.n(400, 12000)), sink)
    sink.into(res)
    sink = Sink()
    try:
        stream = import_stream(env.rng, env.n(600, 20000))
        for start in range(0, len(stream), 500):
            check_import_cases(env.driver, stream[start:start + 500], sink)
    finally:
        IM.close_all()
    sink.into(res)
    n = env.n(5000, 100000)
    if env.quick:
        gen = I.Gen(env.rng)
        sink = Sink()
        for start in range(0, n, 500):
            check_cases(env.driver, [gen.session() for _ in range(min(500, n - start))], sink)
        sink.into(res)
    else:
        procs = min(14, os.cpu_count() or 4)
        per = 2500
        jobs = [(env.rng.getrandbits(48), min(per, n - s)) for s in range(0, n, per)]
        with multiprocessing.get_context('fork').Pool(procs) as pool:
            for sink in pool.imap_unordered(_worker, jobs):
                sink.into(res)
    res.extra['python'] = '.'.join(map(str, __import__('sys').version_info[:3]))


def replay(env, res, case):
    """Re-run exactly one recorded case (the `case` field of a replay file, or the file itself)."""
    if 'case' in case and 'ops' not in case and 'sources' not in case:
        case = case['case']
    if 'first_diverging_case' in case and case['first_diverging_case']:
        case = case['first_diverging_case']['case']
    signal.signal(signal.SIGALRM, _alarm)
    sink = Sink()
    if case.get('kind') == 'import-src':
        try:
            check_import_cases(env.driver, [case], sink)
        finally:
            IM.close_all()
    elif case.get('kind') in ('impl-only', 'impl-only-save', 'impl-only-saveid'):
        check_impl_only([case], sink)
    else:
        check_cases(env.driver, [I.render(case)], sink)
    sink.into(res)
