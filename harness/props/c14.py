"""C14 — inline Python sees context as variables but cannot leak into it.

Model: lean/PypyrModel/PyNs.lean (binding-only mini-language, CPython 3.12 name-operation scheme over
pypyr's namespace objects). Theorems: lean/Props/C14.lean. This module is the correspondence:
generated sessions (a context, then any mix of pyimport, `!py` expressions, `pypyr.steps.py` blocks,
context updates / deletions, contextclearall and rehydration of the Context object by pickle /
deepcopy / copy — all on ONE Context) are run through the Lean model (driver op `pyns.session`) and
through the REAL `PyString.get_value`, `pypyr.steps.py.run_step`, `pypyr.steps.pyimport.run_step`,
`pypyr.steps.contextclearall.run_step`, `Context.__getstate__/__setstate__`; every namespace binds
distinct marker objects, so the result of an expression shows which namespace each read hit; the
context's key list and the identity of every value are compared after every op.

Monitors (implementation alone, from the property text):
  M1  a `!py` evaluation leaves the context's key list and every binding (by identity) unchanged
  M2  after a py block: no key removed; every key added or rebound is one the block names in a save(...)
  M3  EVERY `!py` expression (assignment expressions included; not the ones that mutate) evaluates to
      what plain Python gives when, at that moment, context keys, then the names pyimport was asked to
      import (the harness's own record), then builtins are global variables of a throw-away namespace
      (provenance of every read that reaches the result; context key beats import beats builtin; every
      nesting; what the expression binds itself shadows for its own later reads only). Sessions of
      several evaluations: a binding an earlier expression left anywhere shows up here.
  M4  after pyimport (also on a rehydrated Context): every imported name not hidden by a context key
      reads as the imported object, at top level and from a lambda; after contextclearall: the wiped
      names are NameErrors
  M5  pyimport leaves the context unchanged
  M6  pickle round trip / deepcopy / copy of the Context keeps keys, order and values (identity for copy)
"""
from __future__ import annotations

import hashlib
import multiprocessing
import os
import random
import signal

from .. import common
from ..common import canon
from .. import impl_c14 as I
from ..impl_c14 import N, C, W, T, Lam, Call, App, Comp, As, Aug, Del, Ex, Def, Cls, Save, Imp, tok, ref

LEAN_MODULES = ['Props.C14']
TRUSTED = ['harness/props/c14.py + harness/impl_c14.py (generator, renderer AST -> Python source, marker '
           'objects, identity dump, monitors)',
           'CPython 3.12 name resolution in eval/exec (LOAD_NAME/LOAD_GLOBAL/STORE_*; PEP 709, PEP 572) — '
           'modelled from dis + experiments, validated by the correspondence only']
ASSUMPTIONS = ['PyNs is a model of name binding, not of Python: values are opaque tokens / heap references',
               'pycode form of pypyr.steps.py not modelled (it is handed the context on purpose)',
               'keys `save` and `__builtins__` are hidden from a py block by design (ADR 0001); counted, not judged',
               'calling / iterating / += on real builtins and pypyr-injected objects is outside the modelled '
               'domain (model answers OutOfDomain, the comparison stops there; monitors go on)',
               'calling a function object made by an EARLIER evaluation / py block (its __globals__ is that '
               "run's dead namespace object) is outside the modelled domain (OutOfDomain, as above)",
               'a context key `__builtins__` is hidden from `!py` by the own entry of the eval namespace object '
               '(since 2f08756; reads give the builtins dict); counted, not judged — plain Python cannot hold a '
               'variable of that name in globals either',
               'CPython 3.12.1 compiles some programs with sibling inlined comprehensions against merged symbols '
               '(UnboundLocalError for a global; PyNs.lean E9): detected syntactically with an over-approximation '
               '(impl_c14.inlining_quirk), the model comparison stops before such an op (counted), monitors go on',
               'programs that rebind `__builtins__` are rejected by the driver (counted)',
               'rehydration: marker objects and the two scratch import modules pickle / deep-copy by reference '
               '(real modules do not pickle at all); a context whose cargo does not pickle falls back to '
               'deepcopy, then copy']

# --------------------------------------------------------------------------
# directed sessions
# --------------------------------------------------------------------------

def directed():
    out = []
    heap = [{'t': [tok('ctx', 'T.0'), tok('ctx', 'T.1')]}, {'l': [tok('ctx', 'L.0')]}, {'l': []}]
    base = [['a', tok('ctx', 'a')], ['b', tok('ctx', 'b')], ['len', tok('ctx', 'len')],
            ['T', ref(0)], ['L', ref(1)], ['obs', ref(2)], ['y', tok('ctx', 'y')]]

    def S(ops, ctx=base, hp=heap, kind='eval'):
        ctx = [list(kv) for kv in ctx]
        if any('exec' in o for o in ops) and not any(k == 'py' for k, _ in ctx):
            ctx.insert(0, ['py', tok('special', 'py')])
        if any('pyimport' in o for o in ops):
            ctx.append(['pyImport', tok('special', 'pyImport')])
        out.append(I.render({'ctx': ctx, 'heap': [dict(c) for c in hp], 'ops': ops, 'kind': kind, 'directed': True}))

    def E(e): return {'eval': e}
    def X(*stmts): return {'exec': list(stmts)}

    def PI(*specs):
        return {'pyimport': I.pyimport_bindings(specs), 'specs': [list(s) for s in specs]}

    # reads: every nesting
    S([E(N('a')), E(Call(Lam([], N('a')))), E(Comp(N('a'), [('i', N('T'), [])])),
       E(Comp(N('a'), [('i', N('T'), [])], gen=True))])
    S([E(Comp(T(N('i'), N('j'), N('k'), N('a')), [('i', N('T'), []), ('j', N('T'), []), ('k', T(N('b')), [])]))])
    S([E(Comp(T(N('i'), N('j'), N('k'), N('a')), [('i', N('T'), []), ('j', N('T'), [N('a')]), ('k', T(N('b')), [])],
              gen=True))])
    S([E(Call(Lam(['p'], Call(Lam(['q'], T(N('p'), N('q'), N('a'), N('len'))), N('b'))), N('a')))])
    S([E(Call(Lam(['p'], Comp(Call(Lam([], T(N('p'), N('i'), N('a')))), [('i', N('T'), [])])), N('b')))])
    S([E(Comp(Call(N('fq')), [('fq', Comp(Lam([], T(N('i'), N('a'))), [('i', N('T'), [])]), [])]))])
    # builtins shadowed by context keys; unshadowed builtins; names nobody binds
    S([E(T(N('len'), N('list'), N('id'))), E(Call(Lam([], T(N('len'), N('list'))))), E(N('nope')),
       E(Call(Lam([], N('nope'))))])
    S([E(N('__builtins__')), E(Call(Lam([], N('__builtins__'))))])
    # pyimport: visible, beside the context, a context key of the same name wins
    S([PI(('from', 'c14m1', 'a', None), ('from', 'c14m1', 'len', None), ('import', 'c14m1', 'x'),
          ('from', 'c14m2', 'n1', None), ('import', 'c14m2', None)),
       E(T(N('a'), N('len'), N('x'), N('n1'), N('c14m2'))),
       E(Call(Lam([], T(N('a'), N('len'), N('x'), N('n1'))))),
       E(Comp(T(N('a'), N('n1')), [('i', N('T'), [])], gen=True))])
    S([PI(('from', 'c14m1', 'len', None), ('from', 'c14m1', 'n2', 'list')),
       E(T(N('len'), N('list'))), E(Call(Lam([], T(N('len'), N('list')))))],
      ctx=[['a', tok('ctx', 'a')], ['T', ref(0)]])
    # assignment expressions: top level, in comprehension, in lambda
    S([E(W('x', N('a'))), E(N('x'))])
    S([E(T(W('x', N('a')), N('x'))), E(T(W('a', N('b')), N('a'))), E(N('a'))])
    S([E(T(W('x', N('a')), Call(Lam([], N('x')))))])
    S([E(T(W('x', N('a')), Comp(N('x'), [('i', N('T'), [])])))])
    S([E(T(W('x', N('a')), Comp(N('x'), [('i', N('T'), [])], gen=True)))])
    S([E(T(W('x', N('T')), Comp(N('i'), [('i', N('x'), [])], gen=True)))])
    S([E(Comp(W('y', N('i')), [('i', N('T'), [])])), E(N('y'))])
    S([E(Comp(W('z', N('i')), [('i', N('T'), [])])), E(N('z')), E(Call(Lam([], N('z'))))])
    S([E(T(Comp(W('z', N('i')), [('i', N('T'), [])]), N('z')))])
    S([E(T(Comp(W('y', N('i')), [('i', N('T'), [])]), N('y')))])
    S([E(Comp(T(W('y', N('i')), N('y')), [('i', N('T'), [])]))])
    S([E(T(W('z', N('a')), Comp(W('z', N('i')), [('i', N('T'), [])]), N('z')))])
    S([E(T(W('z', N('a')), Comp(W('z', N('i')), [('i', N('T'), [])], gen=True), N('z')))])
    S([E(Call(Lam([], T(W('y', N('a')), Call(Lam([], N('y')))))))])
    S([E(Call(Lam([], T(N('y'), W('y', N('a'))))))])
    S([E(Call(Lam([], T(Comp(W('y', N('i')), [('i', N('T'), [])]), N('y')))))])
    S([E(Call(Lam([], T(Comp(W('y', N('i')), [('i', N('T'), [])], gen=True), N('y')))))])
    S([E(Comp(W('len', N('i')), [('i', N('T'), [])])), E(N('len')), E(Call(Lam([], N('len'))))],
      ctx=[['T', ref(0)], ['a', tok('ctx', 'a')]])
    # in-place mutation through the context's own reference and through aliases
    S([E(App(N('L'), N('a'))), E(N('L')), E(T(W('x', N('L')), App(N('x'), N('b')))),
       E(Call(Lam(['p'], App(N('p'), N('T'))), N('L')))])
    S([E(App(N('a'), N('b'))), E(App(N('T'), N('b'))), E(Call(N('a'))), E(Comp(N('i'), [('i', N('a'), [])]))])
    # py blocks
    S([X(As('x', N('a')), Ex(App(N('obs'), N('x'))), As('a', N('b')), Ex(App(N('obs'), N('a'))))], kind='exec')
    S([X(Aug('a', N('b')), Save(['a']))], kind='exec')
    S([X(Aug('L', T(N('a'))), Aug('T', T(N('a'))), As('q', N('L')), Ex(App(N('q'), N('b'))))], kind='exec')
    S([X(Del('a'), Ex(App(N('obs'), N('a'))))], kind='exec')
    S([X(Del('len'), Ex(App(N('obs'), N('len'))), Del('zz'))], kind='exec')
    S([X(Def('f', [], [('a', N('b'))], N('a'), gl=['a']), Ex(Call(N('f'))), Ex(App(N('obs'), N('a'))))], kind='exec')
    S([X(Def('f', [], [], N('a')), As('a', N('b')), Ex(App(N('obs'), Call(N('f')))))], kind='exec')
    S([X(Def('f', ['p'], [('w', N('a'))],
             T(N('p'), N('a'), N('w'), Comp(N('a'), [('i', N('T'), [])]), Call(Lam([], T(N('p'), N('a')))))),
         Ex(App(N('obs'), Call(N('f'), N('b')))), Save(['f']))], kind='exec')
    S([X(Def('f', ['p'], [], Lam([], T(N('p'), N('a')))), As('h', Call(N('f'), N('b'))), As('a', N('b')),
         Ex(App(N('obs'), Call(N('h')))))], kind='exec')
    S([X(Cls('Cq', [('m', N('a')), ('a', N('b')), ('k', N('a')), ('g', Lam([], N('a')))]),
         Ex(App(N('obs'), N('Cq'))), Save(['Cq']))], kind='exec')
    S([X(Cls('Cq', [('m', N('a')), ('k', Comp(N('m'), [('i', N('T'), [])]))]))], kind='exec')
    S([X(Cls('Cq', [('k', Comp(T(N('a'), N('i')), [('i', N('T'), [])])), ('u', W('v', N('a')))]), Save(['Cq']))],
      kind='exec')
    S([X(Imp(('import', 'c14m1', 'a')), Imp(('from', 'c14m1', 'n1', 'q')), Imp(('from', 'c14m2', 'len', None)),
         Ex(App(N('obs'), T(N('a'), N('q'), N('len')))))], kind='exec')
    S([X(As('x', N('b')), Save(['x']), Save([], [('k', N('a'))]), Ex(App(N('obs'), N('k'))))], kind='exec')
    S([X(As('x', N('b')), Save(['x'], [('x', N('a'))])), E(N('x'))], kind='exec')
    S([X(Save(['a', 'zz'])), E(N('a'))], kind='exec')
    S([X(Save(['save', '__builtins__']))], kind='exec')
    S([X(As('x', Comp(W('w', N('i')), [('i', N('T'), [])])), Ex(App(N('obs'), N('w'))), Save(['w']))], kind='exec')
    S([X(As('save', N('a')), Save(['a']))], kind='exec')
    S([X(Del('save'), Save(['a']))], kind='exec')
    S([X(Ex(App(N('obs'), T(N('save'), N('__builtins__'), N('py')))))],
      ctx=base + [['save', tok('ctx', 'save')], ['__builtins__', tok('ctx', '__builtins__')]], kind='exec')
    S([PI(('from', 'c14m1', 'n1', None)), X(Ex(App(N('obs'), N('n1')))), E(N('n1'))], kind='exec')
    S([X(As('x', N('a')), Def('f', [], [], N('x')), Cls('Cq', []), Imp(('import', 'c14m1', None))),
       E(T(N('x'))), E(N('f')), E(N('Cq')), E(N('c14m1')), E(N('save'))], kind='exec')
    # several evaluations on one context: what an expression binds with := shadows a key for its own later
    # reads in every scope, and is gone afterwards; context updates in between are what later reads see
    def SET(*kvs): return {'ctxset': [list(kv) for kv in kvs]}
    def DEL(*ks): return {'ctxdel': list(ks)}
    def RH(kind): return {'rehydrate': kind}
    CLR = {'clearall': True}
    S([E(T(W('a', N('b')), N('a'), Call(Lam([], N('a'))), Comp(N('a'), [('i', N('T'), [])], gen=True))),
       E(T(N('a'), Call(Lam([], N('a')))))], kind='mixed')
    S([E(Comp(N('y'), [('i', N('T'), [W('y', N('i'))])])), E(T(N('y'), Call(Lam([], N('y')))))], kind='mixed')
    S([E(T(Comp(W('y', N('i')), [('i', N('T'), [])]), N('y'), Call(Lam([], N('y'))))), E(N('y'))], kind='mixed')
    S([E(W('x', N('a'))), SET(('x', tok('ctx', 'x#1'))), E(T(N('x'), Call(Lam([], N('x'))))),
       E(W('x', N('b'))), SET(('x', tok('ctx', 'x#2'))), E(N('x')), DEL('x'), E(N('x'))], kind='mixed')
    S([E(Comp(W('z', N('i')), [('i', N('T'), [])])), SET(('z', tok('ctx', 'z#1'))), E(T(N('z'), Call(Lam([], N('z'))))),
       DEL('z'), E(N('z')), E(Call(Lam([], N('z'))))], kind='mixed')
    S([E(Call(Lam([], W('q', N('a'))))), E(N('q')), SET(('q', 0)), E(N('q'))], kind='mixed')
    S([E(W('n1', N('a'))), SET(('pyImport', tok('special', 'pyImport'))), PI(('from', 'c14m1', 'n1', None)),
       E(T(N('n1'), Call(Lam([], N('n1'))))), E(W('len', N('a'))), E(T(N('len'), Call(Lam([], N('len')))))],
      ctx=[['a', tok('ctx', 'a')], ['T', ref(0)]], kind='mixed')
    # rehydration of the Context object between pyimport / !py / py blocks
    for how in ('pickle', 'deepcopy', 'copy'):
        S([PI(('from', 'c14m1', 'n1', None)), RH(how), E(T(N('n1'), N('a'), Call(Lam([], T(N('n1'), N('a')))))),
           PI(('from', 'c14m2', 'n2', None), ('import', 'c14m2', 'x')),
           E(T(N('n1'), N('n2'), N('x'), Call(Lam([], T(N('n2'), N('x')))))),
           E(Comp(T(N('i'), N('n2')), [('i', N('T'), [])], gen=True)), E(App(N('L'), N('n2'))), E(N('L'))],
          kind='mixed')
        S([RH(how), PI(('from', 'c14m1', 'n1', None)), E(N('n1')), SET(('n1', tok('ctx', 'n1#1'))), E(N('n1')),
           RH(how), E(T(N('n1'), Call(Lam([], N('n1'))))), DEL('n1'), E(N('n1'))], kind='mixed')
        S([PI(('from', 'c14m1', 'n1', None)), RH(how), CLR, E(N('n1')), E(N('a')),
           SET(('pyImport', tok('special', 'pyImport'))), PI(('from', 'c14m2', 'n2', None)), E(T(N('n2'))), E(N('n1'))],
          kind='mixed')
        S([RH(how), SET(('py', tok('special', 'py'))), X(As('x', N('a')), Ex(App(N('L'), N('x'))), Save(['x'])),
           E(T(N('x'), N('L'))), RH(how), E(App(N('L'), N('b'))), E(N('L')),
           E(T(W('x', N('b')), N('x'))), E(N('x'))], kind='mixed')
    S([PI(('from', 'c14m1', 'n1', None)), CLR, E(N('n1')), E(Call(Lam([], N('n1'))))], kind='mixed')
    # a function object of an earlier run called later: outside the modelled domain (monitors still judge)
    S([X(Def('f', [], [], N('a')), Save(['f'])), SET(('a', tok('ctx', 'a#1'))), E(Call(N('f'))), E(N('a'))], kind='exec')
    S([E(App(N('L'), Lam([], N('a')))), E(Comp(Call(N('g')), [('g', N('L'), [])]))],
      ctx=[['a', tok('ctx', 'a')], ['L', ref(2)]], kind='mixed')
    return out


# --------------------------------------------------------------------------
# running cases
# --------------------------------------------------------------------------

class Hang(BaseException):
    pass


def _alarm(signum, frame):
    raise Hang()


def check_cases(driver, cases, sink):
    """Run a batch through model and implementation. `sink` collects results."""
    reqs = [('pyns.session', I.payload(c)) for c in cases]
    signal.setitimer(signal.ITIMER_REAL, 600)
    try:
        model = driver.ask_many(reqs)
    except Hang:
        driver.p.kill()
        raise common.Infra('the PyNs model did not answer a batch of %d sessions within 600 s' % len(cases))
    finally:
        signal.setitimer(signal.ITIMER_REAL, 0)
    for case, m in zip(cases, model):
        ok_py = all(I.compiles(op) for op in case['ops'])
        if isinstance(m, common.Reject):
            if 'binds __builtins__' in str(m):
                sink.count('rejected:rebinds-__builtins__(outside the modelled domain)')
            elif ok_py:
                sink.mismatch(case, {'reject': str(m)}, {'compiles': True}, 'model rejects a program CPython compiles')
            else:
                sink.count('rejected:ill-formed-on-both-sides')
            continue
        if not ok_py:
            sink.mismatch(case, 'accepted', {'compiles': False}, 'model accepts a program CPython refuses')
            continue
        msteps = m['steps']
        upto = len(msteps) - 1 if m['stopped'] else len(msteps)
        quirk = next((i for i, op in enumerate(case['ops']) if I.inlining_quirk(op)), None)
        if quirk is not None and quirk < upto:
            # this CPython release may compile op `quirk` against a merged comprehension symbol (see
            # impl_c14.inlining_quirk): the model comparison stops before it, the monitors go on
            sink.count('cpython-3.12-comprehension-inlining-symbol-merge:comparison-stops')
            upto = quirk
            msteps = msteps[:upto]
            m = dict(m, stopped=True, steps=msteps + [{'res': {'err': 'OutOfDomain'}}])
            msteps = m['steps']
        run_to = upto
        if m['stopped']:
            why = msteps[-1]['res'].get('err', '?')
            sink.count('model-stopped:' + why)
            if why == 'OutOfDomain':
                run_to = len(case['ops'])      # the monitors do not need the model: judge the whole session
        signal.setitimer(signal.ITIMER_REAL, 20)
        try:
            isteps, findings, notes = I.run_impl(case, run_to, soft_from=upto, hang=Hang)
        except Hang:
            sink.mismatch(case, msteps, 'hang', 'implementation did not finish within 20 s')
            continue
        finally:
            signal.setitimer(signal.ITIMER_REAL, 0)
        isteps = isteps[:upto]
        facts = set()
        evals = 0
        for op in case['ops'][:run_to]:
            if 'eval' in op:
                facts |= {'py:' + f for f in I.expr_facts(op['eval'])}
                sink.count('op:eval')
                evals += 1
            elif 'exec' in op:
                facts |= {'block:' + f for f in I.block_facts(op['exec'])}
                sink.count('op:exec')
            else:
                k = next(k for k in ('pyimport', 'ctxset', 'ctxdel', 'clearall', 'rehydrate') if k in op)
                facts.add(k)
                sink.count('op:' + k)
        for f in facts:
            sink.count(f)
        sink.count(f'session:{case.get("kind")}')
        if evals >= 2:
            sink.count('session:two-or-more-evaluations-on-one-context')
        for n in notes:
            sink.count(n)
        for st in isteps:
            sink.count('outcome:' + ('ok' if 'ok' in st['res'] else st['res']['err']))
        ctxkeys = {k for k, _ in case['ctx']}
        if ctxkeys & {'len', 'list', 'id'}:
            sink.count('ctx:key-shadows-builtin')
        if any(k in ('save', '__builtins__') for k in ctxkeys) and any('exec' in op for op in case['ops']):
            sink.count('ctx:reserved-key-hidden-from-py-block(by design)')
        nontrivial = bool(facts - {'py:name', 'py:const', 'py:tuple', 'pyimport', 'ctxset'}) and run_to > 0
        sink.case(case, nontrivial)
        for detail, sig, obs in findings:
            sink.violation(case, detail, sig, obs)
        mm = [strip_optional(s, isteps[i]) for i, s in enumerate(msteps[:upto])]
        if canon(mm) != canon(isteps):
            first = next((i for i in range(min(len(mm), len(isteps))) if canon(mm[i]) != canon(isteps[i])), None)
            sink.mismatch(case, mm, isteps, f'first differing step: {first}')


def strip_optional(mstep, istep):
    """The import namespace and the raw dict slot are optional observables (private attributes)."""
    return {k: v for k, v in mstep.items() if k in istep}


class Sink:
    """Collects what a worker saw (picklable) in the shape of common.Result calls."""

    def __init__(self):
        self.counts = {}
        self.hashes = set()
        self.evaluations = 0
        self.samples = []
        self.mismatches = []
        self.violations = []

    def count(self, k, by=1):
        self.counts[k] = self.counts.get(k, 0) + by

    def case(self, case, nontrivial):
        self.evaluations += 1
        if nontrivial:
            self.hashes.add(hashlib.sha1(canon(case).encode()).digest()[:10])
        if len(self.samples) < 3:
            self.samples.append(case)

    def mismatch(self, case, model, impl, note=''):
        if len(self.mismatches) < 20:
            self.mismatches.append((case, model, impl, note))
        self.count('MISMATCH')

    def violation(self, case, detail, sig, obs):
        if len(self.violations) < 40:
            self.violations.append((case, detail, sig, obs))
        self.count('monitor-violation')

    def into(self, res):
        for k, v in self.counts.items():
            res.count(k, v)
        res.evaluations += self.evaluations
        res.nontrivial |= self.hashes
        for s in self.samples:
            if len(res.samples) < 3:
                res.samples.append(s)
        for case, model, impl, note in self.mismatches:
            res.mismatch(case, model, impl, note)
        for case, detail, sig, obs in self.violations:
            res.violation(case, detail, sig, obs)


def _worker(args):
    seed, n = args
    common.use_repo()
    signal.signal(signal.SIGALRM, _alarm)
    rng = random.Random(seed)
    gen = I.Gen(rng)
    drv = common.Driver()
    sink = Sink()
    try:
        done = 0
        while done < n:
            k = min(400, n - done)
            check_cases(drv, [gen.session() for _ in range(k)], sink)
            done += k
    finally:
        drv.close()
    return sink


def run(env, res):
    res.rule = ('directed sessions (every scope nesting x every namespace; assignment expressions at top level / '
                'in comprehension / in lambda; pyimport names equal to context keys; py blocks with assignment, '
                '+=, del, import, def+global, class, save; several evaluations on one Context with context updates '
                'in between; pickle / deepcopy / copy of the Context between pyimport, !py and py blocks; '
                'contextclearall) then random sessions: context over identifier keys (incl. len/list/id, aliased '
                'lists); 58%: optional pyimport, 1-3 !py expressions and/or 1-2 py blocks of 2-9 statements; 42% '
                'mixed: 3-7 ops on ONE Context drawn from !py expression (names bound by := earlier preferred for '
                'later reads, keys and import aliases; probes reading a name at top level / in a lambda / in a '
                'comprehension), pyimport, rehydrate (pickle|deepcopy|copy), context update, key deletion, '
                'contextclearall, py block; expression depth <= 4, comprehensions with 1-3 for-clauses. '
                'Non-trivial = the session uses at least one binding construct, nested scope or non-Python op and '
                'the model did not stop at op 0.')
    signal.signal(signal.SIGALRM, _alarm)
    sink = Sink()
    check_cases(env.driver, directed(), sink)
    sink.into(res)
    res.count('directed-sessions', len(directed()))
    n = env.n(2000, 100000)
    if env.quick:
        gen = I.Gen(env.rng)
        sink = Sink()
        for start in range(0, n, 500):
            check_cases(env.driver, [gen.session() for _ in range(min(500, n - start))], sink)
        sink.into(res)
    else:
        procs = min(14, os.cpu_count() or 4)
        per = 2500
        jobs = [(env.rng.getrandbits(48), min(per, n - s)) for s in range(0, n, per)]
        with multiprocessing.get_context('fork').Pool(procs) as pool:
            for sink in pool.imap_unordered(_worker, jobs):
                sink.into(res)
    res.extra['python'] = '.'.join(map(str, __import__('sys').version_info[:3]))


def replay(env, res, case):
    """Re-run exactly one recorded case (the `case` field of a replay file, or the file itself)."""
    if 'case' in case and 'ops' not in case:
        case = case['case']
    if 'first_diverging_case' in case and case['first_diverging_case']:
        case = case['first_diverging_case']['case']
    signal.signal(signal.SIGALRM, _alarm)
    sink = Sink()
    check_cases(env.driver, [I.render(case)], sink)
    sink.into(res)
