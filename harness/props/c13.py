"""C13 — caches are transparent, single-flight and never remember failures.

Correspondence: the real cache classes (Cache, StepCache, ContextParserCache, BackoffCache,
NamespaceCache, LoaderCache, Loader, the file_cache instance) are driven by 2-3 real threads under
the deterministic scheduler of harness/impl_c13.py, following the same turn-level schedules as
the Lean transition system (`cache.run`), and the observable history is compared: the order of
hit / create / fail / clear events, every operation's result (which object id, which failure),
the number of creator invocations, the final table. Independent monitors judge the property text
directly on the implementation's history; the Lean `cache.judge` op re-judges it against the
atomic specification. Plus: Loader key check (fake loader + real files with '+' in the names, keys
that coincide under path joining), add_sys_path under the scheduler.

The layers ABOVE the caches (lean `CacheTS.Stack`): sessions of run / source edit / clear / no_cache
driven through the real clients that could hold on to cached objects — long-lived
`pypyr.pipeline.Pipeline` objects (run / load_and_run_pipeline with a parent per call),
`pipelinerunner.run`, the pype step, long-lived `Step` objects — with the file loader on real
files and two custom loaders. Every run shows which version of which source it executed and
which creators (load_the_loader, get_pipeline_definition, load_pipeline_from_file, load_the_step)
it invoked; compared with `cache.session`, and judged by `stack_monitor` from the property text:
after a clear of the layers on its path, or with no_cache, a run sees the present source of ITS OWN
(loader, parent, name). Sources can be MALFORMED (a list at the top level: Loader._load_pipeline rejects the
payload with PipelineDefinitionError) and be repaired later (world['badv'] = the malformed versions): a look-up
may fail only if its source is absent or malformed NOW. The one remembered failure of pypyr as it is (the file
loader's parse is stored by file_cache before the rejection) is the open finding `KF_REJECTED`; the model mirrors it
(`Stack.loadDef`, theorems failed_run_leaves_only_rejected_parse / rejected_file_is_remembered), any other
remembered failure is a violation (clause failure_not_cached, layer stack).
"""
from __future__ import annotations

import itertools
import os
import shutil
import sys
import tempfile
from collections.abc import Mapping
from pathlib import Path

from .. import common
from ..impl_c13 import Abort, CreatorError, Obj, ParkSet, Sched, SchedLock, run_stack_impl, LOADER_NAMES

LEAN_MODULES = ['Props.C13']
TRUSTED = ['harness/impl_c13.py (deterministic scheduler, scheduler lock, ParkSet = sets that hand over control before each operation; StackRig: real Pipeline / pipelinerunner / pype / '
           'Step clients, counting wrappers around the four creators, per-operation SIGALRM time-out)',
           'harness/props/c13.py (adapters per cache class, monitors, canonicaliser)',
           'CPython threading.Event hand-off; dict get/set atomicity']
ASSUMPTIONS = [
    'threading.Lock gives mutual exclusion and `with` releases it on exceptions (the model\'s wantLock/acquire/release steps)',
    'threads can only be pre-empted observably at lock acquire, creator entry, creator exit, lock release and between operations '
    '(everything else in Cache.get touches only thread-local names or happens under the lock)',
    'falsy parents (None, \'\', 0) all mean "no parent": Loader.get_pipeline keys them by bare name',
    'no creator looks up the cache it is creating for (threading.Lock is not re-entrant: Lean reentrant_get_deadlocks; the scheduler '
    'case family nest:reentrant shows the real Cache dead-locks; layered sessions through the real clients are watched for it)',
    'look-ups nest only as Loader._pipeline_cache -> file_cache (watched in every layered session); the import lock taken by '
    'load_the_loader / load_the_step under a cache lock is outside the model',
    'creators terminate (progress theorems); CPython dict iteration raises RuntimeError iff the size differs from the size at iter() '
    '(CacheTS.Scan)',
    'layered sessions (CacheTS.Stack) are sequential: one thread; the interleavings of each single cache, of the pipeline-cache/file_cache '
    'pair (CacheTS.Nest) and of clear_pipes (CacheTS.Scan) are the transition systems',
    'the world answers a request by its cache key (Stack.WorldOk): proved for the Resolve model of the file loader for ONE process '
    'working directory; os.chdir between look-ups is a change of the world; a custom loader does not tell the falsy parents None, \'\', 0 apart',
    'in layered sessions the file a (parent, name) request means is supplied by the harness (first existing of parent dir / '
    'absolute path; the relative names used exist nowhere else — checked); the resolution order itself is C19',
    'whether a payload is a mapping at the top level is a property of the content, so of the version (World.mapping : Ver -> Bool, the '
    'same for all worlds of a session); malformed = a yaml list / a list returned by a custom loader',
    'editing a step module is not observable after a clear (Python keeps the module in sys.modules): for step_cache only the '
    'creator invocation is observed',
]

KINDS = ['Cache', 'file_cache', 'StepCache', 'ContextParserCache', 'BackoffCache', 'NamespaceCache',
         'LoaderCache', 'Loader']
SEED_BASE = 1000


# ---------------------------------------------------------------------------------------------
# adapters: how to get/clear/inspect each real cache class with scripted creators
# ---------------------------------------------------------------------------------------------

class Adapter:
    """One real cache instance + the monkeypatches that route its creator to `creator(k)`."""

    def __init__(self, kind, nkeys, creator, lock_factory, variant=None):
        import pypyr.cache.cache as cachemod
        self.kind = kind
        self.undo = []
        self.seed = {}         # key index -> seed object
        self.names = [f'vk{k}' for k in range(nkeys)]
        self.creator = creator
        k_of = lambda name: self.names.index(name)  # noqa: E731
        if kind == 'Cache':
            self.inst = cachemod.Cache()
            self.cache = self.inst
            self._get = lambda k: self.inst.get(self.names[k], lambda: creator(k))
        elif kind == 'file_cache':
            import pypyr.cache.filecache as m
            self.inst = m.file_cache
            self.cache = self.inst
            old_lock, old_tab = self.inst._lock, self.inst._cache
            self.inst._cache = {}
            self.undo.append(lambda: (setattr(self.inst, '_lock', old_lock), setattr(self.inst, '_cache', old_tab)))
            self.names = [f'/vdir/vk{k}.yaml' for k in range(nkeys)]
            self._get = lambda k: self.inst.get(self.names[k], lambda: creator(k))
        elif kind == 'StepCache':
            import pypyr.cache.stepcache as m
            self._patch(m, 'load_the_step', lambda name: creator(k_of(name)))
            self.inst = m.StepCache()
            self.cache = self.inst
            self.names = [f'vmod.step{k}' for k in range(nkeys)]
            self._get = lambda k: self.inst.get_step(self.names[k])
        elif kind == 'ContextParserCache':
            import pypyr.cache.parsercache as m
            self._patch(m, 'load_the_parser', lambda name: creator(k_of(name)))
            self.inst = m.ContextParserCache()
            self.cache = self.inst
            self.names = [f'vmod.parser{k}' for k in range(nkeys)]
            self._get = lambda k: self.inst.get_context_parser(self.names[k])
        elif kind == 'BackoffCache':
            import pypyr.cache.backoffcache as m
            from pypyr.retries import builtin_backoffs
            self._patch(m, 'load_backoff_callable', lambda name: creator(k_of(name)))
            self.inst = m.BackoffCache()
            self.cache = self.inst
            # the LAST key is a built-in (seeded) name, the others are custom callables
            self.names = [f'vmod.Backoff{k}' for k in range(nkeys)]
            if nkeys >= 2:
                self.names[nkeys - 1] = 'fixed'
                self.seed[nkeys - 1] = builtin_backoffs['fixed']
            self.builtin = dict(builtin_backoffs)
            self._get = lambda k: self.inst.get_backoff(self.names[k])
        elif kind == 'NamespaceCache':
            import pypyr.cache.namespacecache as m
            outer = self

            class FakeVisitor:
                def get_namespace(self, source):
                    return creator(outer.names.index(source))
            self._patch(m, 'ImportVisitor', FakeVisitor)
            self.inst = m.NamespaceCache()
            self.cache = self.inst
            self.names = [f'import vmod{k}' for k in range(nkeys)]
            self._get = lambda k: self.inst.get_namespace(self.names[k])
        elif kind == 'LoaderCache':
            import pypyr.cache.loadercache as m
            self._patch(m, 'load_the_loader', lambda name: creator(k_of(name)))
            self.inst = m.LoaderCache()
            self.cache = self.inst
            self.names = [f'vmod.loader{k}' for k in range(nkeys)]
            self._get = lambda k: self.inst.get_pype_loader(self.names[k])
        elif kind == 'Loader':
            import pypyr.cache.loadercache as m
            # keys are (parent, name) pairs; 0 and 1 are the pair the pre-fix key confused
            pairs = [('/x/a', 'b+c'), ('/x/a+b', 'c'), (None, 'b+c'), ('/x', 'a+b+c')]
            self.names = pairs[:nkeys] + [(f'/x/p{k}', 'n') for k in range(len(pairs), nkeys)]

            def gpd(pipeline_name, parent):
                k = self.names.index((parent, pipeline_name))
                obj = creator(k, payload=True)
                return obj
            self.inst = m.Loader('vloader', gpd)
            self.cache = self.inst._pipeline_cache
            self._get = lambda k: self.inst.get_pipeline(name=self.names[k][1], parent=self.names[k][0])
        else:
            raise ValueError(kind)
        self.cache._lock = lock_factory()
        self.variant = variant

    def _patch(self, mod, name, val):
        old = getattr(mod, name)
        setattr(mod, name, val)
        self.undo.append(lambda: setattr(mod, name, old))

    def get(self, k):
        return self._get(k)

    def clear(self):
        self.inst.clear()

    def table(self):
        return dict(self.cache._cache)

    def key_of_name(self, name):
        if self.kind == 'Loader':
            for k, (p, n) in enumerate(self.names):
                if name == ((str(p), n) if p else n):
                    return k
            return None
        if self.kind == 'BackoffCache' and name in self.builtin and name not in self.names:
            return 'builtin'
        return self.names.index(name) if name in self.names else None

    def close(self):
        for u in reversed(self.undo):
            u()


# ---------------------------------------------------------------------------------------------
# one case on the implementation
# ---------------------------------------------------------------------------------------------

def seeds_of(case):
    """Model seed table for a case: BackoffCache's last key is a built-in."""
    if case['cache'] == 'BackoffCache' and case['keys'] >= 2:
        return [[case['keys'] - 1, SEED_BASE]]
    return []


def run_impl(case):
    """Run one schedule case against the real cache class. Returns the observation."""
    from pypyr.config import config
    from pypyr.pipedef import PipelineDefinition
    from pypyr.errors import PipelineDefinitionError
    fails = set(case['fails'])
    bad_payload = case.get('variant') == 'badpayload'
    scan = case.get('kind') == 'scan'
    st = {'calls': 0, 'hist': [], 'first': {}, 'identity_breaks': [], 'op_calls': {}, 'active': 0,
          'overlap': 0, 'notes': []}
    holder = {}
    sweeps = [[] for _ in case['threads']]
    sweep_log = {}      # thread -> Loader objects (creation numbers) its current clear_pipes() has cleared
    missed = []

    def make_loader(c, k):
        # a real Loader whose own pipeline cache is guarded by a scheduler lock: clear_pipes() parks in loader.clear()
        import pypyr.cache.loadercache as lcm

        class VLoader(lcm.Loader):
            __slots__ = ('c', 'key')

            def clear(self):
                t = holder['sched'].tid()
                if t is not None:
                    sweep_log.setdefault(t, []).append(self.c)
                return super().clear()
        ld = VLoader(f'vmod.loader{k}', lambda pipeline_name, parent: {'steps': []})
        ld.c, ld.key = c, k
        ld._pipeline_cache._lock = SchedLock(holder['sched'])
        ld._pipeline_cache._cache['vpipe'] = object()
        return ld

    def creator(k, payload=False):
        sched = holder['sched']
        t = sched.tid()
        c = st['calls']
        st['calls'] += 1
        st['op_calls'].setdefault(t, []).append(c)
        st['active'] += 1
        if st['active'] > 1:
            st['overlap'] += 1
        try:
            sched.park('creatorEnter')
            sched.park('creatorExit')
        finally:
            st['active'] -= 1
        if c in fails:
            st['hist'].append(['fail', t, k, c])
            if payload and bad_payload:
                return ['not a mapping', c]       # Loader._load_pipeline raises PipelineDefinitionError
            raise CreatorError(c)
        st['hist'].append(['create', t, k, c])
        if payload:
            return {'c': c, 'steps': []}
        if scan:
            return make_loader(c, k)
        return Obj(c, k)

    adapter = None
    seed_ids = {}

    def ident(v):
        if id(v) in seed_ids:
            return seed_ids[id(v)]
        if isinstance(v, Obj) or (scan and hasattr(v, '_pipeline_cache') and hasattr(v, 'c')):
            c = v.c
        elif isinstance(v, PipelineDefinition) and isinstance(v.pipeline, Mapping) and 'c' in v.pipeline:
            c = v.pipeline['c']
        elif isinstance(v, CreatorError):
            c = v.c
            st['notes'].append('an exception object was handed out as a value')
        else:
            return -1
        first = st['first'].setdefault(c, v)
        if first is not v:
            st['identity_breaks'].append(c)
        return c

    results = [[] for _ in case['threads']]

    cur = {}        # thread -> the operation it is in
    logged = {}     # thread -> the event already logged for the current operation at lock release

    def before_release(t, lock):
        # the critical section's work is done when the thread reaches _lock.__exit__: log here, so the
        # history is in critical-section order; a hit's object id is filled in when get() returns
        if adapter is None or lock is not adapter.cache._lock:
            return       # the lock of a Loader's own pipeline cache (clear_pipes)
        if logged.get(t) is not None or t not in cur:
            return
        if cur[t] == 'clear':
            logged[t] = ['clear', t]
            st['hist'].append(logged[t])
        elif not st['op_calls'].get(t):
            logged[t] = ['hit', t, cur[t]['get'], None]
            st['hist'].append(logged[t])

    def do_get(k):
        def op(t, i):
            st['op_calls'][t] = []
            cur[t], logged[t] = {'get': k}, None
            try:
                v = adapter.get(k)
            except Abort:
                raise
            except Exception as e:
                calls = st['op_calls'][t]
                expected = (isinstance(e, CreatorError) and calls and e.c == calls[-1]) or \
                           (bad_payload and isinstance(e, PipelineDefinitionError) and calls)
                results[t].append(['raised', calls[-1]] if expected else ['error', type(e).__name__])
                if not expected and not calls:
                    st['hist'].append(['error', t, k, type(e).__name__])
                return
            c = ident(v)
            if logged[t] is not None:
                logged[t][3] = c
            elif not st['op_calls'][t]:
                st['hist'].append(['hit', t, k, c])
            results[t].append(['val', c])
        return op

    def do_clear():
        def op(t, i):
            cur[t], logged[t] = 'clear', None
            adapter.clear()
            if logged[t] is None:
                st['hist'].append(['clear', t])
            results[t].append(['cleared'])
        return op

    def do_clear_pipes(k=None):
        def op(t, i):
            cur.pop(t, None)
            sweep_log[t] = []
            mine = lambda: {ident(v) for n, v in adapter.table().items() if k is None or n == adapter.names[k]}   # noqa: E731
            before = mine()
            try:
                if k is None:
                    adapter.inst.clear_pipes()
                else:
                    adapter.inst.clear_pipes(adapter.names[k])
                out = 'swept'
            except Abort:
                raise
            except RuntimeError as e:
                out = 'sizeChanged' if 'changed size during iteration' in str(e) else f'RuntimeError: {e}'
            except Exception as e:
                out = f'{type(e).__name__}: {e}'
            after = mine()
            done = list(sweep_log.pop(t, []))
            sweeps[t].append([out, done])
            left = sorted((before & after) - set(done))
            if left or out != 'swept':
                missed.append({'thread': t, 'outcome': out, 'cleared': done, 'kept_their_pipelines': left})
        return op

    def mk_op(o):
        if o == 'clear':
            return do_clear()
        if o == 'clearPipes':
            return do_clear_pipes()
        if 'clearPipesOf' in o:
            return do_clear_pipes(o['clearPipesOf'])
        return do_get(o['get'])

    programs = [[mk_op(o) for o in prog] for prog in case['threads']]
    sched = Sched(programs)
    sched.before_release = before_release
    holder['sched'] = sched
    old_nc = config.no_cache
    try:
        adapter = Adapter(case['cache'], case['keys'], creator, lambda: SchedLock(sched), case.get('variant'))
        for k, o in adapter.seed.items():
            seed_ids[id(o)] = SEED_BASE + (k - (case['keys'] - 1))
        config.no_cache = bool(case['noCache'])
        sched.start()
        outcome = sched.run(case['sched'], finish=True)
        table = []
        for name, v in adapter.table().items():
            k = adapter.key_of_name(name)
            if k == 'builtin':
                continue
            table.append([k if k is not None else repr(name), ident(v)])
        table.sort(key=lambda p: (isinstance(p[0], str), p[0]))
        lock = adapter.cache._lock
        return {'hist': st['hist'], 'results': results, 'cache': table, 'calls': st['calls'],
                'done': outcome == 'done', 'outcome': outcome, 'lock_held': getattr(lock, 'owner', None) is not None,
                'identity_breaks': st['identity_breaks'], 'creator_overlaps': st['overlap'], 'notes': st['notes'],
                'sweeps': sweeps, 'sweep_failures': missed}
    finally:
        config.no_cache = old_nc
        if adapter is not None:
            adapter.close()


def run_model(env, case):
    if case.get('kind') == 'scan':
        return env.driver.ask('cache.scan', threads=case['threads'], sched=case['sched'], seed=seeds_of(case),
                              fails=case['fails'], noCache=case['noCache'], keys=case['keys'], finish=True)
    obs = env.driver.ask('cache.run', threads=case['threads'], sched=case['sched'], seed=seeds_of(case),
                         fails=case['fails'], noCache=case['noCache'], keys=case['keys'], mode='turn', finish=True)
    return obs


# ---------------------------------------------------------------------------------------------
# monitors: the property text judged on the implementation's own history
# ---------------------------------------------------------------------------------------------

def is_sweep(o):
    return o == 'clearPipes' or (isinstance(o, dict) and 'clearPipesOf' in o)


def history_monitor(hist, seed, nkeys):
    """The clauses single flight / same object / failures not remembered / clear refreshes on ONE cache's history
    (oldest first) of hit / create / fail / clear events. Returns (violations, last) where last[k] is the newest
    event concerning key k."""
    out = []
    current = {}      # key -> id created/served since the last clear
    created = set()   # keys successfully created since the last clear
    last = {}         # key -> newest event concerning the key ('clear' after a clear)
    for e in hist:
        kind = e[0]
        if kind == 'clear':
            current, created = {}, set()
            last = {k: ('clear',) for k in range(nkeys)}
        elif kind == 'create':
            _, t, k, c = e
            if k in created:
                out.append(('single_flight', f'key {k} created twice between two clears (second: call {c} by thread {t})'))
            elif k in current or k in seed:
                out.append(('single_flight', f'key {k} created (call {c}) although an object for it was already handed out'))
            created.add(k)
            current[k] = c
            last[k] = ('create', c)
        elif kind == 'hit':
            _, t, k, c = e
            if k in seed:
                if c != seed[k]:
                    out.append(('same_object', f'built-in key {k} served object {c}'))
            else:
                prev = last.get(k)
                if k in current and current[k] != c:
                    out.append(('same_object', f'key {k}: thread {t} got object {c}, earlier callers got {current[k]}'))
                if prev is None:
                    out.append(('single_flight', f'key {k} served object {c} that no creator made'))
                elif prev[0] == 'fail':
                    out.append(('failure_not_cached', f'key {k} served from the table right after its creator raised (call {prev[1]})'))
                elif prev[0] == 'clear':
                    out.append(('clear_refreshes', f'key {k} served object {c} from the table right after a clear'))
            current.setdefault(k, c)
            last[k] = ('hit', c)
        elif kind == 'fail':
            last[e[2]] = ('fail', e[3])
    return out, last


def monitor(case, obs):
    """Returns a list of (clause, detail). Written from the property statement; does not use the
    model's observation."""
    out = []
    seed = {k: c for k, c in seeds_of(case)}
    hist = obs['hist']
    if obs.get('outcome') == 'deadlock':
        out.append(('progress', 'threads blocked for ever on the cache lock'))
    for c in obs.get('identity_breaks', []):
        out.append(('same_object', f'two different Python objects were handed out for creation {c}'))
    for e in hist:
        if e[0] == 'error':
            out.append(('transparent', f'look-up of key {e[2]} raised {e[3]} without running a creator'))
    # progress: every operation returns — a get with a value or its creator's exception, a clear with nothing
    if obs.get('done'):
        for t, prog in enumerate(case['threads']):
            want = ['cleared' if o == 'clear' else 'get' for o in prog if not is_sweep(o)]
            got = ['cleared' if r[0] == 'cleared' else 'get' if r[0] in ('val', 'raised') else r[0] for r in obs['results'][t]]
            if got != want:
                out.append(('progress', f'thread {t} ran {want} but its operations returned {got}'))
    # clear_pipes(): "a clear makes the next look-up create afresh" — every Loader that was in the table during the
    # whole call must have been cleared when the call is over, and the call must not fail because of other threads
    for f in obs.get('sweep_failures', []):
        if f['outcome'] != 'swept':
            out.append(('clear_refreshes',
                        f'clear_pipes in thread {f["thread"]} failed with {f["outcome"]} (another thread changed the loader table meanwhile) '
                        f'after clearing loaders {f["cleared"]}; present during the whole call and NOT cleared: {f["kept_their_pipelines"]}',
                        {'site': 'LoaderCache.clear_pipes', 'race': 'unlocked-iteration'}))
        else:
            out.append(('clear_refreshes',
                        f'clear_pipes in thread {f["thread"]} returned after clearing loaders {f["cleared"]}; loaders '
                        f'{f["kept_their_pipelines"]} were in the table during the whole call and kept their pipelines',
                        {'site': 'LoaderCache.clear_pipes', 'fault': 'loader-not-cleared'}))
    # what each operation returned must be what it observed
    per_thread = {}
    for e in hist:
        if e[0] in ('hit', 'create'):
            per_thread.setdefault(e[1], []).append(['val', e[3]])
        elif e[0] == 'fail':
            per_thread.setdefault(e[1], []).append(['raised', e[3]])
        elif e[0] == 'clear':
            per_thread.setdefault(e[1], []).append(['cleared'])
    for t, rs in enumerate(obs['results']):
        if obs.get('done') and rs != per_thread.get(t, []):
            out.append(('same_object', f'thread {t} returned {rs} but observed {per_thread.get(t, [])}'))
    if case['noCache']:
        for e in hist:
            if e[0] == 'hit':
                out.append(('no_cache', f'key {e[2]} was served from the table although no_cache is set'))
        if obs['cache'] != [[k, c] for k, c in sorted(seed.items())]:
            out.append(('no_cache', f'the table was written although no_cache is set: {obs["cache"]}'))
        gets = sum(1 for p in case['threads'] for o in p if o != 'clear' and not is_sweep(o))
        if obs.get('done') and obs['calls'] != gets:
            out.append(('no_cache', f'{gets} look-ups but {obs["calls"]} creator invocations'))
        return out
    hv, last = history_monitor(hist, seed, case['keys'])
    out += hv
    if obs.get('done'):
        want = dict(seed)
        for k, ev in last.items():
            if ev[0] in ('create', 'hit') and k not in seed:
                want[k] = ev[1]
        got = {p[0]: p[1] for p in obs['cache']}
        for k in set(want) | set(got):
            if want.get(k) != got.get(k):
                ev = last.get(k)
                clause = 'failure_not_cached' if ev and ev[0] == 'fail' else \
                    'clear_refreshes' if ev and ev[0] == 'clear' else 'same_object'
                out.append((clause, f'final table holds {got.get(k)} for key {k}, the history implies {want.get(k)}'))
        if obs.get('lock_held'):
            out.append(('progress', 'cache lock still held after all threads finished'))
    return out


def judge_lean(env, case, obs):
    """The Lean-defined monitor (`CacheTS.holds`) on the implementation's history."""
    if case['noCache']:
        return None
    hist = [e for e in obs['hist'] if e[0] in ('hit', 'create', 'fail', 'clear')]
    if any(not all(isinstance(x, int) and x >= 0 for x in e[1:]) for e in hist):
        return {'ok': False, 'spec': False, 'distinct': True, 'note': 'ids outside the model'}
    return env.driver.ask('cache.judge', hist=hist, seed=seeds_of(case), fails=case['fails'])


def check_case(env, res, case, count=True):
    impl = run_impl(case)
    model = run_model(env, case)
    res.case(case)
    if count:
        res.count(('scan:' if case.get('kind') == 'scan' else 'cache:') + case['cache'])
        for sw in impl.get('sweeps', []):
            for o in sw:
                res.count('sweep:' + o[0])
        res.count('noCache' if case['noCache'] else 'cached')
        res.count(f'threads={len(case["threads"])}')
        for e in impl['hist']:
            res.count('ev:' + e[0])
    vs = monitor(case, impl)
    j = judge_lean(env, case, impl)
    if j is not None and not j['ok'] and not vs:
        vs.append(('refines_atomic', f'the history is not a trace of the atomic get-or-create specification: {j}'))
    for v in vs[:3]:
        clause, detail = v[0], v[1]
        sig = {'clause': clause, 'cache': case['cache']}
        if len(v) > 2:
            sig.update(v[2])
        res.violation(case, f'{clause}: {detail}', signature=sig, impl=impl)
    if not model['done']:
        raise common.Infra('cache.run/scan: the fair completion of the model did not finish (theorem driver_finish_completes)')
    keys = ('hist', 'results', 'cache', 'calls', 'done') + (('sweeps',) if case.get('kind') == 'scan' else ())
    mi = {k: impl[k] for k in keys}
    mm = {k: model[k] for k in keys}
    if mi != mm:
        res.mismatch(case, mm, mi)
    return impl, model


# ---------------------------------------------------------------------------------------------
# case generation
# ---------------------------------------------------------------------------------------------

G0, G1, CL = {'get': 0}, {'get': 1}, 'clear'
PROGS2 = [[G0, G0], [G0, CL], [CL, G0], [G0, G1], [G1, G0]]
PROGS1 = [[G0], [G1], [CL]]


def configs():
    """(threads, fails, noCache) of the exhaustive families: 2 threads x 2 ops and 3 threads x 1 op."""
    out = []
    for a, b in itertools.combinations_with_replacement(range(len(PROGS2)), 2):
        th = [PROGS2[a], PROGS2[b]]
        if not any(o == G0 for p in th for o in p):
            continue
        for fails in ([], [0], [1], [0, 1]):
            out.append((th, fails, False))
        out.append((th, [], True))
        out.append((th, [1], True))
    for a, b, c in itertools.combinations_with_replacement(range(len(PROGS1)), 3):
        th = [PROGS1[a], PROGS1[b], PROGS1[c]]
        if sum(1 for p in th if p == [G0]) + sum(1 for p in th if p == [G1]) < 2:
            continue
        for fails in ([], [0], [1], [0, 1]):
            out.append((th, fails, False))
        out.append((th, [0], True))
    return out


def enumerate_cases(env, limit_per_config=5000):
    cases = []
    for idx, (th, fails, nc) in enumerate(configs()):
        r = env.driver.ask('cache.enum', threads=th, seed=[], fails=fails, noCache=nc, limit=limit_per_config)
        if r['scheds'] is None:
            raise common.Infra(f'schedule enumeration too large: {r["count"]}')
        for s in r['scheds']:
            cases.append({'kind': 'sched', 'threads': th, 'fails': fails, 'noCache': nc, 'keys': 2, 'sched': s})
    return cases


def directed_cases():
    """Hand-picked schedules: every kind x (two threads racing on one key, failure then retry,
    clear between gets, no_cache overlap, the Loader pair the pre-fix key confused)."""
    out = []
    race = {'threads': [[G0, G0], [G0, CL]], 'sched': [0, 1, 0, 0, 0, 1, 1], 'fails': [], 'noCache': False}
    failing = {'threads': [[G0, G0], [G0]], 'sched': [0, 1, 0, 0, 0, 0, 1], 'fails': [0], 'noCache': False}
    clearing = {'threads': [[G0, CL, G0], [G0, G0]], 'sched': [0, 0, 0, 0, 0, 1, 1, 1, 0, 0, 0], 'fails': [], 'noCache': False}
    nocache = {'threads': [[G0, G0], [G0]], 'sched': [0, 1, 0, 1, 1, 0], 'fails': [1], 'noCache': True}
    pairkeys = {'threads': [[G0, G1], [G1, G0]], 'sched': [0, 0, 1, 0, 0, 0], 'fails': [], 'noCache': False}
    three = {'threads': [[G0, G1], [G1, CL], [G0, G0]], 'sched': [2, 1, 0, 2, 2, 1, 0, 0], 'fails': [1], 'noCache': False}
    for kind in KINDS:
        for base in (race, failing, clearing, nocache, pairkeys, three):
            out.append({'kind': 'sched', 'cache': kind, 'keys': 2, **base})
    out.append({'kind': 'sched', 'cache': 'Loader', 'keys': 2, 'variant': 'badpayload', **failing})
    out.append({'kind': 'sched', 'cache': 'Loader', 'keys': 4,
                'threads': [[{'get': 0}, {'get': 1}, {'get': 2}, {'get': 3}], [{'get': 3}, {'get': 2}, {'get': 1}, {'get': 0}]],
                'sched': [0, 1, 0, 1, 0, 1], 'fails': [], 'noCache': False})
    return out


def random_case(rng, nthreads=None):
    n = nthreads or rng.choice([2, 2, 3])
    nkeys = rng.choice([2, 2, 3])
    threads = []
    for _ in range(n):
        ln = rng.randint(1, 4)
        threads.append([CL if rng.random() < 0.2 else {'get': rng.randrange(nkeys)} for _ in range(ln)])
    total = sum(len(p) for p in threads)
    fails = sorted(rng.sample(range(total), rng.randint(0, min(3, total))))
    sched = [rng.randrange(n) for _ in range(rng.randint(0, 6 * total))]
    case = {'kind': 'sched', 'cache': rng.choice(KINDS), 'keys': nkeys, 'threads': threads, 'fails': fails,
            'noCache': rng.random() < 0.2, 'sched': sched}
    if case['cache'] == 'Loader' and rng.random() < 0.5:
        case['variant'] = 'badpayload'
    return case


# ---------------------------------------------------------------------------------------------
# LoaderCache.clear_pipes() next to look-ups (lean `CacheTS.Scan`): the table is read and iterated without the lock
# ---------------------------------------------------------------------------------------------

G2, CP = {'get': 2}, 'clearPipes'


def directed_scan_cases():
    """clear_pipes() alone; while another thread creates a loader (the iteration is parked inside loader.clear() when
    the table grows); while another thread clears the table; two sweeps at once; a failing creator in between."""
    out = []

    def mk(threads, sched, fails=(), keys=3):
        out.append({'kind': 'scan', 'cache': 'LoaderCache', 'keys': keys, 'threads': threads, 'sched': list(sched),
                    'fails': list(fails), 'noCache': False})
    # T0 makes loader 0 then sweeps; T1 makes loader 1 while T0 is inside loader0.clear()
    mk([[G0, CP], [G1]], [0] * 5 + [0, 0] + [1] * 5 + [0] * 4)
    mk([[G0, CP], [G1]], [0] * 5 + [0, 0, 0] + [1] * 5 + [0] * 4)
    # the same with T1's creator failing: the table does not grow, the sweep completes
    mk([[G0, CP], [G1]], [0] * 5 + [0, 0] + [1] * 5 + [0] * 4, fails=[1])
    # two loaders in the table, a third arrives after the first was cleared: the second keeps its pipelines
    mk([[G0, G1, CP], [G2]], [0] * 10 + [0, 0, 0] + [1] * 5 + [0] * 6)
    # the table is cleared while the sweep is parked
    mk([[G0, G1, CP], [CL]], [0] * 10 + [0, 0] + [1] * 3 + [0] * 6)
    # cleared and refilled to the same size while the sweep is parked
    mk([[G0, G1, CP], [CL, G0, G1]], [0] * 10 + [0, 0] + [1] * 13 + [0] * 6)
    # sweep alone, two sweeps at once (they contend for the Loaders' own locks), empty table
    mk([[G0, G1, CP]], [])
    mk([[G0, G1, CP], [CP]], [0] * 10 + [0, 1, 0, 1, 1, 0, 0, 1])
    mk([[CP], [G0]], [0, 1, 1, 1, 1, 1, 0])
    mk([[CP, G0, CP], [G0, CP]], [0, 1, 0, 1, 0, 1, 0, 1])
    # clear_pipes(name): one unlocked read; while the named loader is being created; after the table was cleared
    mk([[G0, {'clearPipesOf': 0}, {'clearPipesOf': 1}], [G1]], [0] * 5 + [1, 1, 1, 0, 0, 0, 1, 1, 0, 0, 0])
    mk([[G0, {'clearPipesOf': 0}], [CL, G0]], [0] * 5 + [0, 0, 1, 1, 1, 1, 1, 1, 1, 0, 0])
    return out


def random_scan_case(rng):
    n = rng.choice([2, 2, 3])
    nkeys = 3
    threads = []
    for i in range(n):
        ln = rng.randint(1, 4)
        prog = []
        for _ in range(ln):
            x = rng.random()
            prog.append(CP if x < (0.4 if i == 0 else 0.12) else {'clearPipesOf': rng.randrange(nkeys)} if x < (0.48 if i == 0 else 0.2)
                        else CL if x < 0.56 else {'get': rng.randrange(nkeys)})
        threads.append(prog)
    if not any(is_sweep(o) for p in threads for o in p):
        threads[0].append(CP)
    if rng.random() < 0.6:
        threads[0] = [{'get': k} for k in range(rng.randint(1, 2))] + threads[0]
    total = sum(len(p) for p in threads)
    fails = sorted(rng.sample(range(total), rng.randint(0, min(2, total))))
    sched = [rng.randrange(n) for _ in range(rng.randint(0, 7 * total))]
    return {'kind': 'scan', 'cache': 'LoaderCache', 'keys': nkeys, 'threads': threads, 'fails': fails, 'noCache': False,
            'sched': sched}


# ---------------------------------------------------------------------------------------------
# two locks (lean `CacheTS.Nest`): the real Loader's pipeline cache, whose creator — the real file loader's
# get_pipeline_definition — looks up the real file_cache
# ---------------------------------------------------------------------------------------------

# outer key -> (parent, name, inner key): requests 0 and 1 mean the same file (inner key 0)
NEST_RQS = [(None, '/T/d0/p', 0), ('/T/d0', 'p', 0), (None, '/T/d1/p', 1), ('/T/d1', 'p', 1)]
NEST_FILES = ['/T/d0/p.yaml', '/T/d1/p.yaml']


def run_nest_impl(case):
    """One schedule case on the real Loader + file loader + file_cache. Parking places: both locks' __enter__/__exit__,
    entry to and exit from load_pipeline_from_file (the inner creator)."""
    import pypyr.cache.loadercache as lcm
    import pypyr.loaders.file as fl
    from pypyr.cache.filecache import file_cache
    from pypyr.config import config
    from pypyr.pipedef import PipelineDefinition
    failsO, failsI = set(case['failsO']), set(case['failsI'])
    root = Path(tempfile.mkdtemp(prefix='c13nest')).resolve()
    conc = lambda x: str(root) + x[2:] if isinstance(x, str) and x.startswith('/T') else x   # noqa: E731
    st = {'callsO': 0, 'callsI': 0, 'histO': [], 'histI': [], 'activeI': 0, 'overlapI': 0, 'activeO': 0, 'overlapO': 0,
          'identity_breaks': [], 'notes': []}
    holder = {}
    inner_key = {}
    for i, f in enumerate(NEST_FILES):
        full = Path(conc(f))
        full.parent.mkdir(parents=True, exist_ok=True)
        full.write_text('steps: []\n')
        inner_key[str(full)] = i
    first = {}
    outer_made = []        # (outer key, outer call number, the object the outer creator returned)
    op_calls = {}          # thread -> outer call numbers of the current operation
    op_calls_i = {}

    def inner_creator(path):
        sched = holder['sched']
        t = sched.tid()
        c = st['callsI']
        st['callsI'] += 1
        op_calls_i.setdefault(t, []).append(c)
        ki = inner_key.get(str(path), repr(str(path)))
        st['activeI'] += 1
        if st['activeI'] > 1:
            st['overlapI'] += 1
        try:
            sched.park('creatorEnter')
            sched.park('creatorExit')
        finally:
            st['activeI'] -= 1
        if c in failsI:
            st['histI'].append(['fail', t, ki, c])
            raise CreatorError(c)
        st['histI'].append(['create', t, ki, c])
        return PipelineDefinition(pipeline={'c': c, 'steps': []}, info=None)

    def ident_i(v):
        if isinstance(v, PipelineDefinition) and isinstance(v.pipeline, Mapping) and 'c' in v.pipeline:
            c = v.pipeline['c']
            if first.setdefault(c, v) is not v:
                st['identity_breaks'].append(c)
            return c
        return -1

    def ident_o(ko, v):
        """the outer creation that made `v` for key `ko` (the newest one)"""
        for k, c, obj in reversed(outer_made):
            if k == ko and obj is v:
                return c
        return -1

    re_target = {}      # outer key -> outer key its creator looks up in the SAME cache (NOT pypyr: the assumption's witness)
    outer = {}

    def gpd(pipeline_name, parent):
        # instrumentation around the real get_pipeline_definition: number the outer creator calls, log their outcome
        sched = holder['sched']
        t = sched.tid()
        ko = next((i for i, (p, n, _) in enumerate(NEST_RQS) if conc(p) == (None if parent is None else str(parent)) and conc(n) == pipeline_name),
                  None)
        c = st['callsO']
        st['callsO'] += 1
        op_calls.setdefault(t, []).append(c)
        st['activeO'] += 1
        if st['activeO'] > 1:
            st['overlapO'] += 1
        try:
            if ko in re_target:
                p2, n2, _ = NEST_RQS[re_target[ko]]
                return outer['loader'].get_pipeline(name=conc(n2), parent=conc(p2))
            try:
                v = fl.get_pipeline_definition(pipeline_name=pipeline_name, parent=parent)
            except Abort:
                raise
            except Exception:
                st['histO'].append(['fail', t, ko, c])
                raise
            if c in failsO:
                st['histO'].append(['fail', t, ko, c])
                raise CreatorError(c)
            st['histO'].append(['create', t, ko, c])
            outer_made.append((ko, c, v))
            return v
        finally:
            st['activeO'] -= 1

    results = [[] for _ in case['threads']]
    cur, logged = {}, {}

    def before_release(t, lock):
        if t not in cur or logged.get(t) is not None:
            return
        layer, what = cur[t]
        if layer == 'O' and lock is outer['lock']:
            if what == 'clear':
                logged[t] = ['clear', t]
                st['histO'].append(logged[t])
            elif not op_calls.get(t):
                logged[t] = ['hit', t, what, None]
                st['histO'].append(logged[t])
        elif lock is inner_lock[0]:
            if layer == 'I' and what == 'clear':
                logged[t] = ['clear', t]
                st['histI'].append(logged[t])
            elif (layer == 'I' or op_calls.get(t)) and not op_calls_i.get(t):
                # a look-up of the inner cache (direct, or nested in an outer creator) that found its key
                ev = ['hit', t, None, None]
                st['histI'].append(ev)
                pending_inner_hit[t] = ev

    pending_inner_hit = {}
    inner_lock = [None]

    def do_get_o(ko):
        def op(t, i):
            op_calls[t], op_calls_i[t] = [], []
            cur[t], logged[t] = ('O', ko), None
            p, n, _ = NEST_RQS[ko]
            try:
                v = outer['loader'].get_pipeline(name=conc(n), parent=conc(p))
            except Abort:
                raise
            except Exception as e:
                calls = op_calls[t]
                results[t].append(['raised', calls[-1]] if calls and isinstance(e, CreatorError) else ['error', type(e).__name__])
                return
            c = ident_o(ko, v)
            if logged[t] is not None:
                logged[t][3] = c
            results[t].append(['val', c])
        return op

    def do_get_i(ki):
        def op(t, i):
            op_calls[t], op_calls_i[t] = [], []
            cur[t], logged[t] = ('I', ki), None
            try:
                v = fl.get_pipeline_definition(pipeline_name=conc(NEST_FILES[ki])[:-5], parent=None)
            except Abort:
                raise
            except Exception as e:
                calls = op_calls_i[t]
                results[t].append(['raised', calls[-1]] if calls and isinstance(e, CreatorError) else ['error', type(e).__name__])
                return
            results[t].append(['val', ident_i(v)])
        return op

    def do_clear(layer):
        def op(t, i):
            op_calls[t], op_calls_i[t] = [], []
            cur[t], logged[t] = (layer, 'clear'), None
            if layer == 'O':
                outer['loader'].clear()
            else:
                file_cache.clear()
            results[t].append(['cleared'])
        return op

    def mk_op(o):
        if o[0] == 'getO':
            return do_get_o(o[1])
        if o[0] == 'getRe':
            re_target[o[1]] = o[2]
            return do_get_o(o[1])
        if o[0] == 'getI':
            return do_get_i(o[1])
        return do_clear('O' if o[0] == 'clearO' else 'I')

    # the inner hit's key and object are known only inside file_cache.get: wrap it (observation only)
    programs = [[mk_op(o) for o in prog] for prog in case['threads']]
    sched = Sched(programs)
    sched.before_release = before_release
    holder['sched'] = sched
    old = (file_cache._lock, file_cache._cache, fl.load_pipeline_from_file, config.no_cache)
    orig_get = type(file_cache).get

    def watched_inner_get(self, key, creator):
        v = orig_get(self, key, creator)
        t = sched.tid()
        ev = pending_inner_hit.pop(t, None) if self is file_cache else None
        if ev is not None:
            ev[2], ev[3] = inner_key.get(key, repr(key)), ident_i(v)
        return v
    try:
        file_cache._lock = inner_lock[0] = SchedLock(sched)
        file_cache._cache = {}
        fl.load_pipeline_from_file = inner_creator
        type(file_cache).get = watched_inner_get
        config.no_cache = False
        outer['loader'] = lcm.Loader('pypyr.loaders.file', gpd)
        outer['lock'] = outer['loader']._pipeline_cache._lock = SchedLock(sched)
        sched.start()
        outcome = sched.run(case['sched'], finish=True)
        stuck = list(sched.stuck) if outcome == 'deadlock' else []
        tab_o = []
        for key, v in outer['loader']._pipeline_cache._cache.items():
            ko = next((i for i, (p, n, _) in enumerate(NEST_RQS) if key == ((str(conc(p)), conc(n)) if p else conc(n))), repr(key))
            tab_o.append([ko, ident_o(ko, v)])
        tab_i = [[inner_key.get(k, repr(k)), ident_i(v)] for k, v in file_cache._cache.items()]
        return {'histO': st['histO'], 'histI': st['histI'], 'results': results, 'cacheO': sorted(tab_o, key=repr),
                'cacheI': sorted(tab_i, key=repr), 'callsO': st['callsO'], 'callsI': st['callsI'],
                'done': outcome == 'done', 'outcome': outcome, 'stuck': stuck,
                'lockO_held': outer['lock'].owner is not None, 'lockI_held': inner_lock[0].owner is not None,
                'identity_breaks': st['identity_breaks'], 'overlapO': st['overlapO'], 'overlapI': st['overlapI']}
    finally:
        type(file_cache).get = orig_get
        file_cache._lock, file_cache._cache, fl.load_pipeline_from_file, config.no_cache = old
        shutil.rmtree(root, ignore_errors=True)


def run_nest_model(env, case):
    ops = [[list(o) for o in prog] for prog in case['threads']]
    return env.driver.ask('cache.nest', threads=ops, sched=case['sched'], failsO=case['failsO'], failsI=case['failsI'],
                          keys=max(len(NEST_RQS), len(NEST_FILES)), finish=True)


def nest_monitor(case, obs):
    """The property text per layer, on the implementation's two histories; progress; creators of one cache never
    overlap (single flight seen from inside)."""
    out = []
    reentrant = any(o[0] == 'getRe' for p in case['threads'] for o in p)
    if obs['outcome'] == 'deadlock' and not reentrant:
        out.append(('progress', f'threads {obs["stuck"]} blocked for ever (outer lock held: {obs["lockO_held"]}, '
                                f'inner lock held: {obs["lockI_held"]})', {'layer': 'nest'}))
    for layer, hist, n in (('outer', obs['histO'], len(NEST_RQS)), ('inner', obs['histI'], len(NEST_FILES))):
        hv, _ = history_monitor([e for e in hist if e[0] in ('hit', 'create', 'fail', 'clear')], {}, n)
        out += [(c, f'{layer} cache: {d}', {'layer': layer}) for c, d in hv]
    if obs['overlapO'] or obs['overlapI']:
        out.append(('single_flight', f'creators of one cache ran at the same time (outer {obs["overlapO"]}, inner {obs["overlapI"]})',
                    {'layer': 'nest'}))
    for c in obs['identity_breaks']:
        out.append(('same_object', f'two different Python objects were handed out for inner creation {c}', {'layer': 'inner'}))
    if obs['done']:
        for t, prog in enumerate(case['threads']):
            want = ['cleared' if o[0] in ('clearO', 'clearI') else 'get' for o in prog]
            got = ['cleared' if r[0] == 'cleared' else 'get' if r[0] in ('val', 'raised') else r[0] for r in obs['results'][t]]
            if got != want:
                out.append(('progress', f'thread {t} ran {want} but its operations returned {got}', {'layer': 'nest'}))
        if obs['lockO_held'] or obs['lockI_held']:
            out.append(('progress', 'a cache lock is still held after all threads finished', {'layer': 'nest'}))
    return out


def check_nest_case(env, res, case, count=True):
    impl = run_nest_impl(case)
    model = run_nest_model(env, case)
    res.case(case)
    reentrant = any(o[0] == 'getRe' for p in case['threads'] for o in p)
    if count:
        res.count('nest:reentrant' if reentrant else 'nest')
        for e in impl['histO']:
            res.count('nest:outer:' + e[0])
        for e in impl['histI']:
            res.count('nest:inner:' + e[0])
        if impl['outcome'] == 'deadlock':
            res.count('nest:deadlock-witnessed' if reentrant else 'nest:deadlock')
    for clause, detail, extra in nest_monitor(case, impl)[:3]:
        res.violation(case, f'{clause}: {detail}', signature=dict({'clause': clause, 'cache': 'Loader+file_cache'}, **extra), impl=impl)
    if not reentrant and not model['done']:
        raise common.Infra('cache.nest: the fair completion of the model did not finish (theorem nest_finish_completes)')
    keys = ('histO', 'histI', 'results', 'cacheO', 'cacheI', 'callsO', 'callsI', 'done', 'stuck')
    mi = {k: impl[k] for k in keys}
    mm = {k: model[k] for k in keys}
    if mi != mm:
        res.mismatch(case, mm, mi)
    return impl, model


def nest_ops(ko):
    return ['getO', ko, NEST_RQS[ko][2]]


def directed_nest_cases():
    out = []

    def mk(threads, sched, failsO=(), failsI=()):
        out.append({'kind': 'nest', 'threads': threads, 'sched': list(sched), 'failsO': list(failsO), 'failsI': list(failsI)})
    o0, o1, o2 = nest_ops(0), nest_ops(1), nest_ops(2)
    i0, co, ci = ['getI', 0], ['clearO'], ['clearI']
    # two threads race for one outer key; T1 blocks on the outer lock while T0 is inside the inner look-up
    mk([[o0, o0], [o0]], [0, 1, 0, 1, 0, 0, 0])
    # T0 holds the outer lock and waits for the inner lock held by T2's direct look-up
    mk([[o0], [o0], [i0]], [2, 2, 0, 0, 1, 0, 2, 2, 0])
    # the inner creator raises: the outer creator fails, nothing is stored in either cache, the next get retries both
    mk([[o0, o0], [o0]], [0, 1, 0, 0, 0, 0, 1], failsI=[0])
    # the outer creator raises after the inner look-up succeeded: the inner cache keeps the object, the outer does not
    mk([[o0, o0], [o1]], [0, 0, 0, 0, 0, 1, 1], failsO=[0])
    # two outer keys, one inner key: the second outer creation is an inner hit
    mk([[o0, o1], [o1, o0]], [0, 1, 0, 1, 0, 1])
    # clears of either layer between and during look-ups
    mk([[o0, co, o0], [ci, o0]], [0, 0, 1, 0, 0, 1, 1, 0])
    mk([[o0, o2], [ci, i0], [co, o2]], [0, 2, 1, 0, 2, 1, 0, 1, 2])
    # NOT pypyr — the assumption's witness: a creator that looks up its own cache never returns
    mk([[['getRe', 0, 2]]], [])
    mk([[['getRe', 0, 0]], [o2]], [0, 1, 0, 1])
    return out


def random_nest_case(rng):
    n = rng.choice([2, 2, 3])
    threads = []
    for _ in range(n):
        prog = []
        for _ in range(rng.randint(1, 3)):
            x = rng.random()
            prog.append(nest_ops(rng.randrange(len(NEST_RQS))) if x < 0.6 else ['getI', rng.randrange(2)] if x < 0.8
                        else ['clearO'] if x < 0.9 else ['clearI'])
        threads.append(prog)
    total = sum(len(p) for p in threads)
    return {'kind': 'nest', 'threads': threads, 'sched': [rng.randrange(n) for _ in range(rng.randint(0, 9 * total))],
            'failsO': sorted(rng.sample(range(total), rng.randint(0, min(2, total)))),
            'failsI': sorted(rng.sample(range(total), rng.randint(0, min(2, total))))}


def enumerate_nest_cases(env):
    """all maximal turn-level schedules of three small programs (every entry an enabled thread)"""
    o0, o1 = nest_ops(0), nest_ops(1)
    cfgs = [([[o0], [o0]], [], []), ([[o0], [o1]], [], [0]), ([[o0], [['getI', 0]]], [0], [])]
    if not env.quick:
        cfgs += [([[o0], [['clearI']]], [], []), ([[o0], [['clearO']]], [], [0])]
    cases = []
    for th, fo, fi in cfgs:
        r = env.driver.ask('cache.nestenum', threads=th, failsO=fo, failsI=fi, limit=20000)
        if r['scheds'] is None:
            raise common.Infra(f'nest schedule enumeration too large: {r["count"]}')
        for sc in r['scheds']:
            cases.append({'kind': 'nest', 'threads': th, 'sched': sc, 'failsO': fo, 'failsI': fi})
    return cases


# ---------------------------------------------------------------------------------------------
# Loader key: model key function vs the real Loader; real files with '+' in the names
# ---------------------------------------------------------------------------------------------

def key_requests():
    parents = [None, '', 0, '/x/a', '/x/a+b', '/x', '/x/a+b+c', '+', 'a', 'a+', Path('/x/a'), Path('/x/a+b'),
               '/x/a/sub', '/x/a/', '/x/a/sub/..', '/']
    names = ['b+c', 'c', 'a+b+c', '+b+c', 'b', '+', 'a/b+c', '', 'sub/c', '/x/a/c', '/x/a/sub/c', '../a/c', 'sub/../c',
             'x/a/c']
    return parents, names


def enc_parent(p):
    return {'truthy': bool(p), 'parent': str(p)}


def check_keys(env, res):
    """For pairs of requests (p1,n1),(p2,n2): does the real Loader give the second the first's
    cache entry (no creator call)? Model: pipelineKey equal. Monitor: requests that differ in
    name, in parent truthiness or in str(parent) must not share."""
    import pypyr.cache.loadercache as m
    parents, names = key_requests()
    reqs = [(p, n) for p in parents for n in names]
    rng = env.rng
    pairs = []
    # directed: every pair whose pre-fix keys coincide, plus identical requests, plus a random slice
    old = {}
    for r in reqs:
        if r[0]:
            old.setdefault(f'{r[0]}+{r[1]}', []).append(r)
    for grp in old.values():
        pairs += [(a, b) for a in grp for b in grp if a is not b]
    # … and every pair whose keys coincide under path joining / normalisation (the first candidate of the file
    # loader's look-up): (L, 'sub/c') ~ (L/sub, 'c') ~ (any, '/L/sub/c') ~ (L, 'sub/../sub/c')
    joined = {}
    for r in reqs:
        j = os.path.normpath(os.path.join(str(r[0]), r[1])) if r[0] else os.path.normpath(r[1]) if r[1] else ''
        joined.setdefault(j, []).append(r)
    for grp in joined.values():
        if 1 < len(grp) <= 12:
            pairs += [(a, b) for a in grp for b in grp if a is not b]
            res.count('key:joined-path-collision-pairs', len(grp) * (len(grp) - 1))
    pairs += [(r, r) for r in reqs[::5]]
    pairs += [(rng.choice(reqs), rng.choice(reqs)) for _ in range(env.n(300, 3000))]
    for (p1, n1), (p2, n2) in pairs:
        calls = []

        def gpd(pipeline_name, parent):
            calls.append((parent, pipeline_name))
            return {'who': len(calls)}
        loader = m.Loader('vloader', gpd)
        first = loader.get_pipeline(name=n1, parent=p1)
        second = loader.get_pipeline(name=n2, parent=p2)
        impl_same = len(calls) == 1 and second is first
        k1 = env.driver.ask('cache.key', name=n1, **enc_parent(p1))
        k2 = env.driver.ask('cache.key', name=n2, **enc_parent(p2))
        model_same = k1['key'] == k2['key']
        case = {'kind': 'key', 'a': [repr(p1), n1], 'b': [repr(p2), n2]}
        res.case(case)
        res.count('key:same' if model_same else 'key:distinct')
        if k1['old'] == k2['old'] and not model_same:
            res.count('key:pre-fix-collision')
        distinct_request = (n1 != n2) or (bool(p1) != bool(p2)) or (bool(p1) and str(p1) != str(p2))
        if impl_same and distinct_request:
            res.violation(case, f'distinct requests {case["a"]} and {case["b"]} share one pipeline cache entry',
                          signature={'clause': 'pipeline_key', 'cache': 'Loader'}, impl={'calls': len(calls)})
        if impl_same != model_same:
            res.mismatch(case, {'same': model_same}, {'same': impl_same})


def check_loader_dimension(env, res):
    """(loader, parent, name): the same (parent, name) asked of two loaders must reach each loader's own
    get_pipeline_definition and keep two entries."""
    import pypyr.cache.loadercache as m
    made = []

    def fake_load_the_loader(loader_name):
        def gpd(pipeline_name, parent):
            made.append(loader_name)
            return {'by': loader_name}
        return m.Loader(loader_name, gpd)
    old = m.load_the_loader
    m.load_the_loader = fake_load_the_loader
    try:
        for parent, name in [(None, 'a'), ('/x/a', 'b+c'), ('/x/a+b', 'c')]:
            lc = m.LoaderCache()
            made.clear()
            got = [lc.get_pype_loader(ln).get_pipeline(name=name, parent=parent).pipeline['by']
                   for ln in ('vla', 'vlb', 'vla', 'vlb')]
            case = {'kind': 'loaders', 'parent': parent, 'name': name}
            res.case(case)
            res.count('key:loader-dimension')
            if got != ['vla', 'vlb', 'vla', 'vlb'] or made != ['vla', 'vlb']:
                res.violation(case, f'two loaders asked for ({parent}, {name}) received {got}; creator calls {made}',
                              signature={'clause': 'pipeline_key', 'cache': 'LoaderCache'}, impl={'got': got, 'made': list(made)})
    finally:
        m.load_the_loader = old


def check_real_files(env, res):
    """Real file loader, real directories and files with '+' in their names: every (parent, name)
    request must get the pipeline from its own file."""
    import pypyr.cache.admin
    from pypyr.cache.loadercache import loader_cache
    import pypyr.moduleloader as ml
    root = Path(tempfile.mkdtemp(prefix='c13files')).resolve()
    before_path, before_known = list(sys.path), set(ml._known_dirs)
    try:
        layout = {}
        for d, n in [('a', 'b+c'), ('a+b', 'c'), ('a', 'b'), ('a+b+c', 'd'), ('a', 'b+c+d'), ('a+b', 'c+d'),
                     ('+', '+'), ('++', ''), ('a', 'sub/b+c'), ('a+sub', 'b+c'), ('a+b', 'b+c'), ('a', 'c')]:
            if not n:
                continue
            f = root / d / f'{n}.yaml'
            f.parent.mkdir(parents=True, exist_ok=True)
            marker = f'{d}|{n}'
            f.write_text(f"marker: '{marker}'\nsteps: []\n")
            layout[(d, n)] = marker
        reqs = list(layout)
        orders = [reqs, list(reversed(reqs))] + [env.rng.sample(reqs, len(reqs)) for _ in range(env.n(6, 40))]
        for order in orders:
            for parent_form in ('path', 'str'):
                pypyr.cache.admin.clear_all()
                loader = loader_cache.get_pype_loader()
                got = []
                for d, n in order + order:
                    parent = root / d if parent_form == 'path' else str(root / d)
                    pd = loader.get_pipeline(name=n, parent=parent)
                    got.append(pd.pipeline.get('marker'))
                want = [layout[r] for r in order + order]
                case = {'kind': 'files', 'order': [list(r) for r in order], 'parent_form': parent_form}
                res.case(case)
                res.count('files')
                if got != want:
                    bad = next(i for i in range(len(got)) if got[i] != want[i])
                    r = (order + order)[bad]
                    res.violation(case, f'request (parent=…/{r[0]}, name={r[1]}) received the pipeline of {got[bad]}',
                                  signature={'clause': 'pipeline_key', 'cache': 'Loader'}, impl={'got': got})
        pypyr.cache.admin.clear_all()
    finally:
        sys.path[:] = before_path
        ml._known_dirs.clear()
        ml._known_dirs.update(before_known)
        shutil.rmtree(root, ignore_errors=True)



# ---------------------------------------------------------------------------------------------
# the layers ABOVE the caches: sessions of run / edit / clear / no_cache through the real clients
# (long-lived Pipeline objects, pipelinerunner.run, the pype step, long-lived Step objects)
# ---------------------------------------------------------------------------------------------

# file-loader requests (parent, name[, parent_form]); '/T' is the scratch root
FILE_RQS = [(None, '/T/d0/vc13p'), ('/T/d0', 'vc13p'), ('/T/d1', 'vc13p'), ('/T/d0', '/T/d1/vc13p'), ('/T/d0', 'vc13q'),
            ('/T/d0', 'vc13p', 'path'), ('/T/d0', 'sub/vc13p'), ('/T/d0/sub', 'vc13p'), ('/T/a', 'b+c'), ('/T/a+b', 'c'),
            ('/T/missing', 'vc13p'), ('', '/T/d0/vc13p'), (None, '/T/d0/sub/vc13p')]
FILES = ['/T/d0/vc13p.yaml', '/T/d1/vc13p.yaml', '/T/d0/vc13q.yaml', '/T/d0/sub/vc13p.yaml', '/T/a/b+c.yaml',
         '/T/a+b/c.yaml']
DIRS = ['/T/d0', '/T/d1', '/T/d0/sub', '/T/a', '/T/a+b']
# custom-loader requests: pairs that coincide under '+' joining and under path joining, falsy parents
CUSTOM_RQS = [(None, 'n'), ('', 'n'), ('/x/a', 'b+c'), ('/x/a+b', 'c'), ('/L', 'sub/c'), ('/L/sub', 'c'), ('/L', 'x'),
              (None, '/L/x'), ('/L', '/L/x')]
VIAS_ANY = ['obj', 'new', 'pype', 'step']
VIAS_NOPARENT = ['obj.run', 'runner']
CLEARS = [{'op': 'clearAll'}, {'op': 'clearLoaders'}, {'op': 'clearPipes', 'l': None}, {'op': 'clearFiles'},
          {'op': 'clearSteps'}]


_ORDER = {}


def clear_all_order(repo=None):
    """(names, straight): the `<name>.clear()` statements of pypyr.cache.admin.clear_all in source order, read by ast
    from the tree under test; straight = the body is nothing but these, logging calls and the docstring."""
    repo = Path(repo or common.REPO)
    if repo in _ORDER:
        return _ORDER[repo]
    import ast
    tree = ast.parse((repo / 'pypyr' / 'cache' / 'admin.py').read_text(encoding='utf-8'))
    fn = next((n for n in ast.walk(tree) if isinstance(n, ast.FunctionDef) and n.name == 'clear_all'), None)
    if fn is None:
        raise ValueError('pypyr/cache/admin.py has no clear_all')
    names, straight = [], True

    def is_clear(call):
        return (isinstance(call, ast.Call) and isinstance(call.func, ast.Attribute) and call.func.attr == 'clear'
                and isinstance(call.func.value, ast.Name) and not call.args and not call.keywords)
    for st in fn.body:
        if isinstance(st, ast.Expr) and isinstance(st.value, ast.Constant):
            continue
        if isinstance(st, ast.Expr) and is_clear(st.value):
            names.append(st.value.func.value.id)
            continue
        if (isinstance(st, ast.Expr) and isinstance(st.value, ast.Call) and isinstance(st.value.func, ast.Attribute)
                and isinstance(st.value.func.value, ast.Name) and st.value.func.value.id == 'logger'):
            continue
        straight = False
        calls = sorted((n for n in ast.walk(st) if is_clear(n)), key=lambda n: (n.lineno, n.col_offset))
        names += [n.func.value.id for n in calls]
    _ORDER[repo] = (names, straight)
    return _ORDER[repo]


def extract(env):
    """lean/Generated/CacheAdmin.lean: the order of the clears in clear_all of the tree under test; Props/C13.lean
    `clear_all_order_inner_first` proves that order empties file_cache before loader_cache."""
    names, straight = clear_all_order()
    lst = ', '.join('"' + n.replace('\\', '').replace('"', '') + '"' for n in names)
    text = ('/- GENERATED by harness/props/c13.py `extract` from pypyr/cache/admin.py of the tree under test (ast only). '
            'Do not edit. -/\n'
            'namespace Pypyr.Generated.CacheAdmin\n\n'
            '/-- the `<name>.clear()` statements of `clear_all`, in source order -/\n'
            f'def clearAllOrder : List String := [{lst}]\n\n'
            "/-- `clear_all`'s body is a straight line of `<module-level name>.clear()` calls (+ logging): nothing else -/\n"
            f'def clearAllStraight : Bool := {"true" if straight else "false"}\n\n'
            'end Pypyr.Generated.CacheAdmin\n')
    out = common.LEAN / 'Generated' / 'CacheAdmin.lean'
    if not out.exists() or out.read_text() != text:
        out.write_text(text)


def stack_rqs():
    out = []
    for r in FILE_RQS:
        out.append({'for': 0, 'parent': r[0], 'name': r[1], 'parent_form': r[2] if len(r) > 2 else 'str'})
    for par, n in CUSTOM_RQS:
        out.append({'for': 'custom', 'parent': par, 'name': n, 'parent_form': 'str'})
    return out


def spec_file(files, rq):
    """Which file a file-loader request means, from the property text. The relative names used here exist
    nowhere in cwd, cwd/pipelines or the built-ins (checked by `stack_precheck`)."""
    name, parent = rq['name'], rq['parent']
    if name.startswith('/'):
        f = name + '.yaml'
    elif parent:
        f = f'{parent}/{name}.yaml'
    else:
        return None
    return f if f in files else None


def rq_key(rq):
    return (str(rq['parent']) if rq['parent'] else None, rq['name'])


def spec_raw(world, rqs, l, i):
    """What the loader itself answers in `world` (None = not found / the loader raises), before the check that a
    pipeline is a mapping at the top level."""
    rq = rqs[i]
    if l == 0:
        f = spec_file(world['files'], rq)
        return None if f is None else world['files'][f]
    for cl, par, n, v in world['custom']:
        if cl == l and rq_key({'parent': par, 'name': n}) == rq_key(rq):
            return v
    return None


def spec_fresh(world, rqs, l, i):
    """What an uncached look-up yields in `world` (None = it fails: not found / the loader raises / the payload is
    not a mapping at the top level, world['badv'] = the versions whose content is a list)."""
    v = spec_raw(world, rqs, l, i)
    return None if v in world.get('badv', ()) else v


def model_world(world, rqs):
    fid = {f: i for i, f in enumerate(FILES)}
    resolve = []
    for i, rq in enumerate(rqs):
        f = spec_file(world['files'], rq)
        resolve.append([i, None if f is None else fid[f]])
    custom = []
    for cl, par, n, v in world['custom']:
        i = next(k for k, rq in enumerate(rqs) if rq_key(rq) == rq_key({'parent': par, 'name': n}))
        custom.append([cl, i, v])
    return {'resolve': resolve, 'fileVer': [[fid[f], v] for f, v in world['files'].items()], 'custom': custom,
            'bad': sorted(world.get('badv', ()))}


def run_stack_model(env, case, seqs=None):
    rqs = case['rqs']
    nseq = 0
    mrqs = [{'truthy': bool(rq['parent']), 'parent': str(rq['parent']), 'name': rq['name']} for rq in rqs]
    ops = []
    for op in case['ops']:
        k = op['op']
        if k == 'run':
            ops.append(['run', op['c'], op['l'], op['rq']])
        elif k == 'world':
            ops.append(['world', model_world(op['world'], rqs)])
        elif k == 'clearPipes':
            ops.append(['clearPipes', op['l']])
        elif k == 'noCache':
            ops.append(['noCache', bool(op['b'])])
        elif k == 'clearSeq':
            gaps = [[['run', g['c'], g['l'], g['rq']] for g in gap] for gap in op['gaps']]
            if op['fn'] == 'clear_all':
                # the order of the single clears: read off pypyr/cache/admin.py (ast), the same list Props/C13.lean
                # `clear_all_order_inner_first` is about
                ops.append(['clearSeq', clear_all_order()[0], gaps])
            else:
                # clear_pipes: the loaders in the order the implementation cleared them (any order will do:
                # `clear_pipes_seq_refreshes`)
                order = seqs[nseq]['order'] if seqs is not None and nseq < len(seqs) else []
                ops.append(['clearPipesSeq', [x for x in order if isinstance(x, int)], gaps])
            nseq += 1
        else:
            ops.append([k])
    r = env.driver.ask('cache.session', rqs=mrqs, world=model_world(case['world'], rqs), noCache=bool(case.get('noCache')),
                       ops=ops)
    return r['runs']


def flat_ops(case, seqs=None):
    """The session as the sequence of events it was: a `clearSeq` becomes the look-ups other threads completed WHILE
    the clear was going on (marked `during`), the clear itself, then the look-ups made after it had returned."""
    out, k = [], 0
    for op in case['ops']:
        if op['op'] != 'clearSeq':
            out.append(op)
            continue
        n = seqs[k]['n'] if seqs and k < len(seqs) else len(op['gaps'])
        k += 1
        # the call STARTS, the look-ups of the gaps complete while it goes on (each before or after the single clear of
        # its layer: judged against the clears BEFORE the call, but what they store is stored after the call began)
        out.append(dict({'op': 'clearAll'} if op['fn'] == 'clear_all' else {'op': 'clearPipes', 'l': None}, seq=op['fn']))
        for gap in op['gaps'][:n]:
            out.extend(dict(g, during=op['fn']) for g in gap)
        for gap in op['gaps'][n:]:
            out.extend(gap)
    return out


def stack_monitor(case, runs, seqs=None):
    """The property text on the implementation's own observations, without the model:
    * a run executes a version of ITS OWN (loader, parent, name) source — never another request's;
    * "a clear makes the next look-up create afresh": the version that runs was current at some moment since the
      layers on the request's path were last emptied (custom loader l: clear_all, loader_cache.clear, clear_pipes(l),
      clear_pipes(), Loader.clear; file loader: clear_all, or file_cache.clear together with one of the former with
      no file-loader run in between). `clear_all()` / `clear_pipes()` called while other threads complete look-ups
      between its single clears (`clearSeq`): the look-ups made DURING the call may be served either way; once the call
      has returned the clause applies as for any clear - whatever happened in the gaps;
    * "with caching disabled … identically except that items are re-created": with no_cache the version that runs is
      the present one and the definition is re-created by every run;
    * "a creator that raises leaves nothing cached so a later look-up tries again": a look-up FAILS only if its
      source is absent or malformed NOW — a failure is never served from a table. The one way pypyr as it is breaks
      this is recorded as an open finding and reported under its own signature (`KF_REJECTED`): the file loader's
      parse is stored by file_cache before Loader._load_pipeline rejects it. It is diagnosed from the session itself:
      the failing look-up is a file-loader look-up rejected (PipelineDefinitionError) WITHOUT parsing any file, the
      file it means now was parsed-and-rejected by an earlier look-up, and file_cache was not emptied since. Any
      other remembered failure is a violation."""
    out = []
    rejected = {}                             # file -> op time of a parse of it that was rejected (file_cache not cleared since)
    rqs = case['rqs']
    world = case['world']
    nc = bool(case.get('noCache'))
    t = 0
    hist = [(0, world)]                       # (time, world) — world in force from that time on
    t_all = 0                                 # last clear_all
    t_pipes = {0: 0, 1: 0, 2: 0}              # last time loader l's pipeline cache was emptied
    t_files = 0                               # last time file_cache was emptied
    file_runs = []                            # times of file-loader runs
    k = 0
    last_seq = None                           # the most recent clear was a call with look-ups between its single clears
    pre = (0, {0: 0, 1: 0, 2: 0}, 0)           # (t_all, t_pipes, t_files) before that call
    pre_rejected = {}
    for op in flat_ops(case, seqs):
        t += 1
        kind = op['op']
        if kind.startswith('clear'):
            last_seq = op.get('seq')
            if last_seq:
                pre = (t_all, dict(t_pipes), t_files)
                pre_rejected = dict(rejected)
        if kind == 'world':
            world = op['world']
            hist.append((t, world))
        elif kind == 'clearAll':
            t_all = t
            t_files = t
            t_pipes = {l: t for l in t_pipes}
            rejected.clear()
        elif kind == 'clearLoaders' or (kind == 'clearPipes' and op['l'] is None):
            t_pipes = {l: t for l in t_pipes}
        elif kind == 'clearPipes':
            t_pipes[op['l']] = t
        elif kind == 'clearFiles':
            t_files = t
            rejected.clear()
        elif kind == 'noCache':
            nc = bool(op['b'])
        elif kind == 'run':
            if k >= len(runs):
                break
            obs = runs[k]
            k += 1
            l, i = op['l'], op['rq']
            sig = {'clause': 'clear_refreshes', 'layer': 'stack', 'via': op['via'], 'loader': 'file' if l == 0 else 'custom'}
            if last_seq:
                sig['clear'] = last_seq + ' with look-ups of another thread between its single clears'
            ran = obs['ran']
            if isinstance(ran, dict):
                out.append((dict(sig, clause='transparent'), f'run {k - 1} ({op}) ended unexpectedly: {ran}'))
                if l == 0:
                    file_runs.append(t)
                continue
            now = spec_fresh(world, rqs, l, i)
            f_now = spec_file(world['files'], rqs[i]) if l == 0 else None
            if ran is None and not nc and now is not None:
                # a failure although the source is there and well-formed now: some table served a failure
                src = f'({LOADER_NAMES[l]}, {rqs[i]["parent"]}, {rqs[i]["name"]})'
                known = rejected if not op.get('during') else {**pre_rejected, **rejected}
                if l == 0 and obs.get('err') == 'PipelineDefinitionError' and not obs['fileRead'] and f_now in known:
                    out.append((dict(KF_REJECTED),
                                f'run {k - 1} (via {op["via"]}) of {src} was rejected ({obs.get("err")}) without reading any '
                                f'file although {f_now} now holds the well-formed version {now}: its malformed parse, '
                                f'rejected at op {known[f_now]}, is still in file_cache'))
                else:
                    out.append((dict(sig, clause='failure_not_cached'),
                                f'run {k - 1} (via {op["via"]}) of {src} failed ({obs.get("err")}) although its source is '
                                f'present and well-formed now (version {now}): a failed look-up was remembered'))
                if l == 0:
                    file_runs.append(t)
                continue
            if (l == 0 and not nc and ran is None and obs.get('err') == 'PipelineDefinitionError' and obs['fileRead']
                    and f_now is not None and world['files'][f_now] in world.get('badv', ())):
                rejected.setdefault(f_now, t)
            if nc:
                if ran != now:
                    out.append((dict(sig, clause='no_cache'),
                                f'run {k - 1} with no_cache executed version {ran}; the present source of '
                                f'({LOADER_NAMES[l]}, {rqs[i]["parent"]}, {rqs[i]["name"]}) is version {now}'))
                elif not obs['defMade']:
                    out.append((dict(sig, clause='no_cache'), f'run {k - 1} with no_cache did not re-create the pipeline definition'))
            else:
                # a look-up completed WHILE a clear_all / clear_pipes call was going on may have come before the single
                # clear of its layer: it is judged against the clears before that call
                c_all, c_pipes, c_files = pre if op.get('during') else (t_all, t_pipes, t_files)
                if l == 0:
                    lo, hi = sorted((c_files, c_pipes[0]))
                    since = hi if not any(lo < x < hi for x in file_runs) else c_all
                    since = max(since, c_all)
                else:
                    since = c_pipes[l]
                # worlds in force at some moment in [since, now]
                cands = [w for j, (tw, w) in enumerate(hist)
                         if (hist[j + 1][0] if j + 1 < len(hist) else t + 1) > since]
                allowed = [spec_fresh(w, rqs, l, i) for w in cands]
                if ran not in allowed:
                    own = {spec_fresh(w, rqs, l, i) for _, w in hist}
                    if ran in own:
                        out.append((sig, f'run {k - 1} (via {op["via"]}) executed version {ran} of '
                                         f'({LOADER_NAMES[l]}, {rqs[i]["parent"]}, {rqs[i]["name"]}), which was replaced before '
                                         f'the layers on its path were last cleared (at op {since}); versions current since then: {allowed}'))
                    else:
                        out.append((dict(sig, clause='pipeline_key'),
                                    f'run {k - 1} (via {op["via"]}) of ({LOADER_NAMES[l]}, {rqs[i]["parent"]}, {rqs[i]["name"]}) '
                                    f'executed version {ran}, which never was a version of its own source (own: {sorted(x for x in own if x is not None)})'))
            if l == 0:
                file_runs.append(t)
    return out


ALLOWED_NESTING = {('pipeline_cache', 'file_cache')}

# the open finding of known_findings.json (C13, "malformed top level cached before rejection")
KF_REJECTED = {'site': 'file_cache', 'cause': 'malformed-top-level-cached-before-rejection', 'clause': 'failure_not_cached'}


def check_stack_case(env, res, case, count=True):
    info = {}
    impl = run_stack_impl(case, info)
    seqs = info.get('seqs')
    model = run_stack_model(env, case, seqs)
    for sq in seqs or []:
        if sq['fn'] == 'clear_all' and sq['order'] != clear_all_order()[0]:
            res.mismatch(case, {'clear_all order (ast)': clear_all_order()[0]}, {'clear_all order (run)': sq['order']},
                         note='clear_all cleared the caches in another order than its source text says')
    # the assumptions of the two-lock model, watched on the real clients: no creator looks up its own cache; look-ups
    # nest only as pipeline cache -> file_cache
    for kind, key in info.get('reentries', [])[:1]:
        res.violation(case, f'progress: a creator of {kind} looked up the same cache (key {key}): dead-lock on the real lock',
                      signature={'clause': 'progress', 'site': 'Cache.get', 'fault': 'reentrant-get', 'cache': kind}, impl=impl)
    extra = [e for e in info.get('nesting', []) if tuple(e) not in ALLOWED_NESTING]
    if extra:
        res.mismatch(case, {'nesting': sorted(ALLOWED_NESTING)}, {'nesting': info.get('nesting')},
                     note='look-ups nest in a way the two-lock model does not cover')
    if count:
        for e in info.get('nesting', []):
            res.count('stack:nesting:' + '->'.join(e))
    res.case(case)
    if count:
        res.count('stack')
        for op in case['ops']:
            res.count('stack:' + op['op'] + (':' + op['via'] if op['op'] == 'run' else '')
                      + (':' + op['fn'] if op['op'] == 'clearSeq' else ''))
            if op['op'] == 'clearSeq':
                for gi, gap in enumerate(op['gaps']):
                    if gap:
                        res.count(f'stack:clearSeq:{op["fn"]}:look-up-before-clear#{gi}', len(gap))
    vs = stack_monitor(case, impl, seqs)
    # the open finding first, then at most three others: neither hides the other
    kf = [v for v in vs if v[0] == KF_REJECTED]
    for sig, detail in kf[:1] + [v for v in vs if v[0] != KF_REJECTED][:3]:
        res.violation(case, f'{sig["clause"]}: {detail}', signature=sig, impl=impl)
    if count:
        for r in impl:
            if r.get('ran') is None:
                res.count('stack:failed-run:' + str(r.get('err')))
        if kf:
            res.count('stack:remembered-rejection(open finding)', len(kf))
    keys = ('ran', 'loaderMade', 'defMade', 'fileRead', 'stepMade')
    mi = [{k: r.get(k) for k in keys} for r in impl]
    mm = [{k: r.get(k) for k in keys} for r in model]
    if count:
        for r in model:
            res.count('stack:clean-run' if r['clean'] else 'stack:stale-run')
            if r['clean'] and r['ran'] != r['fresh']:
                raise common.Infra('cache.session: a clean run of the model is not fresh (theorem session_fresh)')
    if mi != mm:
        res.mismatch(case, mm, mi)
    return impl, model


def stack_precheck():
    import pypyr.loaders.file as fl
    from pypyr.config import config
    for rq in stack_rqs():
        if rq['for'] == 0 and not rq['name'].startswith('/'):
            for d in (config.cwd, fl.cwd_pipelines_dir, fl.builtin_pipelines_dir):
                if Path(d, rq['name'] + '.yaml').exists():
                    raise common.Infra(f'C13 stack cases need {rq["name"]}.yaml absent from {d}')


class Versions:
    """every (source, edit) gets a version number nobody else has"""

    def __init__(self):
        self.n = 100

    def new(self):
        self.n += 1
        return self.n


def base_world(ver, files=None, custom_rqs=None):
    files = FILES if files is None else files
    w = {'files': {f: ver.new() for f in files}, 'dirs': list(DIRS), 'custom': [], 'badv': []}
    for l in (1, 2):
        for par, n in (CUSTOM_RQS if custom_rqs is None else custom_rqs):
            if (par, n) == ('', 'n'):
                continue          # same key as (None, 'n')
            w['custom'].append([l, par, n, ver.new()])
    return w


def edit_world(world, ver, rng=None, what=None):
    """a new world: some sources edited / removed / created"""
    w = {'files': dict(world['files']), 'dirs': list(world['dirs']), 'custom': [list(c) for c in world['custom']],
         'badv': list(world.get('badv', ()))}
    if what == 'none-but-copy':
        return w
    if what == 'all' or rng is None:
        for f in list(w['files']):
            w['files'][f] = ver.new()
        for c in w['custom']:
            c[3] = ver.new()
        return w

    def newv():
        # a new version of a source; now and then one that is malformed (a list at the top level)
        v = ver.new()
        if rng.random() < BAD_P:
            w['badv'].append(v)
        return v
    for f in FILES:
        x = rng.random()
        if f in w['files']:
            if x < 0.5:
                w['files'][f] = newv()
            elif x < 0.62:
                del w['files'][f]
        elif x < 0.5:
            w['files'][f] = newv()
    for c in w['custom']:
        x = rng.random()
        if x < 0.5:
            c[3] = newv()
        elif x < 0.6:
            c[3] = None
    return w


BAD_P = 0.2


def break_source(l, parent, name):
    """world edit: the source of the request gets a new, MALFORMED version (top level is a list)"""
    def fn(w, ver):
        w = edit_world(w, ver, what='none-but-copy')
        v = ver.new()
        w['badv'].append(v)
        _set_source(w, l, parent, name, v)
        return w
    return fn


def repair_source(l, parent, name):
    """world edit: the source of the request gets a new, well-formed version"""
    def fn(w, ver):
        w = edit_world(w, ver, what='none-but-copy')
        _set_source(w, l, parent, name, ver.new())
        return w
    return fn


def _set_source(w, l, parent, name, v):
    if l == 0:
        f = spec_file({x: 1 for x in FILES}, {'parent': parent, 'name': name})
        w['files'][f] = v
    else:
        for c in w['custom']:
            if c[0] == l and rq_key({'parent': c[1], 'name': c[2]}) == rq_key({'parent': parent, 'name': name}):
                c[3] = v


def rq_index(rqs, l, parent, name, form='str'):
    want = 0 if l == 0 else 'custom'
    return next(i for i, rq in enumerate(rqs) if rq['for'] == want and rq['parent'] == parent and rq['name'] == name
                and rq['parent_form'] == form)


def directed_stack_cases():
    """run, edit, run (still cached), CLEAR, run, run — for every client kind x loader kind x every way of
    clearing / no_cache; the same Pipeline object run with different parents; sources that appear and vanish;
    two loaders asked for the same (parent, name); requests whose keys coincide under joining."""
    rqs = stack_rqs()
    out = []

    def mk(ops, world=None, noCache=False, tag=''):
        ver = Versions()
        w0 = base_world(ver) if world is None else world
        full, w = [], w0
        for op in ops:
            if op == 'edit':
                w = edit_world(w, ver)
                full.append({'op': 'world', 'world': w})
            elif isinstance(op, tuple) and op[0] == 'world':
                w = op[1](w, ver)
                full.append({'op': 'world', 'world': w})
            else:
                full.append(op)
        out.append({'kind': 'stack', 'tag': tag, 'rqs': rqs, 'world': w0, 'noCache': noCache, 'ops': full})

    targets = [(0, rq_index(rqs, 0, None, '/T/d0/vc13p'), True), (0, rq_index(rqs, 0, '/T/d0', 'vc13p'), False),
               (1, rq_index(rqs, 1, None, 'n'), True), (2, rq_index(rqs, 2, '/x/a', 'b+c'), False)]
    for l, i, noparent in targets:
        vias = VIAS_ANY + (VIAS_NOPARENT if noparent else [])
        for via in vias:
            run = {'op': 'run', 'c': 0, 'l': l, 'rq': i, 'via': via}
            clear_sets = [[{'op': 'clearAll'}], [{'op': 'clearLoaders'}, {'op': 'clearFiles'}],
                          [{'op': 'clearFiles'}, {'op': 'clearPipes', 'l': l, 'how': 'clear_pipes'}],
                          [{'op': 'clearPipes', 'l': l, 'how': 'Loader.clear'}, {'op': 'clearFiles'}],
                          [{'op': 'clearPipes', 'l': None}, {'op': 'clearFiles'}, {'op': 'clearSteps'}],
                          [{'op': 'noCache', 'b': True}],
                          [{'op': 'clearLoaders'}], [{'op': 'clearFiles'}], [{'op': 'clearPipes', 'l': l, 'how': 'clear_pipes'}]]
            for cs in clear_sets:
                mk([run, 'edit', run] + cs + [run, run, 'edit', run], tag=f'refresh:{via}')
            mk([run, 'edit', {'op': 'clearAll'}, 'edit', run, {'op': 'clearAll'}, run], tag=f'refresh2:{via}')
            mk([run, 'edit', run, run], noCache=True, tag=f'nocache:{via}')
    # clear_all() / clear_pipes() as the sequences of single clears they are: another thread completes a look-up of the
    # same pipeline before the j-th single clear (every j, one at a time and all at once); the source was edited
    # before; afterwards the next look-ups (same client object, a new one) must execute the present source
    nall = len(clear_all_order()[0]) + 1
    for l, i, noparent in targets:
        for via in VIAS_ANY + (VIAS_NOPARENT if noparent else []):
            run = {'op': 'run', 'c': 0, 'l': l, 'rq': i, 'via': via}
            other = {'op': 'run', 'c': 8, 'l': l, 'rq': i, 'via': 'new' if via != 'new' else 'pype'}
            same = {'op': 'run', 'c': 0, 'l': l, 'rq': i, 'via': via}
            for j in (list(range(nall + 1)) if via in ('obj', 'new') else []) + ['all']:
                gaps = [[dict(other)] if j in (g, 'all') else [] for g in range(nall + 1)]
                if j == 'all':
                    gaps[1].append(dict(same))
                mk([run, 'edit', {'op': 'clearSeq', 'fn': 'clear_all', 'gaps': gaps}, run, other, 'edit', run],
                   tag=f'seq:clear_all:{via}')
            for j in ((1, 'all') if via in ('obj', 'new') else ('all',)):
                gaps = [[dict(other)] if j in (g, 'all') else [] for g in range(4)]
                r1 = {'op': 'run', 'c': 9, 'l': 1, 'rq': rq_index(rqs, 1, None, 'n'), 'via': 'new'}
                r2 = {'op': 'run', 'c': 9, 'l': 2, 'rq': rq_index(rqs, 2, '/x/a', 'b+c'), 'via': 'new'}
                mk([r1, r2, run, 'edit', {'op': 'clearFiles'}, {'op': 'clearSeq', 'fn': 'clear_pipes', 'gaps': gaps},
                    run, r1, r2, other], tag=f'seq:clear_pipes:{via}')
    # one Pipeline object, the parent changes from call to call
    for via in ('obj', 'step', 'new'):
        seq = [rq_index(rqs, 0, '/T/d0', 'vc13p'), rq_index(rqs, 0, '/T/d1', 'vc13p'), rq_index(rqs, 0, '/T/missing', 'vc13p'),
               rq_index(rqs, 0, '/T/d0/sub', 'vc13p'), rq_index(rqs, 0, '/T/d0', 'vc13p', 'path'), rq_index(rqs, 0, '/T/d1', 'vc13p')]
        runs = [{'op': 'run', 'c': 1, 'l': 0, 'rq': i, 'via': via} for i in seq]
        mk(runs, tag=f'parents:{via}')
        mk(runs[:2] + ['edit', {'op': 'clearAll'}] + runs[:3] + ['edit'] + runs[:2], tag=f'parents:{via}')
        cseq = [rq_index(rqs, 1, '/L', 'sub/c'), rq_index(rqs, 1, '/L/sub', 'c')]
        mk([{'op': 'run', 'c': 2, 'l': 1, 'rq': i, 'via': via} for i in cseq + cseq], tag=f'parents:{via}')
    # sources that appear / vanish: a failed look-up is not remembered, a vanished source stays served until a clear
    def without(f):
        return lambda w, ver: {**w, 'files': {k: v for k, v in w['files'].items() if k != f}}

    def with_new(f):
        return lambda w, ver: {**w, 'files': {**w['files'], f: ver.new()}}
    for via in ('obj', 'new', 'runner'):
        i = rq_index(rqs, 0, None, '/T/d0/vc13p')
        run = {'op': 'run', 'c': 3, 'l': 0, 'rq': i, 'via': via}
        ver = Versions()
        w0 = base_world(ver, files=[f for f in FILES if f != '/T/d0/vc13p.yaml'])
        mk([run, ('world', with_new('/T/d0/vc13p.yaml')), run, ('world', without('/T/d0/vc13p.yaml')), run,
            {'op': 'clearAll'}, run, ('world', with_new('/T/d0/vc13p.yaml')), run], world=w0, tag=f'appear:{via}')
    # a source that is malformed (top level not a mapping) when it is first looked up, and repaired afterwards: "a
    # creator that raises leaves nothing cached so a later look-up tries again" end to end. Every client kind, the file
    # loader by both spellings of the request, both custom loaders; with every way of clearing in between; with
    # no_cache; a source that goes bad AFTER it was cached; a second request that means the same file.
    tg = [(0, None, '/T/d0/vc13p', True), (0, '/T/d0', 'vc13p', False), (1, None, 'n', True), (2, '/x/a', 'b+c', False)]
    for l, par, n, noparent in tg:
        i = rq_index(rqs, l, par, n)
        brk, fix = ('world', break_source(l, par, n)), ('world', repair_source(l, par, n))
        for via in VIAS_ANY + (VIAS_NOPARENT if noparent else []):
            run = {'op': 'run', 'c': 0, 'l': l, 'rq': i, 'via': via}
            run2 = {'op': 'run', 'c': 1, 'l': l, 'rq': i, 'via': 'new'}
            mk([brk, run, fix, run, run2, {'op': 'clearPipes', 'l': l, 'how': 'clear_pipes'}, run, {'op': 'clearFiles'}, run, run],
               tag=f'rejected:{via}')
            mk([brk, run, fix, {'op': 'clearFiles'}, run, brk, run, run2], tag=f'rejected:{via}')
            mk([run, brk, run, {'op': 'clearAll'}, run, fix, run, {'op': 'clearLoaders'}, run, {'op': 'clearAll'}, run],
               tag=f'rejected:{via}')
            mk([brk, run, fix, run, run], noCache=True, tag=f'rejected-nocache:{via}')
            mk([brk, run, brk, run, fix, {'op': 'noCache', 'b': True}, run, {'op': 'noCache', 'b': False}, run],
               tag=f'rejected:{via}')
    i1, i2 = rq_index(rqs, 0, None, '/T/d0/vc13p'), rq_index(rqs, 0, '/T/d0', 'vc13p')
    for a, b in ((i1, i2), (i2, i1)):
        ra = {'op': 'run', 'c': 0, 'l': 0, 'rq': a, 'via': 'new'}
        rb = {'op': 'run', 'c': 1, 'l': 0, 'rq': b, 'via': 'obj'}
        mk([('world', break_source(0, None, '/T/d0/vc13p')), ra, ('world', repair_source(0, None, '/T/d0/vc13p')), rb, ra,
            {'op': 'clearFiles'}, rb, ra], tag='rejected:two-requests')
    # two loaders, the same (parent, name); and pairs whose keys coincide under '+' / path joining, all orders
    pairs = [(('/x/a', 'b+c'), ('/x/a+b', 'c')), (('/L', 'sub/c'), ('/L/sub', 'c')), (('/L', 'x'), (None, '/L/x')),
             ((None, '/L/x'), ('/L', '/L/x')), ((None, 'n'), ('', 'n'))]
    for a, b in pairs:
        for l1, l2 in ((1, 1), (1, 2)):
            for x, y in ((a, b), (b, a)):
                ra = {'op': 'run', 'c': 4, 'l': l1, 'rq': rq_index(rqs, l1, *x), 'via': 'new'}
                rb = {'op': 'run', 'c': 5, 'l': l2, 'rq': rq_index(rqs, l2, *y), 'via': 'pype'}
                mk([ra, rb, ra, rb, 'edit', rb, ra, {'op': 'clearPipes', 'l': l2, 'how': 'clear_pipes'}, ra, rb], tag='keys')
    fa = [rq_index(rqs, 0, '/T/a', 'b+c'), rq_index(rqs, 0, '/T/a+b', 'c'), rq_index(rqs, 0, '/T/d0', 'sub/vc13p'),
          rq_index(rqs, 0, '/T/d0/sub', 'vc13p'), rq_index(rqs, 0, None, '/T/d0/sub/vc13p')]
    for order in (fa, fa[::-1]):
        mk([{'op': 'run', 'c': 6 + j, 'l': 0, 'rq': i, 'via': 'new'} for j, i in enumerate(order + order)], tag='keys')
    return out


def random_stack_case(rng):
    rqs = stack_rqs()
    ver = Versions()
    files = [f for f in FILES if rng.random() < 0.8]
    w0 = base_world(ver, files=files)
    if rng.random() < 0.3:
        # some sources are malformed from the start
        vs = list(w0['files'].values()) + [c[3] for c in w0['custom']]
        w0['badv'] = [v for v in vs if rng.random() < BAD_P]
    w = w0
    ops = []
    nclients = 3
    bound = {}        # client id -> (l, name): a Pipeline object is bound to one loader and name
    for _ in range(rng.randint(4, 14)):
        x = rng.random()
        if x < 0.55:
            l = rng.choice([0, 0, 1, 2])
            cands = [i for i, rq in enumerate(rqs) if rq['for'] == (0 if l == 0 else 'custom')]
            i = rng.choice(cands)
            vias = VIAS_ANY + (VIAS_NOPARENT if rqs[i]['parent'] is None else [])
            via = rng.choice(vias)
            c = rng.randrange(nclients)
            if via in ('obj', 'obj.run'):
                # pick a client object already bound to this (loader, name) or a new one
                key = (l, rqs[i]['name'])
                c = next((k for k, v in bound.items() if v == key), None)
                if c is None:
                    c = 10 + len(bound)
                    bound[c] = key
            ops.append({'op': 'run', 'c': c, 'l': l, 'rq': i, 'via': via})
        elif x < 0.75:
            w = edit_world(w, ver, rng)
            ops.append({'op': 'world', 'world': w})
        elif x < 0.80:
            fn = rng.choice(['clear_all', 'clear_all', 'clear_pipes'])
            gaps = []
            for _g in range(rng.randint(1, 8)):
                gap = []
                while rng.random() < 0.45:
                    gl = rng.choice([0, 0, 1, 2])
                    gi = rng.choice([i for i, rq in enumerate(rqs) if rq['for'] == (0 if gl == 0 else 'custom')])
                    # earlier requests again, more often than not: the look-up in the gap is of a pipeline that is cached
                    prev = [o for o in ops if o['op'] == 'run']
                    if prev and rng.random() < 0.7:
                        o = rng.choice(prev)
                        gl, gi = o['l'], o['rq']
                    gap.append({'op': 'run', 'c': 20 + rng.randrange(3), 'l': gl, 'rq': gi, 'via': rng.choice(['new', 'pype'])})
                gaps.append(gap)
            ops.append({'op': 'clearSeq', 'fn': fn, 'gaps': gaps})
        elif x < 0.93:
            op = dict(rng.choice(CLEARS + [{'op': 'clearPipes', 'l': rng.choice([0, 1, 2]),
                                            'how': rng.choice(['clear_pipes', 'Loader.clear'])}] * 2))
            ops.append(op)
        else:
            ops.append({'op': 'noCache', 'b': rng.random() < 0.6})
    return {'kind': 'stack', 'tag': 'random', 'rqs': rqs, 'world': w0, 'noCache': rng.random() < 0.1, 'ops': ops}

# ---------------------------------------------------------------------------------------------
# add_sys_path under the scheduler
# ---------------------------------------------------------------------------------------------

def judge_returns(res, case, impl, exists, grain):
    """From the property text (sys.path append guarded by a lock and membership test; every caller of a look-up gets
    the object): a caller that RETURNED from add_sys_path(d) for a directory that exists imports from d next — d has to
    be on sys.path at that moment, whatever the other threads are in the middle of (lean
    `add_sys_path_returned_on_syspath`, `..._anyfs` when directories are created while the threads run).
    `impl['rets']` = [thread, dir, dir in sys.path at return, ...] in order of return."""
    for t, p, inpath, *rest in impl['rets']:
        res.count('syspath:returns')
        # rest[0] (set-operation grain): the call itself went through the not-exists branch (its own exists() test said
        # no - the directory may have been created since); rest[1]: the directory exists at the moment of the return
        own_no = bool(rest and rest[0])
        there = rest[1] if len(rest) > 1 else p in exists
        if there and not own_no and not inpath:
            res.violation(case, f'thread {t} returned from add_sys_path(d{p}) - the directory exists - and d{p} is NOT on '
                          f'sys.path at that moment (another thread is still before its append): the import that follows fails',
                          signature={'clause': 'returned_on_syspath', 'grain': grain,
                                     'history': ('missing-then-created' if p in case.get('missing0', []) else
                                                 'created-while-running' if 1000 + p in case['sched'] else 'fresh')},
                          impl={k: v for k, v in impl.items() if k != 'prefix_kept'})
            return


def run_syspath_impl(case, dirs):
    import pypyr.moduleloader as ml
    progs = case['threads']
    holder = {}
    rets = []

    def do_add(p):
        def op(t, i):
            arg = dirs[p] if case.get('form', 'path') == 'path' else str(dirs[p])
            ml.add_sys_path(arg)
            # the caller's view at the moment the call returned (same turn: nothing runs in between)
            rets.append([t, p, str(dirs[p]) in sys.path])
        return op
    sched = Sched([[do_add(p) for p in prog] for prog in progs])
    holder['sched'] = sched
    old_lock, old_known, old_missing = ml._sys_path_lock, ml._known_dirs, getattr(ml, '_missing_dirs', None)
    before = list(sys.path)
    ml._sys_path_lock = SchedLock(sched)
    form = (lambda q: dirs[q]) if case.get('form', 'path') == 'path' else (lambda q: str(dirs[q]))
    # the history of the process: the two sets as earlier calls left them
    ml._known_dirs = {form(q) for q in case.get('known0', [])}
    if old_missing is not None:
        ml._missing_dirs = {form(q) for q in case.get('missing0', [])}
    try:
        sched.start()
        outcome = sched.run(case['sched'], finish=True)
        after = list(sys.path)
        strs = {str(d): p for p, d in dirs.items()}
        added = [strs.get(x, x) for x in after[len(before):]]
        known = sorted({strs.get(str(x), str(x)) for x in ml._known_dirs})
        missing = sorted({strs.get(str(x), str(x)) for x in getattr(ml, '_missing_dirs', ())})
        return {'sysPath': added, 'known': known, 'missing': missing, 'done': outcome == 'done', 'rets': rets,
                'prefix_kept': after[:len(before)] == before}
    finally:
        ml._sys_path_lock, ml._known_dirs = old_lock, old_known
        if old_missing is not None:
            ml._missing_dirs = old_missing
        sys.path[:] = before


def check_syspath(env, res):
    root = Path(tempfile.mkdtemp(prefix='c13sp')).resolve()
    try:
        import pypyr.moduleloader as ml
        has_missing = hasattr(ml, '_missing_dirs')
        dirs = {}
        for p in range(4):
            dirs[p] = root / f'd{p}'
            if p != 2:
                dirs[p].mkdir()
        exists = [0, 1, 3]
        # (threads, _known_dirs, _missing_dirs as earlier calls left them): d3 was missing at an earlier call and exists now
        progsets = [([[0], [0]], [], []), ([[0, 1], [1, 0]], [], []), ([[0], [0], [0]], [], []), ([[0, 2], [2, 0]], [], []),
                    ([[0, 0], [0]], [], []), ([[1], [0, 1], [1]], [], [])]
        if has_missing:
            progsets += [([[3], [3]], [3], [3]), ([[3, 0], [3], [0, 3]], [3], [3]), ([[3, 3], [3]], [3], [3])]
        cases = []
        for progs, known0, missing0 in progsets:
            n = len(progs)
            total = sum(len(p) for p in progs)
            scheds = {tuple(s) for s in itertools.product(range(n), repeat=min(3 * total, 5 if env.quick else 7))}
            scheds = sorted(scheds)
            if len(scheds) > env.n(40, 400):
                scheds = env.rng.sample(scheds, env.n(40, 400))
            # one thread k turns ahead, then the others
            scheds += [tuple([0] * k + [1] * 4 + [2 % n] * 4) for k in range(1, 5)]
            for s in scheds:
                cases.append({'kind': 'syspath', 'threads': progs, 'sched': list(s), 'exists': exists,
                              'known0': known0, 'missing0': missing0})
        for case in cases:
            impl = run_syspath_impl(case, dirs)
            model = env.driver.ask('cache.syspath', threads=case['threads'], sched=case['sched'], exists=exists,
                                   base=[], finish=True, known0=case['known0'], missing0=case['missing0'])
            res.case(case)
            res.count('syspath')
            if case['known0']:
                res.count('syspath:history')
            judge_returns(res, case, impl, exists, 'lock')
            dup = [p for p in set(impl['sysPath']) if impl['sysPath'].count(p) > 1]
            if dup:
                res.violation(case, f'sys.path holds {dup} more than once', signature={'clause': 'syspath_once'}, impl=impl)
            if not impl['prefix_kept']:
                res.violation(case, 'prior sys.path entries were changed', signature={'clause': 'syspath_once'}, impl=impl)
            want = {p for prog in case['threads'] for p in prog if p in exists}
            if impl['done'] and set(impl['sysPath']) != want:
                res.violation(case, f'sys.path additions {impl["sysPath"]} but existing requested dirs are {sorted(want)}',
                              signature={'clause': 'syspath_added'}, impl=impl)
            keys = ('sysPath', 'known', 'missing', 'done') if has_missing else ('sysPath', 'known', 'done')
            mi = {k: impl[k] for k in keys}
            if mi != {k: model[k] for k in keys}:
                res.mismatch(case, model, mi)
    finally:
        shutil.rmtree(root, ignore_errors=True)


def run_syspath_fine_impl(case, dirs):
    """add_sys_path with `_known_dirs` / `_missing_dirs` replaced by sets that hand over control before every
    operation: real threads interleaved between any two set operations, outside `_sys_path_lock`."""
    import pypyr.moduleloader as ml
    progs = case['threads']
    rets = []

    def do_add(p):
        def op(t, i):
            ml._missing_dirs.adds_by[t] = 0
            ml.add_sys_path(dirs[p])
            # the caller's view at the moment the call returned (same turn: nothing runs in between)
            rets.append([t, p, str(dirs[p]) in sys.path, ml._missing_dirs.adds_by[t] > 0, dirs[p].exists()])
        return op
    sched = Sched([[do_add(p) for p in prog] for prog in progs])
    old = (ml._sys_path_lock, ml._known_dirs, ml._missing_dirs)
    made = []
    before = list(sys.path)
    ml._sys_path_lock = SchedLock(sched)
    ml._known_dirs = ParkSet(sched, 'known')
    ml._missing_dirs = ParkSet(sched, 'missing')
    # the history of the process: the two sets as earlier calls left them (set up by this thread: no parking)
    for q in case.get('known0', []):
        set.add(ml._known_dirs, dirs[q])
    for q in case.get('missing0', []):
        set.add(ml._missing_dirs, dirs[q])
    try:
        sched.start()
        for e in case['sched']:
            if e >= 1000:       # directory e-1000 is created at this moment, under the running threads
                if not dirs[e - 1000].exists():
                    dirs[e - 1000].mkdir()
                    made.append(dirs[e - 1000])
            else:
                sched.turn(e)
        outcome = sched.run([], finish=True)
        after = list(sys.path)
        strs = {str(d): p for p, d in dirs.items()}
        added = [strs.get(x, x) for x in after[len(before):]]
        known = sorted({strs.get(str(x), str(x)) for x in set(ml._known_dirs)})
        missing = sorted({strs.get(str(x), str(x)) for x in set(ml._missing_dirs)})
        return {'sysPath': added, 'known': known, 'missing': missing, 'done': outcome == 'done', 'rets': rets,
                'prefix_kept': after[:len(before)] == before}
    finally:
        ml._sys_path_lock, ml._known_dirs, ml._missing_dirs = old
        sys.path[:] = before
        for d in made:
            d.rmdir()


def check_syspath_fine(env, res, only=None):
    """lean `fStep`: schedules at the granularity of the single operations on the two sets."""
    import pypyr.moduleloader as ml
    if not hasattr(ml, '_missing_dirs'):
        return
    root = Path(tempfile.mkdtemp(prefix='c13spf')).resolve()
    try:
        dirs = {}
        for p in range(4):
            dirs[p] = root / f'd{p}'
            if p != 2:
                dirs[p].mkdir()
        exists = [0, 1, 3]
        if only is not None:
            cases = [only]
        else:
            # (threads, _known_dirs, _missing_dirs as earlier calls left them): d3 was missing at an earlier call and
            # exists now; d2 is missing still; d1 known and added before
            progsets = [([[0], [0]], [], []), ([[0, 0], [0]], [], []), ([[0, 1], [1, 0]], [], []), ([[0], [0], [0]], [], []),
                        ([[2], [2]], [], []), ([[0, 2], [2, 0]], [], []), ([[2, 0, 2], [0, 2]], [], []),
                        ([[3], [3]], [3], [3]), ([[3], [3], [3]], [3], [3]), ([[3, 0], [0, 3]], [3], [3]),
                        ([[3, 3], [3]], [3], [3]), ([[3, 2], [2, 3], [3]], [3, 2], [3, 2]), ([[0, 3], [3, 0]], [3], [3])]
            cases = []
            for progs, known0, missing0 in progsets:
                n = len(progs)
                total = sum(len(p) for p in progs)
                # both threads pass the unlocked entry test before either adds; one thread runs ahead; random
                scheds = [[i % n for i in range(8 * total)], [0] * 9 + [1] * 9, []]
                # thread 0 is k operations into its call when the next thread makes its whole call, then the third
                scheds += [[0] * k + [1] * 9 + [2 % n] * 9 for k in range(1, 10)]
                scheds += [[1] * k + [0] * 9 for k in range(1, 10, 2)]
                scheds += [[env.rng.randrange(n) for _ in range(env.rng.randint(1, 9 * total))] for _ in range(env.n(20, 300))]
                if any(2 in prog for prog in progs):
                    # d2 is created while the threads run: after thread 0 has made k moves, and at a random moment
                    scheds += [[0] * k + [1002] + [1] * 9 + [2 % n] * 9 for k in range(1, 8)]
                    for _ in range(env.n(10, 150)):
                        sc = [env.rng.randrange(n) for _ in range(env.rng.randint(1, 9 * total))]
                        sc.insert(env.rng.randrange(len(sc) + 1), 1002)
                        scheds.append(sc)
                for sc in scheds:
                    cases.append({'kind': 'syspathf', 'threads': progs, 'sched': sc, 'exists': exists,
                                  'known0': known0, 'missing0': missing0})
        for case in cases:
            impl = run_syspath_fine_impl(case, dirs)
            model = env.driver.ask('cache.syspathf', threads=case['threads'], sched=case['sched'], exists=exists,
                                   base=[], finish=True, known0=case.get('known0', []), missing0=case.get('missing0', []))
            res.case(case)
            res.count('syspath:fine')
            if case.get('known0'):
                res.count('syspath:fine:history')
            if any(e >= 1000 for e in case['sched']):
                res.count('syspath:fine:dir-created-meanwhile')
            judge_returns(res, case, impl, exists, 'set-operation')
            dup = [p for p in set(impl['sysPath']) if impl['sysPath'].count(p) > 1]
            if dup:
                res.violation(case, f'sys.path holds {dup} more than once', signature={'clause': 'syspath_once', 'grain': 'set-operation'},
                              impl=impl)
            if not impl['prefix_kept']:
                res.violation(case, 'prior sys.path entries were changed', signature={'clause': 'syspath_once', 'grain': 'set-operation'},
                              impl=impl)
            want = {p for prog in case['threads'] for p in prog if p in exists}
            created = {e - 1000 for e in case['sched'] if e >= 1000}
            if impl['done'] and not (want <= set(impl['sysPath']) <= want | created):
                res.violation(case, f'sys.path additions {impl["sysPath"]} but existing requested dirs are {sorted(want)}',
                              signature={'clause': 'syspath_added', 'grain': 'set-operation'}, impl=impl)
            if not impl['done']:
                res.violation(case, 'add_sys_path calls blocked for ever', signature={'clause': 'progress', 'site': 'add_sys_path'}, impl=impl)
            mi = {k: impl[k] for k in ('sysPath', 'known', 'missing', 'rets', 'done')}
            mi['rets'] = [r[:4] for r in mi['rets']]
            if mi != model:
                res.mismatch(case, model, mi)
    finally:
        shutil.rmtree(root, ignore_errors=True)


def check_world_ok(env, res):
    """`Stack.WorldOk` on the real file loader (lean `fileResolve_key`): for one process working directory, requests
    with equal cache key resolve to the same file. And the stated limit (lean `resolve_depends_on_process_cwd`): a
    relative parent is read against os.getcwd() at the moment of the call, so the same key means another file after
    os.chdir — counted, not judged (a change of the world without a clear)."""
    import pypyr.loaders.file as fl
    root = Path(tempfile.mkdtemp(prefix='c13wok')).resolve()
    old_cwd = os.getcwd()
    try:
        for d in ('a/sub', 'c/sub', 'a/x+y'):
            (root / d).mkdir(parents=True)
        for f in ('a/sub/p.yaml', 'c/sub/p.yaml', 'a/x+y/p.yaml', 'a/p.yaml'):
            (root / f).write_text('steps: []\n')

        def resolve(parent, name):
            try:
                return str(fl.get_pipeline_path(pipeline_name=name, parent=parent))
            except Exception as e:  # noqa: BLE001
                return type(e).__name__
        os.chdir(root / 'a')
        parents = [None, '', 0, 'sub', Path('sub'), str(root / 'a/sub'), root / 'a/sub', 'x+y', Path('x+y'), './sub', 'missing']
        names = ['p', 'sub/p', str(root / 'a/p'), 'q']
        reqs = [(p, n) for p in parents for n in names]
        key = lambda r: (str(r[0]), r[1]) if r[0] else r[1]   # noqa: E731
        groups = {}
        for r in reqs:
            groups.setdefault(key(r), []).append(r)
        for k, grp in groups.items():
            got = [resolve(p, n) for p, n in grp]
            case = {'kind': 'worldok', 'key': repr(k), 'requests': [[repr(p), n] for p, n in grp]}
            res.case(case)
            res.count('worldok:key-group' + ('' if len(grp) == 1 else ':shared'))
            if len(set(got)) != 1:
                res.violation(case, f'requests {case["requests"]} share the pipeline cache key {k!r} but resolve to {got}',
                              signature={'clause': 'pipeline_key', 'cache': 'Loader', 'site': 'get_pipeline_path'}, impl={'got': got})
        here = resolve('sub', 'p')
        os.chdir(root / 'c')
        there = resolve('sub', 'p')
        case = {'kind': 'worldok', 'key': "('sub', 'p')", 'chdir': True}
        res.case(case)
        res.count('worldok:cwd-dependent' if here != there else 'worldok:cwd-independent')
        if here == there:
            res.mismatch(case, {'cwd_dependent': True}, {'cwd_dependent': False, 'resolved': here})
    finally:
        os.chdir(old_cwd)
        shutil.rmtree(root, ignore_errors=True)


# ---------------------------------------------------------------------------------------------
# entry points
# ---------------------------------------------------------------------------------------------

def dispatch_case(env, res, case):
    kind = case.get('kind')
    if kind == 'stack':
        return check_stack_case(env, res, case)
    if kind == 'nest':
        return check_nest_case(env, res, case)
    return check_case(env, res, case)       # 'sched' and 'scan'


def _worker_chunk(args):
    """Runs a chunk of schedule cases in a worker process. Returns (findings, counters, n)."""
    cases, tier, seed = args
    common.use_repo()
    env = common.Env('C13', tier, seed)
    res = common.Result()
    try:
        for case in cases:
            dispatch_case(env, res, case)
    finally:
        if env._driver:
            env._driver.close()
    return res.findings, res.distribution, res.evaluations, sorted(res.nontrivial), res.samples


def run(env, res):
    res.rule = ('turn-level schedules of the cache transition system: exhaustive for 2 threads x 2 ops and '
                '3 threads x 1 op over {get k0, get k1, clear} x creator-failure scripts x no_cache (thorough: all, on a '
                'rotating cache class; quick: a seeded slice), directed schedules on every cache class, random longer '
                'histories (2-3 threads, up to 4 ops, random schedules + fair completion); layered sessions (run / edit / '
                'clear / no_cache through long-lived Pipeline objects, pipelinerunner.run, the pype step, long-lived Step objects; '
                'file loader and two custom loaders; directed: every client x loader x way of clearing, + random 4-14 ops); '
                'Loader key pairs incl. keys that coincide under path joining; real files '
                'with + in names; add_sys_path schedules (lock granularity and single-set-operation granularity); LoaderCache.clear_pipes '
                'next to look-ups and clears (directed + random); the Loader pipeline cache / file loader / file_cache pair under two '
                'scheduler locks (directed, exhaustive for 1-op x 2-thread programs, random; + the re-entrant witness); WorldOk key groups '
                'on the real get_pipeline_path. non-trivial = distinct (cache class, programs, script, schedule)')
    # 1. directed
    for case in directed_cases() + directed_scan_cases():
        check_case(env, res, case)
    for case in directed_nest_cases():
        check_nest_case(env, res, case)
    # 2. exhaustive families
    allc = enumerate_cases(env)
    res.extra['exhaustive_schedules_total'] = len(allc)
    if env.quick:
        allc = env.rng.sample(allc, 2500)
    for i, c in enumerate(allc):
        c['cache'] = KINDS[i % len(KINDS)]
    # 3. random longer histories
    rnd = [random_case(env.rng) for _ in range(env.n(400, 3000))]
    # 3b. the layers above the caches: directed + random sessions through the real clients
    stack_precheck()
    stack = directed_stack_cases() + [random_stack_case(env.rng) for _ in range(env.n(250, 4000))]
    res.extra['stack_sessions'] = len(stack)
    # 3c. clear_pipes next to look-ups; the pipeline-cache / file_cache pair (two locks)
    scans = [random_scan_case(env.rng) for _ in range(env.n(120, 2500))]
    nests = enumerate_nest_cases(env)
    res.extra['nest_exhaustive_schedules_total'] = len(nests)
    if env.quick:
        nests = env.rng.sample(nests, min(len(nests), 150))
    nests += [random_nest_case(env.rng) for _ in range(env.n(120, 2500))]
    work = allc + rnd + stack + scans + nests
    if env.quick:
        for case in work:
            dispatch_case(env, res, case)
    else:
        import multiprocessing as mp
        nproc = min(14, os.cpu_count() or 2)
        chunks = [(work[i::nproc * 4], env.tier, env.seed) for i in range(nproc * 4)]
        ctx = mp.get_context('fork')
        from .. import impl_c13
        impl_c13._lib_dir()      # made once here and inherited by the workers (a worker's own atexit never runs)
        with ctx.Pool(nproc) as pool:
            for findings, dist, n, nontrivial, samples in pool.imap_unordered(_worker_chunk, chunks):
                res.findings += findings
                for k, v in dist.items():
                    res.count(k, v)
                res.evaluations += n
                res.nontrivial.update(nontrivial)
                if len(res.samples) < 3:
                    res.samples += samples[:3 - len(res.samples)]
    # 4. keys, files, sys.path
    check_keys(env, res)
    check_loader_dimension(env, res)
    check_real_files(env, res)
    check_syspath(env, res)
    check_syspath_fine(env, res)
    check_world_ok(env, res)


def replay(env, res, payload):
    case = payload.get('case') or (payload.get('first_diverging_case') or {}).get('case')
    if not case:
        return run(env, res)
    kind = case.get('kind')
    if kind in ('sched', 'scan'):
        impl, model = check_case(env, res, case)
        res.extra['replayed'] = {'impl': impl, 'model': model}
    elif kind == 'nest':
        impl, model = check_nest_case(env, res, case)
        res.extra['replayed'] = {'impl': impl, 'model': model}
    elif kind == 'syspathf':
        check_syspath_fine(env, res, only=case)
    elif kind == 'worldok':
        check_world_ok(env, res)
    elif kind == 'stack':
        impl, model = check_stack_case(env, res, case)
        res.extra['replayed'] = {'impl': impl, 'model': model}
    elif kind == 'key':
        check_keys(env, res)
    elif kind == 'loaders':
        check_loader_dimension(env, res)
    elif kind == 'files':
        check_real_files(env, res)
    elif kind == 'syspath':
        check_syspath(env, res)
    else:
        run(env, res)
