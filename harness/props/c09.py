"""C09 — formatting is pure and structure-preserving.

Three-way correspondence per case: the real `Context.get_formatted_value`, the heap-level model
`FmtHeap.fmtHeap` (identity / sharing / no writes) and the tree-level model `Pypyr.fmtVal`
(the function the C09 theorems are about). Monitors judged on the implementation alone:
input and context unchanged (deep snapshot + key order + identity of every object in them), same container
types and shape judged position by position, non-string leaves identical (`is`, same type) at their position,
members formatted element-wise (a string / special tag at a position became what formatting that element on its
own gives; set members matched existentially), brace-free => equal, idempotence on brace-free results.
Stream `implonly-py` (values with arbitrary-Python `!py` strings, := at top level / in comprehensions / in
lambdas) has NO model side: monitors only.
"""
from .. import common
from .. import impl_c09 as I
from ..common import canon

LEAN_MODULES = ['Props.C09']
TRUSTED = ['harness/props/c09.py + harness/impl_c09.py (heap<->object builders, id-graph canonicaliser, monitors, '
           'per-case SIGALRM time limit)',
           'CPython object identity (id, is), copy.deepcopy, ruamel.yaml round-trip loader']
ASSUMPTIONS = [
    'purity is claimed for values without side-effecting !py expressions (DESIGN 6); an assignment expression is not '
    'a side effect on the context (stream implonly-py: implementation-only monitors, no model side)',
    'heap model: !py only as a bare name; general !py results are covered by the tree-level model',
    'identity of str and bytes objects is compared for len >= 2 only (shorter ones may be CPython singletons), of '
    'every bytearray always; numbers/None by value + `is` monitor',
    'the tree-level model has one kind of binary leaf (bytearray reads as bytes); mutability / hashability of '
    'bytearray is in the heap-level model only (Cell.mbytes)',
    'known open finding F9: classes whose constructor does not accept one iterable are rebuilt wrongly',
    'heap model: every object has a permanent address for the duration of a call. Justified, not assumed: '
    'Props/C09.lean memo_keeps_alive_sound (counter-model PypyrModel/FmtFree.lean with a free list: with the memo '
    'keeping a reference to every object it has an entry for - /repo 2cfa9de - no address is freed while the memo '
    'lives) and memo_reuse_breaks_soundness / memo_reuse_wrong_result (without it the memo is unsound); the stream '
    '`lazy` exercises containers whose members die during the traversal on the real code',
    'three models, their relation: heap-level fmtH reads as tree-level Pypyr.fmtIter for any sound memo (theorem '
    'fmtH_memo_sound / fmtH_simulates_tree, hypotheses: leaf cells hold non-string leaves, the context objects are '
    'readable; the deepVal form needs the heap ordered bottom-up = the driver`s heapOk); the tree-level claims are '
    'proved for BOTH tree models (Pypyr.fmtIter: simple grammar, structural key equality, no hash check; '
    'Format.fmtIter: full grammar, Python key equality, unhashable-key TypeError); that the two tree models agree on '
    'the simple grammar where no keys collide numerically is VALIDATED (c08 `basic_agrees`, c09 `faithful:agrees`), '
    'not proved',
    'yaml stream: the TaggedScalar back-reference the loader keeps on a scalar !jsonify (used by to_yaml, visible in '
    'repr() only) is dropped before formatting',
    'leaf objects with a non-trivial truth value (bool() / len() raise, are False, have an effect): the models have no '
    'truth value for an obj leaf at all (fmt_nonstring_leaf_id / fmtHeap_leaf_identity hold for every obj); that the '
    'implementation never evaluates one is the monitor leaf-evaluated (counter on the object)',
    'faithful tree model vs implementation: skipped where the tree value cannot say it (frozenset / bytearray as key '
    'or member, EqOpaque objects that are == by group, which of two ==-equal set members survives)',
]

F9_SIG = {'site': '_get_formatted_iterable', 'container': 'ctor-not-iterable-compatible'}


def signature_for(value, monitor):
    try:
        bad = I.incompatible_classes(value)
    except RecursionError:
        bad = []
    if bad:
        return dict(F9_SIG, **{'class': bad[0]})
    return {'monitor': monitor}


def multi_member_set(cells):
    return any('set' in c and len(c['set'][1]) >= 2 for c in cells)


def check_cases(env, res, cases):
    """Run a list of heap/yaml cases through implementation, heap model and tree model."""
    drv = env.driver
    prepared = []
    for case in cases:
        try:
            cells, ctxpairs, root, objs = I.materialise(case)
        except I.NotModelled as e:
            res.count('skipped:' + str(e).split(' ')[0])
            continue
        prepared.append((case, cells, ctxpairs, root, objs))
    # implementation
    impl = []
    for case, cells, ctxpairs, root, objs in prepared:
        ctxdict = {k: objs[r] for k, r in ctxpairs}
        idm = I.id_map(objs)
        obs, fails = I.run_impl(objs[root], ctxdict, idm)
        impl.append((obs, fails))
        for mon, detail in fails:
            res.violation(case, detail, signature=signature_for(objs[root], mon), impl=obs)
        # the other entry points of the same formatter: monitors + must agree with Context's
        special = I.has_special(objs[root]) or any(I.has_special(v) for v in ctxdict.values())
        for entry in ('formatter',) if special else ('formatter', 'plain'):
            obs2, fails2 = I.run_impl(objs[root], ctxdict, idm, entry=entry)
            res.count('entry:' + entry)
            for mon, detail in fails2:
                sig = signature_for(objs[root], mon)
                res.violation(case, f'[RecursiveFormatter called directly: {entry}] {detail}',
                              signature=dict(sig, entry=entry) if 'monitor' in sig else sig, impl=obs2)
            a = {'err': obs['err']} if 'err' in obs else obs
            b = {'err': obs2['err']} if 'err' in obs2 else obs2
            if a != b:
                res.mismatch(case, a, b, f'entry points disagree: Context.get_formatted_value vs RecursiveFormatter ({entry})')
    # heap model
    heap_out = drv.ask_many([('heap.fmtHeap', {'cells': cells, 'ctx': ctxpairs, 'root': root})
                             for _, cells, ctxpairs, root, _ in prepared])
    # tree model, on the tree reading of the same heap
    tree_reqs = []
    for _, cells, ctxpairs, root, objs in prepared:
        tree_reqs.append(('heap.fmtTree', {'ctx': {'d': [[k, I.cells_to_wire(cells, r)] for k, r in ctxpairs]},
                                           'v': I.cells_to_wire(cells, root)}))
    tree_out = iter(drv.ask_many([t for t in tree_reqs if t is not None]))
    # the FAITHFUL tree model (Format.fmtVal: Python key equality, TypeError for an unhashable formatted key /
    # member, the whole expression grammar) on the same tree reading
    faith_out = drv.ask_many([('format.fmt', t[1]) for t in tree_reqs])
    for (case, cells, ctxpairs, root, objs), (iobs, _), hout, treq, fout in zip(prepared, impl, heap_out, tree_reqs,
                                                                                 faith_out):
        tout = next(tree_out) if treq is not None else None
        check_faithful(res, case, cells, iobs, fout)
        stream = case['stream'].split(':')[0]
        res.count('stream:' + stream)
        if case.get('twins') or case['stream'].startswith('directed:twins'):
            res.count('feature:equal-but-distinct-hashable-siblings')
        res.count('outcome:' + ('ok' if 'ok' in iobs else iobs['err']))
        if any('mbytes' in c for c in cells):
            res.count('feature:bytearray-leaf')
        if any('leaf' in c and isinstance(c['leaf'], dict) and 'b' in c['leaf'] for c in cells):
            res.count('feature:bytes-leaf')
        # ---- heap level
        if isinstance(hout, common.Reject):
            res.count('heap-rejected:' + str(hout)[:40])
        else:
            res.case(case, nontrivial=True)
            n0 = len(cells)
            if 'ok' in hout:
                h = hout['ok']
                unchanged = h['cells'][:n0] == cells
                mobs = {'ok': {'graph': I.model_graph(h['cells'], h['root'], n0),
                               'val': I.canon_wire(h['val'])}}
                if not unchanged:
                    res.mismatch(case, 'model heap prefix changed', None, 'FmtHeap wrote to an existing cell')
                g = mobs['ok']['graph']
                if '"ref"' in canon(g):
                    res.count('shape:shared-in-result')
                if '"old' in canon(g):
                    res.count('shape:old-object-in-result')
            else:
                mobs = {'err': hout['err']['name']}
            iobs_cmp = {'err': iobs['err']} if 'err' in iobs else iobs
            if 'err' in mobs and 'err' in iobs_cmp and mobs != iobs_cmp and multi_member_set(cells):
                res.count('set-order-dependent-error')     # which member fails first is not an observable
            elif mobs != iobs_cmp:
                if ('ok' in mobs and 'ok' in iobs_cmp and multi_member_set(cells)
                        and I.erase_member_classes(mobs) == I.erase_member_classes(iobs_cmp)):
                    res.count('set-survivor-class-depends-on-iteration-order')
                else:
                    res.mismatch(case, mobs, iobs_cmp, 'heap-level: id graph / value / error differ')
        # ---- tree level
        if tout is None or isinstance(tout, common.Reject):
            res.count('tree-rejected:' + (str(tout)[:40] if tout is not None else 'unencodable'))
            continue
        if 'ok' in tout:
            tobs = {'ok': I.canon_wire(tout['ok'])}
            if tout.get('braceFree'):
                res.count('tree:bracefree-input')
            if tout.get('resBraceFree'):
                res.count('tree:bracefree-result')
        else:
            tobs = {'err': tout['err']['name']}
        iobs_t = {'ok': iobs['ok']['val']} if 'ok' in iobs else {'err': iobs['err']}
        if 'err' in iobs and iobs['err'] == 'TypeError' and 'unhashable' in iobs.get('msg', ''):
            res.count('tree-out-of-domain:unhashable-key (Fmt.lean has no hash check)')
            continue
        if 'err' in tobs and 'err' in iobs_t and tobs != iobs_t and multi_member_set(cells):
            continue
        if tobs != iobs_t:
            res.mismatch(case, tobs, iobs_t, 'tree-level: fmtVal differs from get_formatted_value')
        # the Lean predicate `braceFree` must mean what the harness' monitor means
        if tout.get('braceFree') is not None and tout['braceFree'] != I.py_brace_free(objs[root]):
            res.mismatch(case, {'braceFree': tout['braceFree']}, {'braceFree': I.py_brace_free(objs[root])},
                         'Lean braceFree disagrees with the monitor predicate')


def check_faithful(res, case, cells, iobs, fout):
    """implementation vs the faithful tree model (Props/C09.lean, section "faithful": the tree-level theorems
    hold for it too). Classes and identities are erased on this side; what it adds to the basic tree model is
    Python key equality and the unhashable-key TypeError."""
    if isinstance(fout, common.Reject):
        res.count('faithful-rejected:' + str(fout)[:40])
        return
    frozen = any('set' in c and c['set'][0] == 1 for c in cells)
    mutable_bytes = any('mbytes' in c for c in cells)
    if 'ok' in fout:
        fobs = {'ok': I.canon_wire(fout['ok'])}
    else:
        n = fout['err']['name']
        fobs = {'err': 'RecursionError' if n == 'OutOfFuel' else n}
    iobs_f = {'ok': iobs['ok']['val']} if 'ok' in iobs else {'err': iobs['err']}
    if fobs == iobs_f:
        res.count('faithful:agrees:' + ('ok' if 'ok' in fobs else fobs['err']))
        return
    unhash_m = 'err' in fout and 'unhashable' in fout['err'].get('msg', '')
    unhash_i = 'err' in iobs and 'unhashable' in iobs.get('msg', '')
    if frozen and unhash_m and not unhash_i:
        res.count('faithful-out-of-domain:frozenset-as-key-or-member (the tree value has one kind of set)')
    elif mutable_bytes and unhash_i and not unhash_m:
        res.count('faithful-out-of-domain:bytearray-as-key-or-member (the tree value has one kind of binary leaf)')
    elif multi_member_set(cells) and (('err' in fobs and 'err' in iobs_f) or
                                      ('ok' in fobs and 'ok' in iobs_f and I.py_equal_wire(fobs['ok'], iobs_f['ok']))):
        res.count('faithful:set-order-dependent')
    elif case.get('twins') and 'ok' in fobs and 'ok' in iobs_f:
        res.count('faithful-out-of-domain:EqOpaque objects are == by group, obj ids in the model by identity')
    else:
        res.mismatch(case, fobs, iobs_f, 'faithful tree level: Format.fmtVal differs from get_formatted_value')


def check_f9(env, res, names=None):
    """Classes whose constructor is not iterable-compatible: monitors only (no model)."""
    from pypyr.context import Context
    for name, value in I.f9_values():
        if names and name not in names:
            continue
        case = {'stream': 'f9', 'cls': name}
        res.case(case)
        res.count('stream:f9')
        _, fails = I.run_impl(value, {'k0': 'v'}, {})
        for mon, detail in fails:
            res.violation(case, f'{name}: {detail}', signature=signature_for(value, mon))
        res.count('f9:' + name + (':violates' if fails else ':fine'))


def check_py(env, res, cases):
    """IMPLEMENTATION-ONLY: values with arbitrary-Python !py strings (assignment expressions at top level, in
    comprehensions, in lambdas). No model side; the monitors of run_impl judge purity and shape."""
    for case in cases:
        res.case(case)
        res.count('stream:implonly-py')
        obs, fails = I.run_py_case(case)
        res.count('implonly-py:outcome:' + ('ok' if 'ok' in obs else obs['err']))
        for mon, detail in fails:
            res.violation(case, detail, signature={'monitor': mon, 'stream': 'implonly-py'}, impl=obs)


def lazy_request(case):
    """the plain container with the same members, placed like the lazy one, for the tree-level model"""
    plain = I.lazy_model_value(case)
    place = case.get('place', 'top')
    ctx = [[k, w] for k, w in case['ctx']]
    if place in ('ctx', 'ctx-rf'):
        ctx = ctx + [['lz', plain]]
    v = {'top': plain, 'member': [plain, 'tail'], 'ctx': '{lz}', 'ctx-rf': '{lz:rf}'}[place]
    return 'heap.fmtTree', {'ctx': {'d': ctx}, 'v': v}


def check_lazy(env, res, cases):
    """LAZILY MATERIALISING containers (iteration creates the members; impl_c09.LazySeq / LazyGenSeq / LazyMap /
    LazySet): monitor "each member is formatted as itself" on three entry points + the tree-level model on the
    plain container with the same members (the class is erased on the model side)."""
    outs = env.driver.ask_many([lazy_request(c) for c in cases])
    for case, tout in zip(cases, outs):
        res.case(case)
        res.count('stream:lazy')
        res.count(f'lazy:{case["shape"]}:{case.get("place", "top")}')
        res.count(f'lazy:members={min(len(case["items"]), 12)}')
        special = any(I.has_special(common.dec(w)) for _, w in case['ctx'])
        obs = None
        for entry in ('context', 'formatter') if special else ('context', 'formatter', 'plain'):
            o, fails = I.run_lazy(case, entry=entry)
            for mon, detail in fails:
                res.violation(case, detail if entry == 'context' else f'[RecursiveFormatter called directly: {entry}] {detail}',
                              signature={'monitor': mon, 'stream': 'lazy', 'container': case['shape']}, impl=o)
            if obs is None:
                obs = o
            elif ({'err': o['err']} if 'err' in o else o) != ({'err': obs['err']} if 'err' in obs else obs):
                res.mismatch(case, obs, o, f'entry points disagree on a lazily materialising container ({entry})')
        res.count('lazy:outcome:' + ('ok' if 'ok' in obs else obs['err']))
        if isinstance(tout, common.Reject):
            res.count('lazy:tree-rejected:' + str(tout)[:40])
            continue
        if 'err' in obs and obs['err'] == 'TypeError' and 'unhashable' in obs.get('msg', ''):
            res.count('tree-out-of-domain:unhashable-key (Fmt.lean has no hash check)')
            continue
        place = case.get('place', 'top')
        if 'ok' in tout:
            w = tout['ok']
            if place == 'member':
                w = w[0]
            tobs = {'ok': I.canon_wire(w)}
        else:
            tobs = {'err': tout['err']['name']}
        iobs = {'err': obs['err']} if 'err' in obs else obs
        if 'err' in tobs and 'err' in iobs and tobs != iobs and case['shape'] == 'set':
            continue                                   # which member fails first is not an observable
        if tobs != iobs:
            if 'ok' in tobs and 'ok' in iobs and case['shape'] in ('set', 'map') and I.py_equal_wire(tobs['ok'], iobs['ok']):
                # True == 1 == 1.0 as set members / dict keys: the basic tree model compares structurally
                res.count('lazy:numerically-equal-keys (basic tree model compares keys structurally)')
                continue
            res.mismatch(case, tobs, iobs, 'lazily materialising container: members differ from fmtVal of the plain '
                                           'container with the same members')


def check_almost(env, res, cases):
    """LEAVES THAT ARE ALMOST CONTAINERS (impl_c09 stream `almost`): the routing table of the Lean classifier
    (heap.fmtRoute on what isinstance says against the real abc classes) vs where the implementation sends the
    object, and the leaf monitors (identity at every position, constructor never called, container-like methods
    never called, state unchanged, no exception) on three entry points."""
    kinds = I.almost_kinds()
    tags = {k: I.almost_tags(kinds[k]()) for k in sorted({c['kind'] for c in cases})}
    names = list(tags)
    outs = env.driver.ask_many([('heap.fmtRoute', {'tags': tags[k]}) for k in names])
    branch = {k: (o['branch'] if not isinstance(o, common.Reject) else None) for k, o in zip(names, outs)}
    for case in cases:
        b = branch[case['kind']]
        if b is None:
            res.count('almost:route-rejected')
            continue
        first = None
        for entry in (I.ENTRIES[:2] if case['place'] == 'in-jsonify-sibling' else I.ENTRIES):
            obs, fails = I.run_almost(case, b, entry=entry)
            if obs is None:
                res.count('almost:skipped:unhashable-at-' + case['place'])
                break
            if first is None:
                first = obs
                res.case(case, nontrivial=True)
                res.count('stream:almost')
                res.count('almost:branch:' + b)
                res.count('almost:place:' + case['place'])
            for mon, detail in fails:
                if b in ('leaf', 'bytesLeaf', 'passthrough'):
                    sig = {'monitor': mon, 'stream': 'almost', 'route': b}
                else:
                    o = kinds[case['kind']]()
                    sig = signature_for(o, mon)
                    if 'monitor' in sig:
                        sig = dict(sig, stream='almost', route=b)
                res.violation(case, detail if entry == 'context' else f'[RecursiveFormatter called directly: {entry}] {detail}',
                              signature=sig, impl=obs)
            if obs != first:
                res.mismatch(case, first, obs, f'entry points disagree on an almost-container leaf ({entry})')
        if first is None:
            continue
        # model: a leaf-like branch hands back the identical object and cannot raise; the other branches build a new one
        leafy = b in ('leaf', 'bytesLeaf', 'passthrough')
        if leafy and first != {'same': True}:
            res.mismatch(case, {'branch': b, 'same': True}, first, 'routing table says leaf: the implementation did not hand back the identical object')
        elif not leafy and b in ('mapping', 'iterable') and first == {'same': True} and case['place'] not in ('ctx', 'ctx-ff'):
            res.mismatch(case, {'branch': b, 'same': False}, first, 'routing table says container (rebuilt as a new object): the implementation handed back the identical object')
        elif 'err' in first:
            res.count('almost:container-branch-raised:' + first['err'])


def run(env, res):
    res.rule = ('every heap case through three entry points (Context.get_formatted_value vs THREE models: heap-level '
                'fmtHeap, tree-level Pypyr.fmtVal, faithful tree-level Format.fmtVal; '
                'RecursiveFormatter(special_types=...).vformat and plain RecursiveFormatter().vformat: monitors + '
                'agreement); leaves incl. bytes and bytearray (own, shared, context-owned, target of {k}/{k:ff}/{k:rf}); '
                'directed heaps (each container class x leaf kind x expression kind, shared sub-objects, the same '
                'str object twice, memoised None, key/member collisions, unhashable results, special tags), yaml '
                'documents with anchors and tags loaded by pypyr.yaml (CommentedMap/CommentedSeq), random DAG '
                'heaps with sharing and with equal-but-distinct hashable siblings (tuples / frozensets over 1, 1.0, True, '
                '0, 0.0, False, 2, 2.0, EqOpaque objects that are == but not `is`, sometimes the same object twice); '
                'special tags with a FALSY payload (empty !sic, !jsonify of [] {} 0 0.0 false null \'\' () and empty '
                'CommentedSeq / CommentedMap) at every position: top level, list / tuple / dict-value member, the same tag '
                'twice, inside a !jsonify payload, target of {k} {k:ff} {k:rf} x{k}y, inside a context list / dict, in yaml '
                'text (monitor: at its position the result holds what tag.get_value(context) gives, asked of the tag '
                'directly); leaf objects with a non-trivial truth value (bool() raises / is False / has an effect, len() has '
                'an effect / raises) on their own, in every container class, shared, as context values reached by {k} '
                '{k:ff} {k:rf} and context containers (monitor leaf-evaluated: the object counts every bool() / len() on '
                'it; 6 % of random leaves, 30 % of random special tags falsy); '
                'non-trivial = distinct case that reached both sides; F9 classes: monitors only; stream implonly-py '
                '(IMPLEMENTATION-ONLY, no model side): values holding arbitrary-Python !py strings with := at top '
                'level / in comprehensions / in lambdas, binding new names, context keys and mutable context objects; '
                'stream lazy: LAZILY MATERIALISING containers (custom Sequence / generator-Sequence / Mapping / Set whose '
                'iteration creates fresh equal-content members, 0-16 members: strings with expressions, fresh tuples / lists / '
                'dicts of them, leaves) at top level, inside a list, as the target of {k} and {k:rf}: monitor "each member '
                'is formatted as itself" (the id-keyed memo must not confuse a dead temporary with the next one) + tree model; '
                'stream almost: leaves that are ALMOST containers - classes defining every subset of __len__ / __iter__ / '
                '__contains__ / __getitem__ / keys x three constructor kinds (takes an iterable / takes nothing / raises), classes '
                'registered with Sequence / Set / Mapping / Collection / Iterable / Sized / Container / Reversible, dict views, range, '
                'memoryview, array, deque, ChainMap, Enum classes and members, generators and iterators, str / bytes / bytearray / int '
                'subclasses, namedtuple, classes as values, objects whose __class__ lies - each at 14 positions (top, list, tuple, dict '
                'value, nested thrice, shared, context value via {k} {k:rf} {k:ff}, member of a context list, set / frozenset member, '
                'dict key, next to a !jsonify): the Lean routing table (FmtRoute.route on what isinstance says against the real abc '
                'classes) vs where the implementation sent it; leaf monitors: identical object at every position, constructor never '
                'called, container-like methods never called, state unchanged, no exception')
    check_f9(env, res)
    check_almost(env, res, I.almost_directed_cases())
    check_lazy(env, res, I.lazy_directed_cases())
    check_lazy(env, res, [I.random_lazy_case(env.rng) for _ in range(env.n(400, 12000))])
    cases = I.directed_cases()
    cases += [{'stream': 'yaml', 'yaml': y} for y in I.YAML_DIRECTED]
    check_cases(env, res, cases)
    check_py(env, res, [dict(stream='implonly-py', **c) for c in I.PY_DIRECTED])
    check_py(env, res, [I.random_py_case(env.rng) for _ in range(env.n(1500, 25000))])
    n_rand = env.n(2000, 60000)
    n_yaml = env.n(400, 6000)
    batch = []
    for i in range(n_rand):
        batch.append(I.random_case(env.rng, env.rng.randint(1, 4)))
        if len(batch) >= 500:
            check_cases(env, res, batch)
            batch = []
    for i in range(n_yaml):
        batch.append(I.random_yaml_case(env.rng))
        if len(batch) >= 500:
            check_cases(env, res, batch)
            batch = []
    if batch:
        check_cases(env, res, batch)


def replay(env, res, case):
    if 'first_diverging_case' in case and case['first_diverging_case']:
        case = case['first_diverging_case']          # a no-failing-input-found file: its first diverging case
    case = case.get('case', case)
    if case.get('stream') == 'f9':
        check_f9(env, res, names=[case['cls']])
    elif case.get('stream') == 'implonly-py':
        check_py(env, res, [case])
    elif str(case.get('stream', '')).startswith('lazy'):
        check_lazy(env, res, [case])
    elif case.get('stream') == 'almost':
        check_almost(env, res, [case])
    else:
        check_cases(env, res, [case])


# ---------------------------------------------------------------------------------------------
# static tie: the isinstance ladder of RecursiveFormatter._get_formatted_iterable, read by ast
# ---------------------------------------------------------------------------------------------

def ladder_facts(repo=None):
    """Read pypyr/formatting.py of the tree under test (ast only): the if / elif chain of `_get_formatted_iterable`
    that routes an object - per rung the classes its `isinstance(obj, …)` tests name and what its body does - the
    final else, and where every non-builtin class name of the tests is imported from."""
    import ast
    from pathlib import Path
    repo = Path(repo or common.REPO)
    tree = ast.parse((repo / 'pypyr' / 'formatting.py').read_text(encoding='utf-8'))
    fn = None
    for node in ast.walk(tree):
        if isinstance(node, ast.ClassDef) and node.name == 'RecursiveFormatter':
            for x in node.body:
                if isinstance(x, ast.FunctionDef) and x.name == '_get_formatted_iterable':
                    fn = x
    if fn is None:
        raise ValueError('RecursiveFormatter._get_formatted_iterable not found')
    chain = [s for s in fn.body if isinstance(s, ast.If) and 'isinstance' in ast.unparse(s.test)]
    if len(chain) != 1:
        raise ValueError(f'expected ONE top-level isinstance ladder in _get_formatted_iterable, found {len(chain)}')

    def classes_of(test):
        """names the test's isinstance calls test `obj` against; anything else in the test is kept verbatim"""
        def one(call):
            if not (isinstance(call, ast.Call) and isinstance(call.func, ast.Name) and call.func.id == 'isinstance'
                    and len(call.args) == 2 and not call.keywords and ast.unparse(call.args[0]) == 'obj'):
                return None
            a = call.args[1]
            return [ast.unparse(e) for e in a.elts] if isinstance(a, ast.Tuple) else [ast.unparse(a)]
        got = one(test)
        if got is not None:
            return got
        if (isinstance(test, ast.BoolOp) and isinstance(test.op, ast.And) and len(test.values) == 2):
            got = one(test.values[1])
            # `self.x and isinstance(obj, self.x)`: configured and matching
            if got is not None and len(got) == 1 and ast.unparse(test.values[0]) == got[0]:
                return got
        return ['<' + ast.unparse(test) + '>']

    def is_rec(call, arg):
        return (isinstance(call, ast.Call) and ast.unparse(call.func) == 'self._get_formatted_iterable'
                and call.args and ast.unparse(call.args[0]) == arg)

    def body_of(stmts):
        if len(stmts) == 1:
            s = stmts[0]
            src = ast.unparse(s)
            if src in ('new = obj', 'new = obj.get_value(kwargs)', 'return obj'):
                return src
            if (isinstance(s, ast.Assign) and ast.unparse(s.targets[0]) == 'new' and isinstance(s.value, ast.Call)):
                c = s.value
                if ast.unparse(c.func) == 'self._format_keep_type' and c.args and ast.unparse(c.args[0]) == 'obj':
                    return 'new = self._format_keep_type(obj, ...)'
                if (ast.unparse(c.func) == 'obj.__class__' and len(c.args) == 1 and not c.keywords
                        and isinstance(c.args[0], ast.GeneratorExp) and len(c.args[0].generators) == 1):
                    g = c.args[0]
                    comp = g.generators[0]
                    head = f'for {ast.unparse(comp.target)} in {ast.unparse(comp.iter)}'
                    if comp.ifs or comp.is_async:
                        head += ' <filtered>'
                    if (isinstance(g.elt, ast.Tuple) and len(g.elt.elts) == 2 and is_rec(g.elt.elts[0], 'k')
                            and is_rec(g.elt.elts[1], 'v')):
                        return f'new = obj.__class__((rec(k), rec(v)) {head})'
                    if is_rec(g.elt, 'v'):
                        return f'new = obj.__class__(rec(v) {head})'
        return '<' + '; '.join(ast.unparse(s).replace('\n', ' ')[:120] for s in stmts) + '>'

    ladder, node = [], chain[0]
    while True:
        ladder.append((classes_of(node.test), body_of(node.body)))
        if len(node.orelse) == 1 and isinstance(node.orelse[0], ast.If):
            node = node.orelse[0]
        else:
            els = body_of(node.orelse) if node.orelse else '<falls through>'
            break
    imported = {}
    for s in tree.body:
        if isinstance(s, ast.ImportFrom):
            for a in s.names:
                imported[a.asname or a.name] = f'{s.module}.{a.name}'
        elif isinstance(s, ast.Import):
            for a in s.names:
                imported[a.asname or a.name] = a.name
    import builtins
    origins = []
    for names, _ in ladder:
        for n in names:
            base = n.split('.')[0]
            if base != 'self' and not n.startswith('<') and not hasattr(builtins, base):
                origins.append((n, imported.get(base, '<not imported at module level>')))
    return {'ladder': ladder, 'else': els, 'origins': sorted(set(origins))}


def extract(env):
    """lean/Generated/FmtLadder.lean: the routing ladder of the tree under test; Props/C09.lean `ladder_is_assumed`
    proves by `decide` that it is the ladder the model's classifier `FmtRoute.route` assumes."""
    f = ladder_facts()

    def q(s):
        return '"' + s.replace('\\', '\\\\').replace('"', '\\"') + '"'

    def lst(xs):
        return '[' + ', '.join(q(x) for x in xs) + ']'
    rungs = ',\n   '.join(f'({lst(names)}, {q(body)})' for names, body in f['ladder'])
    text = ('/- GENERATED by harness/props/c09.py `extract` from pypyr/formatting.py of the tree under test (ast only). '
            'Do not edit. -/\n'
            'namespace Pypyr.Generated.FmtLadder\n\n'
            '/-- the if / elif chain of `RecursiveFormatter._get_formatted_iterable`, in source order: per rung the classes '
            '`isinstance(obj, …)` tests against (a test of another shape is kept verbatim in <…>) and what the body does '
            '(`rec` = the recursive call; a body of another shape is kept verbatim in <…>) -/\n'
            f'def ladder : List (List String × String) :=\n  [{rungs}]\n\n'
            '/-- the final `else` -/\n'
            f'def elseBody : String := {q(f["else"])}\n\n'
            '/-- where each non-builtin class name of the tests comes from (module-level imports) -/\n'
            'def origins : List (String × String) := ['
            + ', '.join(f'({q(a)}, {q(b)})' for a, b in f['origins']) + ']\n\n'
            'end Pypyr.Generated.FmtLadder\n')
    out = common.LEAN / 'Generated' / 'FmtLadder.lean'
    if not out.exists() or out.read_text() != text:
        out.write_text(text)
