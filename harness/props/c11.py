"""C11 - pype: isolation, out, error/stop propagation, stack balance.

Theorems: lean/Props/C11.lean over the flow interpreter model (lean/PypyrModel/Flow/*).
Tie: every case runs on the model (pmdriver) and on the real pypyr (in-process, generated .yaml
files loaded through the real file loader, probe step `vprobe`); directed families carry an
expectation computed from the property text alone (harness/floworacle.py) that judges the
implementation's observation; random programs (harness/flowgen.py) are compared observable by
observable and checked against generic invariants.
"""
from .. import flowcheck
from .. import floworacle as fo
from .. import floworacle_r3 as f3
from . import c11_heap

LEAN_MODULES = ['Props.C11', 'Props.Agreement']
LEAN_MODULES += [m for m in c11_heap.LEAN_MODULES if m not in LEAN_MODULES]
TRUSTED = ['harness/flow_impl.py (yaml renderer, canonicaliser, virtual clock, scripted random.uniform)',
           'harness/probe/vprobe.py (probe step) and its model probeStep',
           'harness/floworacle.py (directed expectations written from the property text)',
           'CPython, ruamel.yaml (modelled, not verified)']
ASSUMPTIONS = ['formatting inside decorators is restricted to the simple {key} grammar of PypyrModel/Fmt.lean',
               'context keys are strings; dict keys never mix bool/int/float',
               'log output (not the log LEVEL: that is a generated input), real time and BaseException other than Exception subclasses are outside the observables']


def run(env, res):
    res.rule = ('directed families (expectation from the property text) first, then seeded random pipelines '
                '(1-3 pipelines, 1-4 groups, 0-4 steps per group, decorators with p~0.25 each, foreach items incl. '
                'None/0/\'\'/False/[]/{}, 12% with a malformed group body or sequence item, 35% written in another '
                'yaml layout: flow style, JSON, first step on line 1, other indentation, single-quoted / plain / block scalars, anchors + aliases, merge keys; every 4th case runs with the root logger at DEBUG, every 8th at INFO, every 8th at NOTIFY - the log level is an input); a case is '
                'non-trivial when the model accepts it and it terminates; distinct by canonical program text')
    directed = [('c11', fo.c11_family, env.n(108, 100000)), ('c11-self', fo.c11_self_family, env.n(60, 100000)),
                ('c01-names', fo.c01_names_family, env.n(60, 100000)),
                ('c02-parser-handler', fo.c02_parser_handler_family, env.n(18, 100000)),
                ('c11-out-container', fo.c11_out_container_family, env.n(36, 100000)),
                ('c11-args-defaults', f3.c11_args_defaults_family, env.n(60, 100000)),
                ('c11-out-reuse', f3.c11_out_reuse_family, env.n(28, 100000)),
                ('c11-nested-shared-pype', f3.c11_nested_shared_pype_family, env.n(1, 100000))]
    flowcheck.run_streams(env, res, directed, env.n(500, 100000), weights={'pype': 6, 'fail': 3, 'stop': 1, 'stoppipeline': 1.5},
                          random_monitor=flowcheck.monitor_all)
    # object-level stream: what the child can reach of the parent (heap model, Props/C11Heap.lean)
    c11_heap.run(env, res)


def replay(env, res, case):
    if c11_heap.owns(case):
        return c11_heap.replay(env, res, case)
    flowcheck.replay_case(env, res, case)
