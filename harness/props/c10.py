"""C10 — contextmerge changes only the named paths; default never overwrites.

A case is one operation or a SEQUENCE of operations (merge / set_defaults / the two steps) on ONE Context.
Correspondence, two models: tree level `Merge.merge` / `setDefaults` / `runStep` / `runOps` (final context,
error name, index of the failing operation) and heap level `MergeHeap.runOpsH` on the heap reading of the very
same objects (identity graph of the context and of every incoming mapping afterwards: what is whose object,
what is new, what is shared). Monitors judged on the implementation alone, per operation: frame condition
(paths not named keep value and identity), overwrite/extend table, defaults never overwrite and add exactly
the missing keys with their once-formatted value; every incoming mapping deep-equal and identity-equal to
its snapshot after its own AND after every later operation; a step leaves the context exactly as
Context.merge / set_defaults of context[key] on a deep copy of the same context does. Any exception of the
implementation (RecursionError included) is an observation, a call that does not return within 10 s a failure.
Containers may be instances of the numbered classes (frozenset, set / list / tuple / dict subclasses, ruamel's
CommentedMap / CommentedSeq, OrderedDict) on either side in every combination (`are_all_this_type` is isinstance);
counters `combo:<kind>:<existing class><-<incoming class>` show which pairs reached a mergeable branch. For single
merge / set_defaults calls the model's ghost trace is compared with the named paths read off the incoming mapping on
the harness side with the real formatter (`impl_c10.flat_named`).
FAILED operations and what follows them: an operation marked "swallow" that raises does not end the sequence (swallow: True,
retry, failure handler): the context it left is compared with the model's (`Merge.runOpsS` / `mergeRecS`: entries before
the failing one written, the failing one not at all) and the later operations run on it. Reference monitor
(`impl_c10.ref_apply`): the property text read entry by entry on deep copies with the real formatter as primitive - each
incoming key and value formatted once, as a whole, against the context as merged so far, BEFORE its entry writes; a default
for a path that exists evaluates nothing - outcome (returns / error class) and context (after success AND after a failure)
must be the reference's; `atomic_monitor`: a list path is never left half-extended. `keys_monitor`: "both apply formatting
to incoming keys" read off the incoming mapping alone for keys of every hashable kind - the formatted key is a key at its
level afterwards and the raw one is not (root, existing mappings, below new paths); `frame-added`: a key that appears
although no incoming key formats to it. Side-effecting !py ({"pysrc":
"free_ports.pop()"}: no model side) is judged by the reference monitor alone.
"""
from .. import common
from .. import impl_c10 as I
from ..impl_c09 import canon_wire, model_graph

LEAN_MODULES = ['Props.C10']
TRUSTED = ['harness/props/c10.py + harness/impl_c10.py (tree-pair / sequence generators, canonicaliser, monitors), '
           'harness/impl_c09.py (object graph <-> heap cells, identity graphs, snapshots, per-case time limit)',
           'the real formatter as a primitive of the monitors (named keys, expected formatted values)',
           'CPython dict/list/set semantics, copy.deepcopy']
ASSUMPTIONS = [
    'tree level: no aliasing between context values or between incoming mapping and context (alias streams '
    'report the known findings); heap level: whatever sharing the generated objects have is in the model',
    'incoming_unmodified is proved for sequences of merge / set_defaults calls whose incoming mappings share no '
    'list / dict with the context; a step stores its input mapping IN the context (separation does not hold): for '
    'steps the claim rests on runOp_step_is_merge + the monitors',
    'CPython identity facts mirrored by the heap model: t + () and () + t hand back the exact-tuple operand',
    'Python key equality 1 == True == 1.0 is outside the modelled domain (never generated)',
    'formatting expressions use the simple grammar of PypyrModel/Fmt.lean',
    'an operation that raises: error name + (when marked swallow, tree level) the context it leaves are compared with the '
    'model; the heap-level model ends a sequence at the first failure (cases with a swallowed failure: tree level only)',
    'a swallowed RecursionError / the model running out of fuel ends the sequence on both sides',
    'reference monitor: harness/impl_c10.ref_apply is a second executable reading of the property text (trusted); it '
    'uses the implementation`s own formatter and dict / list / set operations',
    'side-effecting !py defaults / values ({"pysrc": …}) are outside PyEval.lean: no model side; frame / table / '
    'defaults monitors stand back for such cases (a needed evaluation may legitimately change other paths), the '
    'reference monitor decides which evaluations were due',
]

MODEL_OP = {'merge': 'merge.merge', 'defaults': 'merge.defaults', 'step-merge': 'merge.step',
            'step-default': 'merge.step'}


def request(case):
    """the tree-level request: the model there has no classes (class wrappers stripped)"""
    op = case['op']
    ctx = I.strip_cls(case['ctx'])
    if op == 'seq':
        return 'merge.seq', {'ctx': ctx, 'ops': [dict(o, add=I.strip_cls(o['add'])) if 'add' in o else o
                                                 for o in case['ops']]}
    if op in ('merge', 'defaults'):
        return MODEL_OP[op], {'ctx': ctx, 'add': I.strip_cls(case['add'])}
    return 'merge.step', {'ctx': ctx, 'which': 'contextmerge' if op == 'step-merge' else 'default'}


def check_heap(env, res, todo):
    """Heap level: the same operations on the same objects in `MergeHeap.runOpsH`; the identity graph of the
    context and of every incoming mapping afterwards (who is the same object as whom, what is an object of the
    input, what is new) must be the implementation's."""
    outs = env.driver.ask_many([('merge.seqHeap', {'cells': hp['cells'], 'root': hp['root'], 'ops': hp['ops']})
                                for _, _, hp in todo])
    for (case, iobs, hp), hout in zip(todo, outs):
        if isinstance(hout, common.Reject):
            res.count('heap-rejected:' + str(hout)[:50])
            continue
        res.count('heap:compared')
        if 'ok' in hout:
            cells, n0 = hout['ok']['cells'], hout['ok']['n0']
            roots = [hp['root']] + [o['add'] for o in hp['ops'] if 'add' in o]
            mobs = {'ok': model_graph(cells + [{'list': [0, roots]}], len(cells), n0)}
            if any(cells[i] != hp['cells'][i] for r in roots[1:] for i in reach(hp['cells'], r)):
                res.count('heap:model-writes-incoming')       # only when context and incoming share objects
        else:
            mobs = {'err': 'RecursionError' if hout['err']['name'] == 'OutOfFuel' else hout['err']['name'],
                    'at': hout['at']}
        icmp = {'err': iobs['err'], 'at': iobs['at']} if 'err' in iobs else {'ok': hp.get('graph')}
        if mobs != icmp:
            res.mismatch(case, mobs, icmp, 'heap-level: identity graph of context + incoming mappings / error differ')


def reach(cells, r, seen=None):
    seen = set() if seen is None else seen
    if r in seen:
        return seen
    seen.add(r)
    c = cells[r]
    for kind in ('list', 'tuple', 'set'):
        if kind in c:
            for x in c[kind][1]:
                reach(cells, x, seen)
    if 'dict' in c:
        for k, v in c['dict'][1]:
            reach(cells, k, seen)
            reach(cells, v, seen)
    for kind in ('sic', 'jsonify'):
        if kind in c:
            reach(cells, c[kind], seen)
    return seen


def check_cases(env, res, cases, known_sig=None):
    drv = env.driver
    outs = [None] * len(cases)
    if known_sig is None:
        # frozenset keys: implementation-only (no model side at either level), judged by the monitors alone
        modelled = [i for i, c in enumerate(cases) if not I.impl_only(c)]
        outs = [common.Reject('implementation-only: frozenset key')] * len(cases)
        for i, o in zip(modelled, drv.ask_many([request(cases[i]) for i in modelled])):
            outs[i] = o
    heap_todo = []
    for case, mout in zip(cases, outs):
        iobs, fails = I.run_impl(case)
        hp = iobs.pop('heap', None)
        for combo in iobs.pop('combos', []):
            res.count('combo:' + combo)
        named = iobs.pop('named', None)
        if known_sig is None and hp is not None:
            if isinstance(mout, common.Reject) and I.impl_only(case):
                res.count('heap-skipped:frozenset-key')
            elif 'skip' in hp:
                res.count('heap-skipped:' + hp['skip'])
            else:
                heap_todo.append((case, iobs, hp))
        stream = case['stream'].split(':')[0]
        res.count('stream:' + stream)
        res.count('op:' + case['op'])
        res.count('outcome:' + ('ok' if 'ok' in iobs else iobs['err']))
        for mon, detail in fails:
            res.violation(case, detail, signature=known_sig or {'monitor': mon}, impl=iobs)
        if known_sig is not None:
            res.case(case)
            res.count('alias:' + case['stream'] + (':violates' if fails else ':fine'))
            continue
        if isinstance(mout, common.Reject):
            res.count('rejected:' + str(mout)[:50])
            continue
        res.case(case)
        seq = case['op'] == 'seq'
        if seq:
            res.count('seq:' + '>'.join(o['op'] + ('!' if o.get('swallow') else '') for o in case['ops']))
        if 'ok' in mout:
            mobs = {'ok': canon_wire(mout['ok']['ctx'])}
            if mout['ok'].get('errs'):
                # operations marked "swallow" that failed: index + error name, the sequence went on with the
                # context as the failed operation left it (model: Merge.runOpsS)
                mobs['errs'] = mout['ok']['errs']
                res.count('seq:swallowed-failures=%d' % len(mobs['errs']))
            for w in mout['ok']['trace']:
                res.count('trace:' + ('write' if w[1] else 'descend') + f':depth{len(w[0])}')
            # the model's ghost trace against the named paths read off the incoming mapping with the REAL formatter
            # (harness-side `named_tree`: key formatted, descent iff mapping into mapping, defaults: existing -> none)
            if named is not None and not seq:
                mtrace = [[[canon_wire(k) for k in w[0]], w[1]] for w in mout['ok']['trace']]
                res.count('trace:compared-with-named-paths')
                if mtrace != named:
                    res.mismatch(case, {'trace': mtrace}, {'named': named},
                                 'the model trace is not the list of named paths of the incoming mapping')
        else:
            # divergence class: a self-referential expression ('{{b}}' stored as '{b}' under b by an earlier
            # operation) recurses until RecursionError; the model runs out of fuel
            mobs = {'err': 'RecursionError' if mout['err']['name'] == 'OutOfFuel' else mout['err']['name']}
            if seq:
                mobs['at'] = mout['at']
        icmp = ({'err': iobs['err'], 'at': iobs['at']} if seq else {'err': iobs['err']}) if 'err' in iobs else iobs
        if mobs != icmp:
            res.mismatch(case, mobs, icmp, 'final context / error differ')
    if heap_todo:
        check_heap(env, res, heap_todo)


def run(env, res):
    res.rule = ('directed: existing kind x incoming kind (9 x 9) at depth 1-3 x {plain, value expression, key '
                'expression, both} for merge and set_defaults, root-threading cases, step argument handling; '
                'format-once family (escaped braces, :ff over braces-holding strings, !sic, entries referring to keys an '
                'earlier entry writes) x 4 operations; SEQUENCES of 2-4 operations on one context: accumulator '
                'initialisers ([] {} set() () \'\' 0 None False b\'\' and small non-empty ones) at depth 1-3 x first '
                'operation x second operation + growth by a third, key / value expressions re-resolved after the key '
                'they refer to was rebound in between; class family: every pair of classes of one kind (set / frozenset / '
                'MySet; tuple / MyTuple; list / CommentedSeq / MyList; dict / CommentedMap / OrderedDict / MyDict) as '
                'existing x incoming value, both non-empty / existing empty / incoming empty, merge at depth 1-2, '
                'set_defaults, step; kind clashes between subclasses; random: context tree + incoming tree derived from it with '
                'expressions referring to keys merged earlier in the same call, 45 % as sequences whose later incoming '
                'mappings are derived from earlier ones, 40 % with random classes on the containers at value positions; '
                'whole-entry family: incoming lists / tuples / sets with >= 2 members where a LATER member refers to the '
                'path it is merged into ({seen}, !py len(seen), one level down) or cannot be formatted (missing key, !py '
                'NameError, failure inside a nested member, failing key, failure two levels down, mid-mapping) x merge / '
                'step-merge x {alone, swallowed + value supplied + again, retried 3x}, failing defaults; inert-default '
                'family: 9 existing paths (given / None / empty str / 0 / False / [] / {} / list / int) x 9 defaults whose '
                'evaluation is not inert (unformattable str / !py / list / mapping / jsonify / tuple, !py free_ports.pop() '
                'alone / in a list / in a mapping) x set_defaults / step, nested under an existing mapping, key '
                'expression, needed side-effecting defaults evaluated exactly once; random: 12-30 % of incoming lists get a '
                'later self-referring or failing member, 30 % of defaults on existing paths are unformattable, every op of '
                'a random sequence is marked swallow with p = 0.5; '
                'keys:kinds family: an incoming key of every hashable kind (str expression formatting to str / int / None / a '
                'tuple; int, bool, None, float, bytes; tuple plain / with expression members / nested; frozenset plain / with an '
                'expression member / inside a tuple) at the root, under existing mappings at depth 1-3 and below a new path of '
                'depth 1-2 x formatted key absent / an existing list / an existing None x merge / set_defaults / the two steps '
                '(frozenset keys: implementation-only, judged by the monitors - key-not-formatted, frame-added, table, defaults, '
                'reference); random: 15 % of nested keys and some root keys are non-str (tuples, nested tuples, float, bytes, '
                'frozensets), container keys get expression members whose value is the member; '
                'non-trivial = distinct case that reached both sides; every '
                'case also through the heap-level model; alias streams: monitors only (known findings)')
    for case, sig in I.alias_cases():
        check_cases(env, res, [case], known_sig=sig)
    directed = I.directed_cases()
    for i in range(0, len(directed), 500):
        check_cases(env, res, directed[i:i + 500])
    n = env.n(2300, 40000)
    batch = []
    for _ in range(n):
        batch.append(I.random_case(env.rng))
        if len(batch) >= 500:
            check_cases(env, res, batch)
            batch = []
    if batch:
        check_cases(env, res, batch)


def replay(env, res, case):
    case = case.get('case', case)
    sig = next((s for c, s in I.alias_cases() if c['stream'] == case.get('stream')), None)
    check_cases(env, res, [case], known_sig=sig)
