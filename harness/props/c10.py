"""C10 — contextmerge changes only the named paths; default never overwrites.

Correspondence: real `Context.merge` / `Context.set_defaults` and the real steps
`pypyr.steps.contextmerge` / `pypyr.steps.default` against `Merge.merge` / `setDefaults` / `runStep`
(final context, error name). Monitors judged on the implementation alone: frame condition (paths not
named keep value and identity), overwrite/extend table, defaults never overwrite and add exactly the
missing keys, incoming mapping deep-equal before/after (also for ruamel CommentedMap inputs).
"""
from .. import common
from .. import impl_c10 as I
from ..impl_c09 import canon_wire

LEAN_MODULES = ['Props.C10']
TRUSTED = ['harness/props/c10.py + harness/impl_c10.py (tree-pair generators, canonicaliser, monitors)',
           'the real formatter as a primitive of the monitors (named keys, expected formatted values)',
           'CPython dict/list/set semantics, copy.deepcopy']
ASSUMPTIONS = [
    'trees: no aliasing between context values or between incoming mapping and context (alias streams '
    'report the known findings)',
    'Python key equality 1 == True == 1.0 is outside the modelled domain (never generated)',
    'formatting expressions use the simple grammar of PypyrModel/Fmt.lean',
    'on an exception only the error name is compared (the partially merged context is still monitored)',
]

MODEL_OP = {'merge': 'merge.merge', 'defaults': 'merge.defaults', 'step-merge': 'merge.step',
            'step-default': 'merge.step'}


def request(case):
    op = case['op']
    if op in ('merge', 'defaults'):
        return MODEL_OP[op], {'ctx': case['ctx'], 'add': case['add']}
    return 'merge.step', {'ctx': case['ctx'], 'which': 'contextmerge' if op == 'step-merge' else 'default'}


def check_cases(env, res, cases, known_sig=None):
    drv = env.driver
    outs = drv.ask_many([request(c) for c in cases]) if known_sig is None else [None] * len(cases)
    for case, mout in zip(cases, outs):
        iobs, fails = I.run_impl(case)
        stream = case['stream'].split(':')[0]
        res.count('stream:' + stream)
        res.count('op:' + case['op'])
        res.count('outcome:' + ('ok' if 'ok' in iobs else iobs['err']))
        for mon, detail in fails:
            res.violation(case, detail, signature=known_sig or {'monitor': mon}, impl=iobs)
        if known_sig is not None:
            res.case(case)
            res.count('alias:' + case['stream'] + (':violates' if fails else ':fine'))
            continue
        if isinstance(mout, common.Reject):
            res.count('rejected:' + str(mout)[:50])
            continue
        res.case(case)
        if 'ok' in mout:
            mobs = {'ok': canon_wire(mout['ok']['ctx'])}
            for w in mout['ok']['trace']:
                res.count('trace:' + ('write' if w[1] else 'descend') + f':depth{len(w[0])}')
        else:
            mobs = {'err': mout['err']['name']}
        icmp = {'err': iobs['err']} if 'err' in iobs else iobs
        if mobs != icmp:
            res.mismatch(case, mobs, icmp, 'final context / error differ')


def run(env, res):
    res.rule = ('directed: existing kind x incoming kind (9 x 9) at depth 1-3 x {plain, value expression, key '
                'expression, both} for merge and set_defaults, root-threading cases, step argument handling; '
                'random: context tree + incoming tree derived from it with expressions referring to keys merged '
                'earlier in the same call; non-trivial = distinct case that reached both sides; alias streams: '
                'monitors only (known findings)')
    for case, sig in I.alias_cases():
        check_cases(env, res, [case], known_sig=sig)
    directed = I.directed_cases()
    for i in range(0, len(directed), 500):
        check_cases(env, res, directed[i:i + 500])
    n = env.n(3000, 60000)
    batch = []
    for _ in range(n):
        batch.append(I.random_case(env.rng))
        if len(batch) >= 500:
            check_cases(env, res, batch)
            batch = []
    if batch:
        check_cases(env, res, batch)


def replay(env, res, case):
    case = case.get('case', case)
    sig = next((s for c, s in I.alias_cases() if c['stream'] == case.get('stream')), None)
    check_cases(env, res, [case], known_sig=sig)
