"""C04 — truth rule (first slice; the flow part is added by the flow harness)."""
from .. import common
from ..common import enc, dec, canon

LEAN_MODULES = ['Props.C04']
TRUSTED = ['harness/props/c04.py (value catalogue, canonicaliser)', 'CPython bool()/str.lower()']


def catalogue():
    from pypyr.dsl import SicString
    strs = ['true', 'True', 'TRUE', 'tRuE', '1', '1.0', 'false', 'False', '0', '', ' true', 'true ', 'yes',
            'on', '1.00', '01', 'None', '[]', '0.0', '2']
    vals = [None, True, False, 0, 1, -1, 2, 0.0, 1.0, -0.5, [], [0], (), (0,), {}, {'a': 0}, set(), {1},
            b'', b'\x00'] + strs
    return vals


def run(env, res):
    from pypyr.utils.types import cast_to_bool
    from pypyr.context import Context
    res.rule = ('value catalogue (every Val constructor, the strings the rule distinguishes) x the ways of '
                'giving a decorator value (literal, "{k}" expression, !py name); non-trivial = distinct (value, form)')
    drv = env.driver
    for v in catalogue():
        w = enc(v)
        # 1. cast_to_bool itself
        impl = cast_to_bool(v)
        model = drv.ask('fmt.truth', v=w)['ok']
        case = {'form': 'cast_to_bool', 'v': w}
        res.case(case)
        res.count('cast_to_bool')
        if impl != model:
            res.mismatch(case, model, impl)
        # 2. through get_formatted_as_type: literal, '{k}', !py k
        for form, dv in (('literal', w), ('expr', '{k}'), ('py', {'py': {'n': 'k'}})):
            ctxw = {'d': [['k', w]]}
            case = {'form': form, 'v': w}
            ctx = Context(dec(ctxw))
            try:
                impl = {'ok': ctx.get_formatted_as_type(dec(dv), out_type=bool)}
            except Exception as e:
                impl = {'err': common.exc_name(e)}
            if form == 'literal' and v is None:
                continue  # None means "use the default" - decided by the caller
            try:
                m = drv.ask('fmt.asbool', ctx=ctxw, v=dv)
            except common.Reject:
                res.count('rejected')
                continue
            model = {'ok': m['ok']} if 'ok' in m else {'err': m['err']['name']}
            res.case(case)
            res.count('asbool:' + form)
            if impl != model:
                res.mismatch(case, model, impl)


def replay(env, res, case):
    run(env, res)
