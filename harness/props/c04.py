"""C04 - run/skip/swallow per iteration; in-arguments step-scoped.

Theorems: lean/Props/C04.lean over the flow interpreter model (lean/PypyrModel/Flow/*).
Tie: every case runs on the model (pmdriver) and on the real pypyr (in-process, generated .yaml
files loaded through the real file loader, probe step `vprobe`); directed families carry an
expectation computed from the property text alone (harness/floworacle.py) that judges the
implementation's observation; random programs (harness/flowgen.py) are compared observable by
observable and checked against generic invariants.
"""
from .. import flowcheck
from .. import floworacle as fo
from .. import floworacle_r3 as f3
from .. import floworacle_r5 as f5

LEAN_MODULES = ['Props.C04', 'Props.Agreement', 'Props.Translated_C04']
TRUSTED = ['harness/flow_impl.py (yaml renderer, canonicaliser, virtual clock, scripted random.uniform)',
           'harness/probe/vprobe.py (probe step) and its model probeStep',
           'harness/floworacle.py (directed expectations written from the property text)',
           'CPython, ruamel.yaml (modelled, not verified)']
ASSUMPTIONS = ['formatting inside decorators is restricted to the simple {key} grammar of PypyrModel/Fmt.lean',
               'context keys are strings; dict keys never mix bool/int/float',
               'log output (not the log LEVEL: that is a generated input), real time and BaseException other than Exception subclasses are outside the observables']


def catalogue():
    strs = ['true', 'True', 'TRUE', 'tRuE', '1', '1.0', 'false', 'False', '0', '', ' true', 'true ', 'yes',
            'on', '1.00', '01', 'None', '[]', '0.0', '2']
    return [None, True, False, 0, 1, -1, 2, 0.0, 1.0, -0.5, [], [0], (), (0,), {}, {'a': 0}, set(), {1},
            b'', b'\x00'] + strs


def truth_table(env, res):
    """Exhaustive truth table: every value kind the rule distinguishes x the ways of giving a decorator
    value (cast_to_bool itself, literal, '{k}' expression, !py name). Monitor: the property's own rule."""
    from .. import common
    from ..common import enc, dec
    from pypyr.utils.types import cast_to_bool
    from pypyr.context import Context
    drv = env.driver

    def rule(v):     # the property text
        if isinstance(v, str):
            return v.lower() in ('true', '1', '1.0')
        return bool(v)
    for v in catalogue():
        w = enc(v)
        impl = cast_to_bool(v)
        model = drv.ask('fmt.truth', v=w)['ok']
        case = {'form': 'cast_to_bool', 'v': w}
        res.case(case)
        res.count('truth:cast_to_bool')
        if impl != model:
            res.mismatch(case, model, impl)
        if impl != rule(v):
            res.violation(case, f'cast_to_bool({v!r}) = {impl}, the truth rule says {rule(v)}',
                          signature={'family': 'c04-truth', 'form': 'cast_to_bool', 'value': repr(v)})
        for form, dv in (('literal', w), ('expr', '{k}'), ('py', {'py': {'n': 'k'}})):
            if form == 'literal' and v is None:
                continue
            ctxw = {'d': [['k', w]]}
            case = {'form': form, 'v': w}
            ctx = Context(dec(ctxw))
            try:
                got = ctx.get_formatted_as_type(dec(dv), out_type=bool)
                impl = {'ok': got}
            except Exception as e:
                got = None
                impl = {'err': common.exc_name(e)}
            try:
                m = drv.ask('fmt.asbool', ctx=ctxw, v=dv)
            except common.Reject:
                res.count('truth:rejected')
                continue
            model = {'ok': m['ok']} if 'ok' in m else {'err': m['err']['name']}
            res.case(case)
            res.count('truth:' + form)
            if impl != model:
                res.mismatch(case, model, impl)
            # strings by the string rule (after formatting, unless the result is already a bool);
            # special tags and everything else by Python truthiness
            want = bool(v) if form == 'py' else rule(v)
            if got is not None and got != want:
                res.violation(case, f'{form} decorator value {v!r} evaluates {got}, the truth rule says {want}',
                              signature={'family': 'c04-truth', 'form': form, 'value': repr(v)})

def value_form_table(env, res):
    """Every decorator value FORM of harness/floworacle_r5.value_forms (literal scalars / texts, '{expr}' to every kind,
    texts built by formatting, !py / !sic / !jsonify, container literals with members that must not be looked at)
    straight through Context.get_formatted_as_type(.., out_type=bool): model `fmtAsBool` vs implementation, and the
    monitor: the truth rule's verdict, no error."""
    from .. import common
    from ..common import dec
    from pypyr.context import Context
    drv = env.driver
    for form, val, ctx, truth, impl_only, _ in f5.value_forms():
        if impl_only:
            continue
        ctxw = {'d': [[k, f5.W(v)] for k, v in ctx.items()]}
        case = {'form': form, 'v': val, 'ctx': ctxw}
        try:
            impl = {'ok': Context(dec(ctxw)).get_formatted_as_type(dec(val), out_type=bool)}
        except Exception as e:
            impl = {'err': type(e).__name__}
        try:
            m = drv.ask('fmt.asbool', ctx=ctxw, v=val)
        except common.Reject:
            res.count('forms:rejected')
            continue
        model = {'ok': m['ok']} if 'ok' in m else {'err': m['err']['name'].rpartition('.')[2]}
        res.case(case)
        res.count('forms:' + form.split('->')[0])
        if impl != model:
            res.mismatch(case, model, impl)
        if impl != {'ok': truth}:
            res.violation(case, f'decorator value {val!r} (form {form}, context {ctx!r}) evaluates to {impl}, the truth rule '
                                f'says {truth}', signature={'family': 'c04-value-form-table', 'form': form, 'value': repr(val)})


def extract(env):
    """Translate pypyr/utils/types.py of the tree under test into Lean definitions (harness/translate.py ->
    lean/Generated/Translated*.lean, ast only); Props/Translated_C04.lean proves them equal to the hand-written
    model definitions. Outside the translatable subset this raises (-> proof problem). Thorough tier: also
    run the translated definitions against the real functions on random inputs (harness/translate_selftest.py)."""
    from .. import translate
    translate.generate(['C04'])
    if not env.quick and not env.escalated:
        from .. import translate_selftest
        translate_selftest.check(['C04'], env.seed)


def run(env, res):
    truth_table(env, res)
    value_form_table(env, res)
    res.rule = ('directed families (expectation from the property text) first, then seeded random pipelines '
                '(1-3 pipelines, 1-4 groups, 0-4 steps per group, decorators with p~0.25 each, foreach items incl. '
                'None/0/\'\'/False/[]/{}, 12% with a malformed group body or sequence item, 35% written in another '
                'yaml layout: flow style, JSON, first step on line 1, other indentation, single-quoted / plain / block scalars, anchors + aliases, merge keys; every 4th case runs with the root logger at DEBUG, every 8th at INFO, every 8th at NOTIFY - the log level is an input); a case is '
                'non-trivial when the model accepts it and it terminates; distinct by canonical program text')
    directed = [('c04-value-forms', f5.c04_value_forms_family, env.n(906, 100000)),
                ('c04', fo.c04_family, env.n(200, 100000)), ('c04-in', fo.c04_in_family, env.n(87, 100000)),
                ('c04-scalar-styles', f3.c04_styles_family, env.n(140, 100000))]
    flowcheck.run_streams(env, res, directed, env.n(500, 100000), weights={'fail': 5, 'set': 2},
                          random_monitor=flowcheck.monitor_all)


def replay(env, res, case):
    flowcheck.replay_case(env, res, case)
