"""Directed families of round 5 (expectations from the property texts, see harness/floworacle.py):

  every decorator value form x the bool cast   run / skip / swallow / while.stop / while.errorOnMax / switch case given
                  as a literal scalar, a literal text, a `'{expr}'` string resolving to a value of every kind, a text
                  built by formatting, a `!py` name / expression yielding str / int / float / list / dict / tuple /
                  set / None, `!sic`, `!jsonify`, and CONTAINER LITERALS (empty, non-empty, with members that are
                  unresolvable expressions, stray braces, tags that would fail or have side effects). The truth rule
                  (C04, the code's reading of it in Context.get_formatted_as_type): a special tag is evaluated and its
                  result judged by Python truthiness; a string is formatted, a bool result kept, any other result by
                  the text rule for strings (true / 1 / 1.0, case-insensitive) and truthiness otherwise; anything else
                  (numbers, containers) by Python truthiness of the value AS WRITTEN - its members are never formatted
                  or evaluated;
  counters restored by identity   after a call (call / switch, directly or two levels deep) under foreach / while /
                  retry the caller's `i`, `whileCounter`, `retryCounter` are the caller's own values by VALUE AND TYPE,
                  also when the called groups leave an equal-but-not-identical value behind (True / 1 / 1.0, 0 / False /
                  0.0, '' and the other falsy values): seen by the next attempt of a retry, by a group name formatted
                  from the counter (`call: 'g_{i}'`), and by the step after the calling step;
  error classes that are not module-level   declared inside a class, inside a class inside a class, inside a function,
                  with module `__main__` / `builtins`: the canonical name in runErrors, in the outcome and in the retry
                  filters stopOn / retryOn is `module.ClassName` (bare `ClassName` for `__main__` / `builtins`).

Cases marked meta['impl_only'] use python source outside the modelled `!py` language (wire form {'pyraw': src}):
they run on the implementation alone and are judged by the expectation."""
from __future__ import annotations

import itertools
import json

from .flowgen import D, pycmp, pyname
from .floworacle import ANY, cover_first, probe, prog_of
from .floworacle_r3 import raw


def W(v):
    """python value -> wire value"""
    if v is None or isinstance(v, (bool, int, str)):
        return v
    if isinstance(v, float):
        n, k = v, 0
        while n != int(n):
            n, k = n * 2, k + 1
        return {'f': [int(n), k]}
    if isinstance(v, list):
        return [W(x) for x in v]
    if isinstance(v, tuple):
        return {'t': [W(x) for x in v]}
    if isinstance(v, (set, frozenset)):
        return {'set': sorted((W(x) for x in v), key=lambda w: json.dumps(w, sort_keys=True))}
    if isinstance(v, dict):
        return {'d': [[W(k), W(x)] for k, x in v.items()]}
    raise ValueError(v)


def text_rule(t):
    return t.lower() in ('true', '1', '1.0')


# --------------------------------------------------------------------------
# C04 (C01, C05, C03 switch): every decorator value form x the bool cast
# --------------------------------------------------------------------------

SCALARS = [True, False, 0, 1, 2, -1, 0.0, 1.0, 0.5]
TEXTS = ['true', 'TRUE', 'tRuE', '1', '1.0', 'false', 'False', '0', 'ignore', 'always', '', ' true', 'yes', '0.0', '2',
         'None', '[]']
OTHERS = [None, [], [0], ['false'], {}, {'a': 0}, (), (0,), set(), {1}]
DECORATORS = ['run', 'skip', 'swallow', 'stop', 'errorOnMax', 'switch-case']


def value_forms():
    """[(form, decorator value (wire), context (python values), truth by the rule, impl_only, extra expectation)]"""
    out = []
    for v in SCALARS:
        out.append(('literal-scalar', W(v), {}, bool(v), False, {}))
    for t in TEXTS:
        out.append(('literal-text', t, {}, text_rule(t), False, {}))
    for v in SCALARS + TEXTS + OTHERS:
        kind = type(v).__name__
        # a string decorator: formatted; a bool result is kept, a str result goes by the text rule, the rest by truthiness
        out.append(('expr->' + kind, '{k}', {'k': v}, text_rule(v) if isinstance(v, str) else bool(v), False, {}))
        # a special tag: evaluated, the result by plain truthiness ('false', 'ignore' are true)
        out.append(('py->' + kind, pyname('k'), {'k': v}, bool(v), False, {}))
    out += [('expr-built-text', '{a}{b}', {'a': 'tr', 'b': 'ue'}, True, False, {}),
            ('expr-built-text', '{a}{b}', {'a': 1, 'b': '.0'}, True, False, {}),
            ('expr-built-text', '{a} ', {'a': 'true'}, False, False, {}),
            ('expr-built-text', 'x{a}', {'a': True}, False, False, {}),
            ('expr-built-text', '{a}{b}', {'a': '', 'b': ''}, False, False, {}),
            ('expr-built-text', '{a}{b}', {'a': [], 'b': ''}, False, False, {})]
    for t in ('false', 'ignore', '0', '{no_such_key}', '{', 'true'):
        out.append(('sic', {'sic': t}, {}, True, False, {}))
    for x in ([], D(), [0], D(a='{k}'), ['{k}']):
        out.append(('jsonify', {'jsonify': x}, {'k': 'v'}, True, False, {}))     # a JSON text is never empty
    out += [('py-expression', pycmp('n', '==', 0), {'n': 0}, True, False, {}),
            ('py-expression', pycmp('n', '==', 1), {'n': 0}, False, False, {}),
            ('py-expression', pycmp('n', '!=', 'ignore'), {'n': 'ignore'}, False, False, {}),
            ('py-expression', {'py': {'c': 'false'}}, {}, True, False, {}),
            ('py-expression', {'py': {'c': ''}}, {}, False, False, {})]
    # container literals: Python truthiness of the literal as written
    for c in ([], D(), [[]], [0], ['false'], [None], [''], D(a=0), D(a=False), [D()], [False, 0]):
        truth = bool(c['d']) if isinstance(c, dict) else bool(c)
        out.append(('container-literal', c, {'k': 'v'}, truth, False, {}))
    # ... whose members are not looked at: unresolvable expressions, stray braces, tags
    for c in (['{no_such_key}'], ['{'], ['}{'], ['a', '{no_such_key}'], [pyname('no_such_name')], D(a='{no_such_key}'),
              {'d': [['{no_such_key}', 1]]}, [{'sic': '{x'}], [{'jsonify': '{no_such_key}'}], [['{no_such_key}']],
              [D(a='{no_such_key}')], D(a=['{']), [pycmp('no_such_name', '==', 1)], ['{k[0][1]}'], D(a=pyname('no_such_name'))):
        out.append(('container-unresolvable-member', c, {'k': 'v'}, True, False, {}))
    for c in ([raw('marks.append(1)')], [raw('1/0')], D(a=raw('marks.append(2) or 1')), [[raw('marks.clear() or marks.append(3)')]],
              [raw('marks.append(4)'), '{no_such_key}']):
        out.append(('container-member-with-side-effect', c, {'marks': ['m0']}, True, True, {'ctx_has': {'marks': ['m0']}}))
    return out


def decorated_case(deco, val, truth):
    """(groups, expectation) of a tiny program whose observable behaviour is decided by decorator `deco` = val"""
    of = ['on_failure', [probe('OF')]]
    if deco in ('run', 'skip'):
        a = probe('A')
        a[deco] = val
        ran = truth if deco == 'run' else not truth
        return [['steps', [a, probe('Z')]], of], {'tags': (['A'] if ran else []) + ['Z'], 'outcome': 'ok', 'nerr': 0}
    if deco == 'swallow':
        f = probe('F', failRest='ValueError')
        f['swallow'] = val
        return [['steps', [f, probe('Z')]], of], {'tags': ['F', 'Z'] if truth else ['F', 'OF'], 'nerr': 1,
                                                  'outcome': 'ok' if truth else ('err', 'ValueError')}
    if deco == 'stop':
        w = probe('S')
        w['while'] = {'max': 3, 'stop': val}
        return [['steps', [w, probe('Z')]], of], {'tags': ['S'] * (1 if truth else 3) + ['Z'], 'outcome': 'ok', 'nerr': 0}
    if deco == 'errorOnMax':
        w = probe('S')
        w['while'] = {'max': 2, 'errorOnMax': val}
        return [['steps', [w, probe('Z')]], of], {
            'tags': ['S', 'S'] + (['OF'] if truth else ['Z']),
            'outcome': ('err', 'pypyr.errors.LoopMaxExhaustedError') if truth else 'ok'}
    if deco == 'switch-case':
        sw = {'name': 'pypyr.steps.switch', 'in': [['switch', [D(case=val, call='g1'), D(default='g2')]]]}
        return [['steps', [sw, probe('Z')]], ['g1', [probe('G1')]], ['g2', [probe('G2')]], of], {
            'tags': ['G1' if truth else 'G2', 'Z'], 'outcome': 'ok', 'nerr': 0}
    raise ValueError(deco)


def c04_value_forms_family(rng, n, decorators=DECORATORS):
    cases = [(d, f) for d in decorators for f in value_forms()]
    rng.shuffle(cases)
    cases = cover_first(cases, lambda c: (c[0], c[1][0].split('->')[0]), lambda c: json.dumps(c[1][:3], sort_keys=True, default=str),
                        lambda c: (c[0], c[1][0]))
    for deco, (form, val, ctx, truth, impl_only, extra) in cases[:n]:
        if deco == 'stop' and form == 'jsonify' and val['jsonify'] in ([], {'d': []}):
            # a `stop` whose RAW value is falsy is no stop condition at all (`if self.stop:`; a special tag is as
            # truthy as its payload): the loop runs to max
            truth = False
        groups, exp = decorated_case(deco, json.loads(json.dumps(val)), truth)
        exp.update(extra)
        meta = {'family': 'c04-value-forms', 'decorator': deco, 'form': form, 'value': json.dumps(val),
                'context': json.dumps(W(ctx)), 'rule': truth}
        if impl_only:
            meta['impl_only'] = True
        yield prog_of(groups, ctx={k: W(v) for k, v in ctx.items()} or {'k0': 'v'}), exp, meta


def c04_value_forms_rss(rng, n):
    return c04_value_forms_family(rng, n, ['run', 'skip', 'swallow'])


def c04_value_forms_loops(rng, n):
    return c04_value_forms_family(rng, n, ['stop', 'errorOnMax'])


def c04_value_forms_switch(rng, n):
    return c04_value_forms_family(rng, n, ['switch-case'])


# --------------------------------------------------------------------------
# C03: the caller's counters come back by value AND type
# --------------------------------------------------------------------------

# (the caller's foreach items, what the called group's own loop iterates over / leaves behind)
TWINS = [([0, 1], [False, True]), ([1, 2], [0.5, 1.0]), ([True, False], [1, 0]), ([1.0, 2.0], [2, 1]), ([0, 1], [1.0, 0.0]),
         ([False], [0.0]), ([0, '', None], ['', None, 0]), (['a', 1], [True]), ([None, 0.0], [False]), ([2], [2.0])]
LEAKS = ['foreach', 'probe-set', 'set-step']


def c03_counter_identity_family(rng, n):
    cases = []
    for (items, left), leak, caller, depth, retry, wh, byname in itertools.product(
            TWINS, LEAKS, ('call', 'switch'), (1, 2), (None, 'fails-once', 'passes'), (False, True), (False, True)):
        if byname and (caller != 'call' or depth != 1 or not all(isinstance(x, int) and not isinstance(x, bool) for x in items)):
            continue
        cases.append((items, left, leak, caller, depth, retry, wh, byname))
    rng.shuffle(cases)
    cases = cover_first(cases, lambda c: (c[0], c[1], c[5]), lambda c: (c[2], c[3], c[4]), lambda c: (c[5], c[6], c[7]),
                        lambda c: (c[2], c[7]))
    for items, left, leak, caller, depth, retry, wh, byname in cases[:n]:
        witems, wleft = W(items), W(left)
        # what the called group does to the counters: `i` ends as left[-1] (equal to one of the caller's items, of
        # another type); whileCounter / retryCounter are overwritten by equal values of another type
        wtwin, rtwin = (True, W(1.0)) if leak != 'set-step' else (W(1.0), True)
        if leak == 'foreach':
            lk = probe('L', set=D(whileCounter=W(2.0) if wh else wtwin, retryCounter=rtwin))
            lk['foreach'] = wleft
            nl = len(left)
        elif leak == 'probe-set':
            lk = probe('L', set=D(i=wleft[-1], whileCounter=W(2.0) if wh else wtwin, retryCounter=rtwin))
            nl = 1
        else:
            lk = [{'name': 'pypyr.steps.set', 'in': [['set', D(i=wleft[-1], whileCounter=wtwin, retryCounter=rtwin)]]},
                  probe('L')]
            nl = 1
        lks = lk if isinstance(lk, list) else [lk]
        # R fails on the first attempt of every entry when the caller retries
        n_entries = len(items) * (2 if wh else 1)
        r = probe('R', fails=['ValueError', None] * n_entries) if retry == 'fails-once' else probe('R')

        def callee(tag):
            return [probe(tag)] + json.loads(json.dumps(lks)) + [json.loads(json.dumps(r))]
        groups = []
        if byname:
            target = 'g_{i}'
            for x in items:
                groups.append([f'g_{x}', callee('K')])
        else:
            target = 'g1' if depth == 1 else 'g0'
            groups = [['g0', [{'name': 'pypyr.steps.call', 'in': [['call', 'g1']]}]], ['g1', callee('K')]]
        if caller == 'call':
            cs = {'name': 'pypyr.steps.call', 'in': [['call', target]]}
        else:
            cs = {'name': 'pypyr.steps.switch', 'in': [['switch', [D(case=False, call='nogroup'), D(case=True, call=target)]]]}
        cs['foreach'] = witems
        if retry:
            cs['retry'] = {'max': 3}
        if wh:
            cs['while'] = {'max': 2}
        events = []
        for w in ((1, 2) if wh else (ANY,)):
            for x in witems:
                for att in ((1, 2) if retry == 'fails-once' else (1,) if retry else (ANY,)):
                    # on entry of the called group - also on the retry's second attempt, after the first attempt's
                    # called group overwrote the counters - they are the caller's
                    events.append(('K', x, w, att))
                    events += [('L', ANY, ANY, ANY)] * nl
                    events.append(('R', ANY, ANY, ANY))
        after = ('AFTER', witems[-1], 2 if wh else ANY, (2 if retry == 'fails-once' else 1) if retry else ANY)
        exp = {'events': events + [after], 'outcome': 'ok', 'nerr': n_entries if retry == 'fails-once' else 0,
               'after_event': after}
        yield (prog_of([['steps', [cs, probe('AFTER')]]] + groups, ctx={'k': 'v'}), exp,
               {'family': 'c03-counter-identity', 'items': json.dumps(witems), 'left_behind': json.dumps(wleft), 'leak': leak,
                'caller': caller, 'depth': depth, 'retry': retry, 'while': wh, 'group_name_from_counter': byname})


# --------------------------------------------------------------------------
# C06 / C07: error classes that are not declared at module level
# --------------------------------------------------------------------------

# canonical name (= what the probe is asked to raise; harness/probe/built.py, main.py), how the class is declared
NESTED_ERRORS = [('built.Fatal', 'class in class'), ('built.Timeout', 'class in class in class'),
                 ('built.Quota', 'class in function'), ('built.Deep', 'class in class in function'),
                 ('MainNested', 'class in class, module __main__'), ('MainLocal', 'class in function, module __main__'),
                 ('BuiltinsNested', 'class in class, module builtins'), ('built.BuiltError', 'module level (control)')]


def c06_nested_errors_family(rng, n):
    """The name of an error is `modulename.ClassName` (bare `ClassName` for __main__ / builtins) wherever the class
    was declared: in runErrors (C07), for the caller, and for the retry filters stopOn / retryOn (C06)."""
    cases = []
    for (err, how) in NESTED_ERRORS:
        other = 'built.BuiltError' if err != 'built.BuiltError' else 'built.Fatal'
        filters = [('none', {}), ('stopOn-err', {'stopOn': [err]}), ('retryOn-err', {'retryOn': [err]}),
                   ('stopOn-other', {'stopOn': [other, 'ValueError']}), ('retryOn-other', {'retryOn': [other]}),
                   ('retryOn-err-and-other', {'retryOn': [other, err]}), ('no-retry', None)]
        for (fname, flt), script, loops, sw in itertools.product(filters, ('always', 'twice'), (False, True), (False, True)):
            if flt is None and script == 'twice':
                continue
            cases.append((err, how, fname, flt, script, loops, sw))
    rng.shuffle(cases)
    cases = cover_first(cases, lambda c: (c[0], c[2]), lambda c: (c[0], c[4], c[5]), lambda c: (c[0], c[6]))
    for err, how, fname, flt, script, loops, sw in cases[:n]:
        mx = 3 if flt is not None else 1
        stops = flt is not None and ((err in flt.get('stopOn', [])) or ('retryOn' in flt and err not in flt['retryOn']))
        entries = [(w, x) for w in (1, 2) for x in ('a', 'b')] if loops else [(ANY, ANY)]
        per = ([err, err, None] if script == 'twice' else [err] * mx)
        st = probe('R', fails=per * len(entries))
        if flt is not None:
            st['retry'] = dict({'max': mx, 'sleep': 1}, **json.loads(json.dumps(flt)))
        if loops:
            st['while'] = {'max': 2}
            st['foreach'] = ['a', 'b']
        if sw:
            st['swallow'] = True
        events, sleeps, outcome, recorded = [], [], 'ok', []
        pos, script_all = 0, per * len(entries)
        for ei, (w, x) in enumerate(entries):
            if loops and ei == 2:
                sleeps.append(0)
            failed = None
            for k in range(1, mx + 1):
                events.append(('R', x, w, k if flt is not None else ANY))
                e = script_all[pos] if pos < len(script_all) else None
                pos += 1
                if e is None:
                    break
                if k == mx or stops:
                    failed = e
                    break
                sleeps.append(1)
            if failed:
                recorded.append({'name': err, 'description': 'boom R', 'swallowed': sw, 'step': 'vprobe'})
                if not sw:
                    outcome = ('err', failed)
                    break
        exp = {'events': events + ([('Z', ANY, ANY, ANY)] if outcome == 'ok' else [('OF', ANY, ANY, ANY)]),
               'outcome': outcome, 'sleeps': sleeps, 'nerr': len(recorded), 'entries': recorded}
        if outcome != 'ok':
            exp['err_msg'] = 'boom R'
        prog = prog_of([['steps', [st, probe('Z')]], ['on_failure', [probe('OF')]]], ctx={'k': 'v'})
        yield prog, exp, {'family': 'c06-nested-error-classes', 'error': err, 'declared': how, 'filter': fname,
                          'script': script, 'loops': loops, 'swallow': sw}
